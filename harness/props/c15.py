"""C15 — per-thread fixtures and ThreadedFactory objects are never shared between threads (model M14, Factory part).

Two correspondence streams, both against the REAL code of the tree under test:

  C15.factory  real `ThreadedFactory` subclasses hammered from 1..8 real threads with forced first-access
               races (start barrier, rendezvous inside `setup_object`, or the seeded line-level scheduler of
               harness/sched/c15sched.py restricted to helpers/threading.py), raising `setup_object` attempts,
               several gets per thread, then `teardown_factory` 0/1/2 times.
  C15.run      real runs through `runner.run_suites` with `per_thread=True` fixtures of session and suite scope,
               plain and generator, consumed directly and through a test-scoped fixture, 1..8 workers, tests
               pinned to distinct workers by barriers in the `setup_test` hook (so the first accesses race).

Since /repo commit 8e1157b (fix of D31) `teardown_factory` tears down EVERY object even when some
`teardown_object` calls raise and re-raises the first exception after the loop; raising teardown calls are
therefore generated at ANY position in both streams and clause 4 of the oracle is unconditional.

Both record ONE globally ordered trace under one lock.  Model side: the trace (per factory instance) is replayed
on the Lean acceptor `LccModel.Threads.Factory.step` (drivers/C15.lean); every step must be accepted and the
final ghost state must equal what was observed.  Oracle: the four clauses of the property, evaluated on the
observations only.
"""
import os
import re
import shutil
import sys
import tempfile
import threading
import time

import common as C

PROPERTY = "C15"
LEAN_MODULES = ["LccModel.Props.C15", "LccModel.Props.C15Validation", "LccModel.Props.C15Context", "LccModel.Props.C15Scope",
                "LccModel.Proto",                                                      # what drivers/C15.lean imports besides the models
                "LccModel.ProtoReport", "LccModel.Model.RunAccept", "LccModel.Model.Writer", "LccModel.Model.Grammar"]   # … and drivers/Run.lean (stream C15.sched)
PROPS_FILES = ["LccModel/Props/C15.lean", "LccModel/Props/C15Validation.lean", "LccModel/Props/C15Context.lean", "LccModel/Props/C15Scope.lean"]
NAMESPACES = {"LccModel/Props/C15.lean": "LccModel.C15", "LccModel/Props/C15Validation.lean": "LccModel.C15V",
              "LccModel/Props/C15Context.lean": "LccModel.C15Ctx", "LccModel/Props/C15Scope.lean": "LccModel.C15Scope"}
DRIVER = "drivers/C15.lean"
TRUSTED_BASE = [
    "Lean 4.33.0 kernel; axioms of the property theorems ⊆ {propext, Classical.choice, Quot.sound}",
    "hand-written model LccModel/Model/Threads.lean (namespace Factory) of helpers/threading.py:ThreadedFactory.get_object/"
    "teardown_factory and fixture.py:_PerThreadFixtureResult: one atomic step per source line, per-thread program counters",
    "threading.local semantics (the slot of thread t is visible to t only) — trusted, validated by the streams, not proved",
    "atomicity of list.append and of one read/write of the thread-local attribute under the GIL; CPython pre-emption finer "
    "than a source line is not modelled",
    "hand-written model LccModel/Model/Fixture.lean (check_dependencies / check_fixtures_in_suites, owned by C14) + Model/FixtureDecl.lean "
    "(decorator rule, two-fixture registry); decision tables Generated/C15Tables.lean extracted by executing the real code, re-proved by decide",
    "that test-scoped fixtures and test arguments are evaluated on the worker thread running the test, and session/suite-scoped fixture "
    "parameters once by the thread running the set-up task, is observed on every real run (oracle), not proved here",
    "object identity = Python `is`; a value several creations share (None, 0, '', False, ()) is attributed to the calling thread's own creation",
    "trace-inclusion harness harness/props/c15.py + harness/sched/c15sched.py + drivers/C15.lean (acceptor; the two unobservable "
    "internal steps slot-write/append are inserted before the thread's return, in the order of the observed _objects list)",
]
ASSUMPTIONS = [
    "setup_object returns a fresh object at every successful call (a setup_object that returns the same object twice shares it itself)",
    "teardown_factory is called after every get_object call has completed (runner: on-completion dependencies of the suite/session "
    "teardown task — honoured after a keyboard interrupt too since fix D11, C08's theorems; the interrupt path is not exercised here)",
    "the tree under test contains /repo commit 8e1157b (teardown_factory continues after a raising teardown_object); on an older "
    "tree the check reports a VIOLATION with signature C15/teardown-raises-skips-remaining-instances",
    "worker threads of one run are alive for the whole run, so thread identifiers are not reused inside a run",
    "the run-level clause 'torn down when the scope's teardown task runs, after all consumers' is C03's theorem; here it is the "
    "explicit precondition of the factory theorems and is checked on every real run by the oracle",
]
RULE = ("setup_object values are drawn from a class with falsy values ([], {}, set(), 0, 0.0, None, '', False, (), objects with "
        "__bool__/__len__ false), singletons shared by several creations and equal-but-distinct values; objects are identified by "
        "`is`.  C15.run projects declare fixtures WITH parameters in every dependency shape around per-thread fixtures (allowed and "
        "forbidden) and go through the real PreparedProject.create; rejected projects count when the model predicts the verdict.  "
        "C15.factory: 1..8 real threads × gets per thread × raising setup attempts × race mode (barrier / rendezvous inside "
        "setup_object / seeded line scheduler) × 0/1/2 teardown_factory calls × raising teardown_object calls at any position; non-trivial = ≥ 2 threads created an object, ≥ 2 "
        "gets returned, and two threads were inside get_object's creation window at the same time.  C15.run: real run_suites "
        "runs, 1..8 workers, 1..3 suites (one may be nested), session/suite × plain/generator per-thread fixtures, direct and "
        "via a test-scoped fixture; non-trivial = ≥ 2 worker threads consumed the same fixture instance set and ≥ 2 consumers.  "
        "distinct = hash of the case")
EXPLANATION = ("Validation side (LccModel.C15V): a project accepted by check_dependencies never has a non-test-scoped fixture — in "
               "particular never a per-thread fixture — depending on a per-thread fixture, such a dependency is always rejected with a "
               "ValidationError, a suite's own set-up never takes a per-thread fixture; the direct-dependency rule as a closed-form decision "
               "table, re-extracted from the real decorator and the real check_dependencies on every run.  "
               "All four clauses and the structure of _objects are Lean theorems over every interleaving of the source-line steps of "
               "get_object / teardown_factory for any number of threads; exactly-once teardown holds at full strength (raising "
               "teardown_object calls included) for the loop as repaired by /repo 8e1157b, and the first exception is re-raised "
               "after the loop (the old loop's defect D31 survives only as a *_legacy documentation theorem).  Every real trace is "
               "replayed step by step on the same transition function; the two D31 witnesses stay in the corpus and must pass.")

SIG_D31 = "C15/teardown-raises-skips-remaining-instances"


TABLE_OPENS = ("LccModel.Fixture",)
_SCOPES = [("test", "Scope.test"), ("suite", "Scope.suite"), ("session", "Scope.session"), ("pre_run", "Scope.preRun")]


def _lean_bool(b):
    return "true" if b else "false"


def _declare(name, params, scope, per_thread):
    """`@lcc.fixture(scope=…, per_thread=…) def name(params…)` through the real decorator; None if it refuses"""
    import lemoncheesecake.api as lcc
    fn = _mkfunc(name, params, lambda **kw: None)
    try:
        return lcc.fixture(scope=scope, per_thread=per_thread)(fn)
    except (AssertionError, ValueError):
        return None


def tables(ctx):
    """decision tables of the per-thread rules, by executing the real decorator and the real check_dependencies"""
    from lemoncheesecake.exceptions import ValidationError
    from lemoncheesecake.fixture import BuiltinFixture, FixtureRegistry, load_fixtures_from_func

    decl_rows, declarable = [], []
    for scope, lscope in _SCOPES:
        for pt in (False, True):
            ok = _declare("x", [], scope, pt) is not None
            decl_rows.append(("(%s, %s)" % (lscope, _lean_bool(pt)), _lean_bool(ok), {"scope": scope, "per_thread": pt, "accepted": ok}))
            if ok:
                declarable.append((scope, lscope, pt))
    pair_rows = []
    for fscope, lf, fpt in declarable:
        for gscope, lg, gpt in declarable:
            g = _declare("g", [], gscope, gpt)
            f = _declare("f", ["g"], fscope, fpt)
            registry = FixtureRegistry()
            registry.add_fixture(BuiltinFixture("cli_args", []))
            registry.add_fixture(BuiltinFixture("project_dir", "."))
            for fn in (g, f):
                registry.add_fixtures(load_fixtures_from_func(fn))
            try:
                registry.check_dependencies()
                verdict = "accepted"
            except ValidationError as e:
                verdict = validation_verdict(e)
            kind = verdict.split(":")[0]
            lean_v = "Verdict." + (kind if kind in ("accepted", "perThreadDep", "scopeInversion") else "other")
            pair_rows.append(("(%s, %s, %s, %s)" % (lf, _lean_bool(fpt), lg, _lean_bool(gpt)), lean_v,
                              {"f": [fscope, fpt], "g": [gscope, gpt], "verdict": verdict}))
    # what a suite uses ITSELF: real Suite objects (injected attribute / setup_suite argument), enabled, marked disabled, or nested
    # in a suite marked disabled, through the real check_fixtures_in_suites
    import lemoncheesecake.api as lcc
    from lemoncheesecake.suite.core import Suite, Test
    suite_rows = []
    for state in ("enabled", "disabledOwn", "disabledInherited"):
        for how in ("injected", "setupArg"):
            for gscope, lg, gpt in declarable:
                g = _declare("g", [], gscope, gpt)
                registry = FixtureRegistry()
                registry.add_fixture(BuiltinFixture("cli_args", []))
                registry.add_fixture(BuiltinFixture("project_dir", "."))
                registry.add_fixtures(load_fixtures_from_func(g))
                obj = type("S", (), {"g": lcc.inject_fixture("g")})() if how == "injected" else None
                suite = Suite(obj, "s", "s")
                if how == "setupArg":
                    suite.add_hook("setup_suite", _mkfunc("setup_suite", ["g"], lambda **kw: None))
                suite.add_test(Test("t", "t", lambda: None))
                top = suite
                if state == "disabledOwn":
                    suite.disabled = True
                elif state == "disabledInherited":
                    top = Suite(None, "p", "p")
                    top.disabled = True
                    top.add_suite(suite)
                assert suite.is_disabled() == (state != "enabled")
                try:
                    registry.check_fixtures_in_suites([top])
                    verdict = "accepted"
                except ValidationError as e:
                    verdict = validation_verdict(e)
                kind = verdict.split(":")[0]
                lean_v = "SuiteVerdict." + (kind if kind in ("accepted", "suitePerThread", "suiteScope") else "other")
                suite_rows.append(("(SuiteState.%s, SuiteHow.%s, %s, %s)" % (state, how, lg, _lean_bool(gpt)), lean_v,
                                   {"suite": state, "how": how, "g": [gscope, gpt], "verdict": verdict}))
    imp = ("LccModel.Model.FixtureDecl",)
    return [C.Table("declTable", "List ((Scope × Bool) × Bool)", decl_rows, imports=imp),
            C.Table("pairTable", "List ((Scope × Bool × Scope × Bool) × Verdict)", pair_rows, imports=imp),
            C.Table("suiteUseTable", "List ((SuiteState × SuiteHow × Scope × Bool) × SuiteVerdict)", suite_rows, imports=imp),
            C.Table("slotKeyTable", "List ((%s × Bool × %s) × Bool)" % (_WHERE, _WHERE), slot_key_rows(),
                    imports=("LccModel.Model.ThreadsCtx",))]


_WHERE = "LccModel.Threads.Ctx.Where"
_WHERES = ("base", "copied", "fresh")


def slot_key_rows():
    """WHO owns the slot of a ThreadedFactory — the OS thread or the `contextvars` context?  Decided by executing the real
    class on the whole domain: a first `get_object()` by thread 1 made in its base context / inside a copy of it / inside a
    fresh empty context, then a second one by the same or by another OS thread, made in that thread's base context / in a
    copy of the context the FIRST access ran in / in a fresh empty context.  Row value: did the second access reuse the
    object of the first (True) or create another one (False)."""
    import contextvars

    from lemoncheesecake.helpers import threading as lt

    rows = []
    for first in _WHERES:
        for other in (False, True):
            for second in _WHERES:
                created = []

                class F(lt.ThreadedFactory):
                    def setup_object(self):
                        created.append(object())
                        return created[-1]

                f = F()
                box = {}

                def access_first():
                    if first == "base":
                        f.get_object()
                        box["ctx"] = contextvars.copy_context()     # a snapshot of the context the access ran in
                    else:
                        ctx = contextvars.copy_context() if first == "copied" else contextvars.Context()
                        ctx.run(f.get_object)
                        box["ctx"] = ctx

                def access_second():
                    if second == "base":
                        f.get_object()
                    elif second == "copied":
                        box["ctx"].copy().run(f.get_object)
                    else:
                        contextvars.Context().run(f.get_object)

                def thread_one():
                    access_first()
                    if not other:
                        access_second()
                for fn in (thread_one,) + ((access_second,) if other else ()):
                    th = threading.Thread(target=fn, daemon=True)
                    th.start()
                    th.join(10)
                    if th.is_alive():
                        raise C.InfraError("slot_key_rows: thread still alive")
                hit = len(created) == 1
                rows.append(("(%s.%s, %s, %s.%s)" % (_WHERE, first, _lean_bool(other), _WHERE, second), _lean_bool(hit),
                             {"first_access_in": first, "second_access_by_other_thread": other, "second_access_in": second,
                              "second_access_reused_the_object": hit}))
    return rows


class _Boom(Exception):
    """raised by generated setup code"""


class _TdBoom(Exception):
    """raised by generated teardown code; `oid` = the object whose teardown raised"""

    def __init__(self, oid=None):
        Exception.__init__(self, "generated teardown failure (object %s)" % (oid,))
        self.oid = oid


def _load_linesched():
    """harness/sched/c15sched.py, loaded by path (a package called `sched` would shadow the stdlib module)"""
    import importlib.util

    mod = sys.modules.get("lccverif_c15sched")
    if mod is None:
        path = os.path.join(os.path.dirname(os.path.dirname(os.path.abspath(__file__))), "sched", "c15sched.py")
        spec = importlib.util.spec_from_file_location("lccverif_c15sched", path)
        mod = importlib.util.module_from_spec(spec)
        sys.modules["lccverif_c15sched"] = mod
        spec.loader.exec_module(mod)
    return mod.LineSched


def _join_all(threads, timeout, what):
    deadline = time.time() + timeout
    for th in threads:
        th.join(max(0.0, deadline - time.time()))
    if any(th.is_alive() for th in threads):
        raise C.InfraError(f"{what}: worker thread still alive after {timeout}s (hang)")


# =================================================================================================
# Stream 1: ThreadedFactory hammered directly
# =================================================================================================

# What `setup_object` returns.  The property speaks of OBJECTS (identity): a factory may hand out anything — an
# initially empty per-thread buffer, a counter, None — so the values are drawn from a class that contains falsy
# values, values that are equal to each other but distinct, and interned/singleton values (where two creations
# return the very same Python object: then only the creation count, reuse and the number of teardown calls can
# be observed).  The harness identifies a value by `is`, never by truthiness or `==`.
class _Obj:
    pass


class _FalsyObj:
    def __bool__(self):
        return False


class _Len0Obj:
    def __len__(self):
        return 0


class _EqObj:
    def __eq__(self, other):
        return True

    def __hash__(self):
        return 7


VALUE_MAKERS = {
    "obj": _Obj, "falsy-obj": _FalsyObj, "len0-obj": _Len0Obj,
    "empty-list": list, "empty-dict": dict, "empty-set": set, "zero-float": lambda: float("0.0"),
    "zero": lambda: 0, "none": lambda: None, "empty-str": lambda: "", "false": lambda: False, "empty-tuple": lambda: (),
    "eq-list": lambda: [7], "eq-obj": _EqObj, "eq-tuple": lambda: tuple([1, 2]), "eq-int": lambda: int("1000000"),
}
FALSY_KINDS = {"falsy-obj", "len0-obj", "empty-list", "empty-dict", "empty-set", "zero-float", "zero", "none", "empty-str",
               "false", "empty-tuple"}
SINGLETON_KINDS = {"zero", "none", "empty-str", "false", "empty-tuple"}     # every creation returns the same object
EQUAL_KINDS = {"eq-list", "eq-obj", "eq-tuple", "eq-int", "empty-list", "empty-dict", "empty-set", "zero-float"}


# HOW a `get_object()` call is made.  "Per thread" means per OS thread: the object a thread created must be found again
# by that thread from whatever execution context it looks (a coroutine driven by asyncio.run runs in a COPY of the caller's
# `contextvars` context, so does every asyncio task and `copy_context().run`), and it must not travel to another OS
# thread with a copied context (asyncio.to_thread / executors hand a copy of the caller's context to a helper thread).
OWN_HOWS = ("plain", "copy", "fresh", "arun", "task")       # executed by the calling thread itself
HELPER_HOWS = ("to-thread", "thread-ctx", "thread")          # executed by ANOTHER OS thread (the caller waits for it)
HOWS = OWN_HOWS + HELPER_HOWS


def gen_hows(rng, gets):
    if rng.random() < 0.6:
        return [["plain"] * g for g in gets]
    pool = ["plain", "plain", "plain", "arun", "arun", "copy", "fresh", "task", "to-thread", "to-thread", "thread-ctx", "thread"]
    return [[rng.choice(pool) for _ in range(g)] for g in gets]


def gen_values(rng, k):
    r = rng.random()
    if r < 0.35:
        return ["obj"] * k
    if r < 0.6:
        return [rng.choice(sorted(FALSY_KINDS))] * k          # every thread: the same falsy kind
    return [rng.choice(sorted(VALUE_MAKERS)) for _ in range(k)]

class Factory(C.Stream):
    name = "C15.factory"
    quick_cases = 900
    thorough_cases = 14000
    quick_seconds = 28
    thorough_seconds = 400
    chunk = 50
    corpus = [
        # D31 witness (fixed by 8e1157b, must PASS): two threads, one object each, the first teardown_object call raises
        {"threads": 2, "mode": "barrier", "gets": [1, 1], "raise_at": [[], []], "setup": ["rendezvous", "rendezvous"],
         "delay": [0, 0], "teardowns": 1, "td_raise_calls": [0], "seed": 1},
        # same with 4 threads and the raise in the middle
        {"threads": 4, "mode": "barrier", "gets": [2, 1, 1, 2], "raise_at": [[], [], [], []],
         "setup": ["rendezvous"] * 4, "delay": [0, 0, 0, 0], "teardowns": 1, "td_raise_calls": [1], "seed": 2},
        # raising teardown at the LAST position
        {"threads": 3, "mode": "barrier", "gets": [1, 2, 1], "raise_at": [[], [], []], "setup": ["none"] * 3,
         "delay": [0, 0, 0], "teardowns": 1, "td_raise_calls": [2], "seed": 3},
        # several raising teardown calls: the FIRST exception is the one re-raised; second run raises again
        {"threads": 4, "mode": "line", "gets": [1, 2, 1, 1], "raise_at": [[], [0], [], []], "setup": ["none"] * 4,
         "delay": [0, 0, 0, 0], "teardowns": 2, "td_raise_calls": [1, 3, 4], "seed": 7},
        # the shape of the existing unit test (sequential threads, two gets each) + teardown
        {"threads": 2, "mode": "free", "gets": [2, 2], "raise_at": [[], []], "setup": ["none", "none"],
         "delay": [0, 30], "teardowns": 1, "td_raise_calls": [], "seed": 4},
        # raising setup attempts with retry, line scheduler
        {"threads": 3, "mode": "line", "gets": [3, 3, 2], "raise_at": [[0], [0, 1], []], "setup": ["none"] * 3,
         "delay": [0, 0, 0], "teardowns": 1, "td_raise_calls": [], "seed": 5},
        # teardown_factory called twice
        {"threads": 3, "mode": "line", "gets": [2, 1, 2], "raise_at": [[], [], []], "setup": ["none"] * 3,
         "delay": [0, 0, 0], "teardowns": 2, "td_raise_calls": [], "seed": 6},
        # minimised failing input of the seeded change C15-1 (`getattr(self._local, "object", None) or …`): ONE thread,
        # a falsy per-thread object (an initially empty buffer), two accesses
        {"threads": 1, "mode": "free", "gets": [2], "raise_at": [[]], "setup": ["none"], "delay": [0], "teardowns": 1,
         "td_raise_calls": [], "seed": 8, "values": ["empty-list"]},
        # falsy / singleton / equal-but-distinct values, several accesses per thread, racing first accesses
        {"threads": 4, "mode": "barrier", "gets": [3, 2, 4, 2], "raise_at": [[], [0], [], []], "setup": ["rendezvous"] * 4,
         "delay": [0, 0, 0, 0], "teardowns": 1, "td_raise_calls": [1], "seed": 9, "values": ["none", "zero", "none", "empty-dict"]},
        {"threads": 3, "mode": "line", "gets": [3, 3, 3], "raise_at": [[], [], [1]], "setup": ["none"] * 3,
         "delay": [0, 0, 0], "teardowns": 1, "td_raise_calls": [], "seed": 10, "values": ["eq-list", "eq-list", "false"]},
        {"threads": 3, "mode": "barrier", "gets": [2, 2, 2], "raise_at": [[], [], []], "setup": ["rendezvous"] * 3,
         "delay": [0, 0, 0], "teardowns": 2, "td_raise_calls": [], "seed": 11, "values": ["empty-str", "eq-obj", "falsy-obj"]},
        # accesses from asyncio code and copied contexts: the first access of a thread made inside asyncio.run / a task /
        # copy_context().run, later ones from the plain body; helper OS threads fed with a copy of the caller's context
        # (asyncio.to_thread, Thread(target=ctx.run)) after the caller got its object
        {"threads": 3, "mode": "barrier", "gets": [3, 3, 3], "raise_at": [[], [0], []], "setup": ["rendezvous"] * 3,
         "delay": [0, 0, 0], "teardowns": 1, "td_raise_calls": [], "seed": 12, "values": ["obj", "obj", "empty-list"],
         "how": [["arun", "plain", "to-thread"], ["task", "copy", "plain"], ["plain", "thread-ctx", "fresh"]]},
        {"threads": 2, "mode": "line", "gets": [4, 3], "raise_at": [[], []], "setup": ["none"] * 2,
         "delay": [0, 0], "teardowns": 1, "td_raise_calls": [1], "seed": 13, "values": ["obj", "none"],
         "how": [["copy", "arun", "plain", "thread"], ["to-thread", "plain", "to-thread"]]},
        # minimised failing inputs of the seeded change C15-6 (the slot a contextvars.ContextVar): ONE worker thread
        {"threads": 1, "mode": "free", "gets": [2], "raise_at": [[]], "setup": ["none"], "delay": [0], "teardowns": 1,
         "td_raise_calls": [], "seed": 14, "values": ["obj"], "how": [["arun", "plain"]]},
        {"threads": 1, "mode": "free", "gets": [2], "raise_at": [[]], "setup": ["none"], "delay": [0], "teardowns": 1,
         "td_raise_calls": [], "seed": 15, "values": ["obj"], "how": [["plain", "to-thread"]]},
    ]

    def gen(self, rng, i):
        k = rng.choice([1, 2, 2, 3, 3, 4, 4, 5, 6, 8])
        mode = rng.choice(["barrier", "barrier", "line", "line", "line", "free"])
        gets = [rng.choice([1, 2, 2, 3, 3, 4]) for _ in range(k)]
        raise_at = []
        for t in range(k):
            r = rng.random()
            if r < 0.7:
                raise_at.append([])
            elif r < 0.9:
                raise_at.append([0])
            else:
                raise_at.append(sorted(rng.sample(range(max(gets[t], 1) + 1), rng.randint(1, 2))))
        if mode == "line":
            setup = ["none"] * k
        else:
            p = rng.random()
            setup = [("rendezvous" if p < 0.6 else rng.choice(["none", "sleep", "yield", "rendezvous"])) for _ in range(k)]
        delay = [0] * k if mode != "free" else [rng.choice([0, 0, 1, 3, 8]) for _ in range(k)]
        teardowns = rng.choice([1, 1, 1, 1, 2, 0])
        # raising teardown_object calls at ANY position (indices into the global sequence of teardown_object calls)
        td_raise_calls = []
        if teardowns and rng.random() < 0.4:
            n_calls = k * teardowns
            td_raise_calls = sorted(rng.sample(range(n_calls), rng.randint(1, min(3, n_calls))))
            if rng.random() < 0.2:
                td_raise_calls = ["last"]
        return {"threads": k, "mode": mode, "gets": gets, "raise_at": raise_at, "setup": setup, "delay": delay,
                "teardowns": teardowns, "td_raise_calls": td_raise_calls, "seed": rng.randrange(1 << 30),
                "values": gen_values(rng, k), "how": gen_hows(rng, gets)}

    # ---- the real code ---------------------------------------------------------------------------
    def impl(self, case):
        import asyncio
        import collections
        import contextvars
        import random

        from lemoncheesecake.helpers import threading as lt
        LineSched = _load_linesched()

        k = case["threads"]
        lock = threading.Lock()
        trace = []
        ret_ctx = {}            # index of a `ret` event in the trace -> label of the context the call was made in
        st = {"created": 0, "td_calls": 0, "td_in_run": 0, "td_seen": set(), "ctx": 1000}
        attempts = collections.defaultdict(int)
        done_first = collections.defaultdict(bool)
        tags = {}               # thread OBJECT -> tag (workers 0..k-1, the caller of teardown_factory k, helper threads k+1…)
        notes = set()
        hows = case.get("how") or [["plain"] * g for g in case["gets"]]
        main_thread = threading.current_thread()

        def tag():
            th = threading.current_thread()
            t = tags.get(th)
            if t is None:
                if th is main_thread:
                    return k
                with lock:          # a helper OS thread (asyncio.to_thread / threading.Thread started by a worker)
                    t = tags.setdefault(th, k + 1 + sum(1 for v in tags.values() if v > k))
            return t

        ctx_label = contextvars.ContextVar("lccverif-c15-context")

        def cur_ctx():
            """label of the `contextvars` context current in the calling thread (its base context: the thread's tag)"""
            return ctx_label.get(tag())

        def new_ctx(copy_of=None):
            t = tag()
            with lock:
                st["ctx"] += 1
                c = st["ctx"]
                if copy_of is not None:
                    trace.append(["copy", t, copy_of, c])
            return c

        kinds = list(case.get("values") or ["obj"] * k)
        made = []               # creation index n -> the value the n-th successful setup_object call returned (kept alive)
        made_by = []            # creation index n -> creating thread

        def token(x, t=None, skip=()):
            """creation index of the value `x` — by IDENTITY.  Several creations may have returned the very same
            object (None, 0, "", False, ()): then the latest creation of thread `t` itself, else the first other one."""
            cands = [n for n, v in enumerate(made) if v is x and n not in skip]
            if not cands:
                return "?" + type(x).__name__
            own = [n for n in cands if made_by[n] == t]
            return own[-1] if own else cands[0]

        appended = []           # tokens in the order of the observed `_objects.append` calls

        class RecList(list):
            """`self._objects` with the append made observable (who appended, in global order)"""

            def append(self, x):
                t = tag()
                with lock:
                    appended.append(token(x, t))
                    trace.append(["append", t])
                    list.append(self, x)

        mode = case["mode"]
        n_own = [sum(1 for h in hows[t] if h in OWN_HOWS) for t in range(k)]
        # a thread joins the rendezvous inside setup_object only if one of its OWN attempts will succeed
        will_succeed = [any(a not in case["raise_at"][t] for a in range(n_own[t])) for t in range(k)]
        rdv_n = sum(1 for t in range(k) if case["setup"][t] == "rendezvous" and will_succeed[t]) if mode != "line" else 0
        rdv = threading.Barrier(rdv_n, timeout=2.0) if rdv_n >= 2 else None
        td_raise = case["td_raise_calls"]

        def raise_at(t):
            return case["raise_at"][t] if t < k else []

        class F(lt.ThreadedFactory):
            def setup_object(self):
                t = tag()
                with lock:
                    trace.append(["miss", t])
                    a = attempts[t]
                    attempts[t] += 1
                if a in raise_at(t):
                    with lock:
                        trace.append(["raise", t])
                    raise _Boom()
                if not done_first[t]:
                    done_first[t] = True
                    beh = case["setup"][t] if t < k else "none"
                    if beh == "rendezvous" and rdv is not None:
                        try:
                            rdv.wait()
                        except threading.BrokenBarrierError:
                            notes.add("rendezvous-broken")
                    elif beh == "sleep":
                        time.sleep(0.002)
                    elif beh == "yield":
                        time.sleep(0)
                value = VALUE_MAKERS[kinds[t] if t < k else "obj"]()
                with lock:
                    n = st["created"]
                    st["created"] += 1
                    made.append(value)
                    made_by.append(t)
                    trace.append(["create", t, n])
                return value

            def teardown_object(self, obj):
                t = tag()
                with lock:
                    i = st["td_calls"]
                    st["td_calls"] += 1
                    ok = not (i in td_raise or ("last" in td_raise and i == st["created"] - 1))
                    # the j-th call of a teardown_factory run tears down `_objects[j]`; a value that several creations
                    # share is attributed by that position, anything else by identity
                    j = st["td_in_run"]
                    st["td_in_run"] += 1
                    o = appended[j] if j < len(appended) and isinstance(appended[j], int) and made[appended[j]] is obj \
                        else token(obj, None, skip=st["td_seen"])
                    st["td_seen"].add(o)
                    trace.append(["td", t, o, ok])
                if not ok:
                    raise _TdBoom(o)

        f = F()
        if type(getattr(f, "_objects", None)) is list and not f._objects:
            f._objects = RecList()
        else:
            notes.add("objects-not-instrumented")
        sched = None
        if mode == "line" and k >= 1:
            sched = LineSched(lt.__file__, random.Random(case["seed"]), list(range(k)),
                              switch=0.35 + (case["seed"] % 5) * 0.12, timeout=5.0)
        start = threading.Barrier(k, timeout=5.0) if (mode == "barrier" and k >= 2) else None

        def one_get():
            """one `get_object()` call by the thread that executes this, in the context current there; its outcome is
            recorded with THAT thread's tag"""
            t = tag()
            try:
                o = f.get_object()
            except _Boom:
                with lock:
                    trace.append(["exc", t, "_Boom"])
            except Exception as e:  # classified: not a behaviour of the unchanged code
                with lock:
                    trace.append(["exc", t, type(e).__name__])
            else:
                with lock:
                    ret_ctx[len(trace)] = cur_ctx()
                    trace.append(["ret", t, token(o, t)])

        def labelled(c, fn):
            def run_it():
                ctx_label.set(c)
                return fn()
            return run_it

        def perform(how):
            here = cur_ctx()
            if how == "plain":
                one_get()
            elif how == "copy":                     # contextvars.copy_context().run(...)
                ctx = contextvars.copy_context()
                ctx.run(labelled(new_ctx(here), one_get))
            elif how == "fresh":                    # an empty context
                contextvars.Context().run(labelled(new_ctx(), one_get))
            elif how == "arun":                     # the test drives asyncio code: the coroutine runs in a copy
                c2 = new_ctx(here)

                async def co():
                    ctx_label.set(c2)
                    await asyncio.sleep(0)
                    one_get()
                asyncio.run(co())
            elif how == "task":                     # … which spawns a task (a copy of the coroutine's context)
                c2 = new_ctx(here)

                async def inner(c3):
                    ctx_label.set(c3)
                    await asyncio.sleep(0)
                    one_get()

                async def main():
                    ctx_label.set(c2)
                    await asyncio.create_task(inner(new_ctx(c2)))
                asyncio.run(main())
            elif how == "to-thread":                # … which off-loads a blocking helper to another OS thread
                c2 = new_ctx(here)

                async def main():
                    ctx_label.set(c2)
                    await asyncio.to_thread(labelled(new_ctx(c2), one_get))
                asyncio.run(main())
            elif how == "thread-ctx":               # a helper thread started with a copy of the caller's context
                ctx = contextvars.copy_context()
                th = threading.Thread(target=ctx.run, args=(labelled(new_ctx(here), one_get),), daemon=True)
                th.start()
                th.join(20.0)
            elif how == "thread":                   # a plain helper thread (its own, empty context)
                th = threading.Thread(target=one_get, daemon=True)
                th.start()
                th.join(20.0)
            else:
                raise ValueError(how)

        def worker(t):
            tags[threading.current_thread()] = t
            try:
                if sched is not None:
                    sched.enter(t)
                elif start is not None:
                    try:
                        start.wait()
                    except threading.BrokenBarrierError:
                        notes.add("start-broken")
                if case["delay"][t]:
                    time.sleep(case["delay"][t] / 1000.0)
                for g in range(case["gets"][t]):
                    perform(hows[t][g] if g < len(hows[t]) else "plain")
            finally:
                if sched is not None:
                    sched.leave(t)

        ths = [threading.Thread(target=worker, args=(t,), daemon=True) for t in range(k)]
        for th in ths:
            th.start()
        _join_all(ths, 30.0, "C15.factory")
        objs = getattr(f, "_objects", None)
        snapshot = None
        if isinstance(objs, RecList) and len(objs) == len(appended) and all(
                isinstance(n, int) and made[n] is x for n, x in zip(appended, objs)):
            snapshot = list(appended)
        elif isinstance(objs, list):
            snapshot = [token(x) for x in objs]
            if isinstance(objs, RecList):
                notes.add("objects-differ-from-observed-appends")
        for _ in range(case["teardowns"]):
            with lock:
                trace.append(["tdbegin", k])
                st["td_in_run"] = 0
                st["td_seen"] = set()
            try:
                f.teardown_factory()
            except _TdBoom as e:       # teardown_factory re-raised the exception of teardown_object(e.oid)
                with lock:
                    trace.append(["tdend", k, e.oid])
            except Exception as e:
                with lock:
                    trace.append(["tdend", k, "?" + type(e).__name__])
            else:
                with lock:
                    trace.append(["tdend", k, None])
        if sched is not None and sched.broken:
            notes.add("sched-broken")
        return {"trace": trace, "objects": snapshot, "notes": sorted(notes), "nthreads": k + 1 + sum(1 for v in tags.values() if v > k),
                "ret_ctx": {str(i): c for i, c in ret_ctx.items()},
                "sched": None if sched is None else {"points": sched.points, "switches": sched.switches}}

    # ---- the property, on observations only -------------------------------------------------------
    def oracle(self, case, obs):
        fails = []
        creator, created_by, rets = {}, {}, {}
        td = {}
        raised_td = False
        for ev in obs["trace"]:
            kind, t = ev[0], ev[1]
            if kind == "create":
                creator[ev[2]] = t
                created_by.setdefault(t, []).append(ev[2])
            elif kind == "ret":
                rets.setdefault(t, []).append(ev[2])
            elif kind == "td":
                td[ev[2]] = td.get(ev[2], 0) + 1
                raised_td = raised_td or not ev[3]
        for t, os_ in sorted(created_by.items()):
            if len(os_) > 1:
                fails.append(C.Failure("C15/factory/created-more-than-once-per-thread",
                                       f"thread {t} created {len(os_)} objects {os_} on one factory"))
        for t, os_ in sorted(rets.items()):
            for o in os_:
                if creator.get(o) != t:
                    fails.append(C.Failure("C15/factory/object-handed-to-foreign-thread",
                                           f"get_object on thread {t} returned object {o} created by thread {creator.get(o)}"))
                    break
            if len(set(map(str, os_))) > 1:
                fails.append(C.Failure("C15/factory/not-reused-on-same-thread",
                                       f"thread {t} received different objects from successive get_object calls: {os_}"))
        if case["teardowns"] == 1:
            never = [o for o in sorted(creator) if td.get(o, 0) == 0]
            many = [o for o in sorted(creator) if td.get(o, 0) > 1]
            unknown = [o for o in td if o not in creator]
            if never and raised_td:
                fails.append(C.Failure(SIG_D31, f"a teardown_object call raised and objects {never} were never torn down "
                                                f"(created: {sorted(creator)}) — the behaviour before /repo 8e1157b"))
            elif never:
                fails.append(C.Failure("C15/factory/instance-never-torn-down",
                                       f"objects {never} were created but never torn down by teardown_factory"))
            if many:
                fails.append(C.Failure("C15/factory/instance-torn-down-more-than-once",
                                       f"objects {many} were torn down more than once by one teardown_factory call"))
            if unknown:
                fails.append(C.Failure("C15/factory/teardown-of-unknown-object", f"teardown_object called on {unknown}"))
        return fails

    # ---- the model ----------------------------------------------------------------------------------
    @staticmethod
    def _ctx_events(obs):
        """the get-level history with contexts (model M14d): `get t c` for every call that returned — placed where its
        object was created if it created one, else where it returned — and the context copies; plus the observed (t, o)"""
        trace = obs["trace"]
        create_at, creator = {}, {}
        for i, ev in enumerate(trace):
            if ev[0] == "create":
                create_at[ev[2]], creator[ev[2]] = i, ev[1]
        items, first = [], set()
        for i, ev in enumerate(trace):
            if ev[0] == "copy":
                items.append((i, 0, ["copy", ev[2], ev[3]], None))
            elif ev[0] == "ret":
                t, o = ev[1], ev[2]
                pos = i
                if isinstance(o, int) and creator.get(o) == t and o not in first:
                    first.add(o)
                    pos = create_at[o]
                items.append((pos, 1, ["get", t, (obs.get("ret_ctx") or {}).get(str(i), t)], [t, o]))
        items.sort(key=lambda x: (x[0], x[1]))
        return [it[2] for it in items], [it[3] for it in items if it[3] is not None]

    def request(self, case, obs):
        tr = [ev for ev in obs["trace"] if ev[0] not in ("exc", "copy")]
        nobj = sum(1 for ev in tr if ev[0] == "create")
        snap = obs["objects"]
        if snap is not None and not all(isinstance(o, int) for o in snap):
            snap = None
        return {"threads": obs.get("nthreads", case["threads"] + 1), "nobj": nobj, "objects": snap, "implicit_td": False, "trace": tr,
                "ctx": self._ctx_events(obs)[0]}

    def compare(self, case, obs, ans):
        d = _compare_factory(obs["trace"], obs["objects"], obs.get("nthreads", case["threads"] + 1), ans, case["teardowns"])
        if d is not None:
            return d
        # the get-level model with contexts (slot keyed by the OS thread): who is handed what
        _, rets = self._ctx_events(obs)
        if all(isinstance(o, int) for _, o in rets):
            model = (ans.get("ctx") or {}).get("returned")
            if model != rets:
                return f"get-level history with contexts (thread-keyed slot): model hands out {model}, observed {rets}"
        return None

    def _overlap(self, obs):
        """two threads inside the creation window (miss .. first ret) at the same time"""
        open_, first_ret = {}, set()
        for ev in obs["trace"]:
            if ev[0] == "miss" and ev[1] not in first_ret:
                open_[ev[1]] = True
                if sum(1 for v in open_.values() if v) >= 2:
                    return True
            elif ev[0] == "ret" and ev[1] not in first_ret:
                first_ret.add(ev[1])
                open_[ev[1]] = False
        return False

    def nontrivial(self, case, obs):
        creators = {ev[1] for ev in obs["trace"] if ev[0] == "create"}
        nret = sum(1 for ev in obs["trace"] if ev[0] == "ret")
        return len(creators) >= 2 and nret >= 2 and self._overlap(obs)

    def features(self, case, obs):
        f = ["threads=%d" % case["threads"], "mode=" + case["mode"], "teardowns=%d" % case["teardowns"]]
        if any(case["raise_at"]):
            f.append("raising-setup")
        if any(ev[0] == "raise" for ev in obs["trace"]):
            f.append("setup-raised-then-retried" if any(
                e2[0] == "create" and e2[1] == ev[1] for ev in obs["trace"] if ev[0] == "raise" for e2 in obs["trace"])
                else "setup-raised")
        if case["td_raise_calls"]:
            f.append("raising-teardown")
        tds = [ev for ev in obs["trace"] if ev[0] in ("td", "tdbegin", "tdend")]
        for a, b in zip(tds, tds[1:]):
            if a[0] == "td" and not a[3] and b[0] == "td":
                f.append("teardown-continued-after-a-raising-one")
        if any(ev[0] == "tdend" and ev[2] is not None for ev in tds):
            f.append("teardown_factory-reraised")
        if sum(1 for ev in tds if ev[0] == "td" and not ev[3]) >= 2:
            f.append("several-raising-teardowns")
        if self._overlap(obs):
            f.append("first-access-overlap")
        objs = obs["objects"]
        if objs is not None and all(isinstance(o, int) for o in objs) and objs != sorted(objs):
            f.append("append-order-differs-from-creation-order")
        if max(case["gets"]) >= 2:
            f.append("repeated-get")
        hows = case.get("how") or []
        for t, hs in enumerate(hows):
            for g, h in enumerate(hs):
                if h != "plain":
                    f.append("how:" + h)
            own = [h for h in hs if h in OWN_HOWS]
            if own and own[0] in ("copy", "arun", "task", "fresh") and len(own) >= 2:
                f.append("first-access-of-a-thread-made-in-another-context-then-accessed-again")
            seen_own = False
            for h in hs:
                if h in OWN_HOWS:
                    seen_own = True
                elif h in ("to-thread", "thread-ctx") and seen_own:
                    f.append("helper-thread-runs-in-a-copy-of-its-parents-context-after-the-parent-got-its-object")
        if obs.get("nthreads", 0) > case["threads"] + 1:
            f.append("helper-os-threads=%d" % min(obs["nthreads"] - case["threads"] - 1, 6))
        vals = case.get("values") or []
        for t, kind in enumerate(vals):
            if kind != "obj":
                f.append("value:" + kind)
            if case["gets"][t] >= 2 and kind in FALSY_KINDS:
                f.append("falsy-object-accessed-again")
            if kind in SINGLETON_KINDS and vals.count(kind) >= 2:
                f.append("same-singleton-on-several-threads")
            if kind in EQUAL_KINDS and vals.count(kind) >= 2:
                f.append("equal-but-distinct-objects")
        f += ["note:" + n for n in obs["notes"]]
        return sorted(set(f))

    def shrink(self, case):
        k = case["threads"]
        if case["td_raise_calls"]:
            c = dict(case)
            c["td_raise_calls"] = []
            yield c
        hows = case.get("how")
        if hows and any(h != "plain" for hs in hows for h in hs):
            c = dict(case)
            c["how"] = [["plain"] * len(hs) for hs in hows]
            yield c
            for t, hs in enumerate(hows):
                for g, h in enumerate(hs):
                    if h != "plain":
                        c = dict(case)
                        c["how"] = [list(x) for x in hows]
                        c["how"][t][g] = "plain"
                        yield c
        if k > 1:
            for drop in range(k):
                c = dict(case)
                c["threads"] = k - 1
                for key in ("gets", "raise_at", "setup", "delay") + (("values",) if case.get("values") else ()) + (("how",) if hows else ()):
                    c[key] = case[key][:drop] + case[key][drop + 1:]
                c["td_raise_calls"] = [x for x in case["td_raise_calls"] if x == "last" or x < k - 1]
                yield c
        for t in range(k):
            if case["gets"][t] > 1:
                c = dict(case)
                c["gets"] = case["gets"][:t] + [case["gets"][t] - 1] + case["gets"][t + 1:]
                if hows:
                    c["how"] = [list(x) for x in hows]
                    c["how"][t] = c["how"][t][:-1]
                yield c
                if hows and hows[t][0] != hows[t][-1]:
                    c = dict(c)
                    c["how"] = [list(x) for x in hows]
                    c["how"][t] = c["how"][t][1:]
                    yield c
            if case["raise_at"][t]:
                c = dict(case)
                c["raise_at"] = case["raise_at"][:t] + [[]] + case["raise_at"][t + 1:]
                yield c
        if case["mode"] != "barrier":
            c = dict(case)
            c["mode"] = "barrier"
            yield c


def _compare_factory(trace, snapshot, nthreads, ans, teardowns, label=""):
    """model answer vs observation of one factory instance"""
    if "error" in ans:
        return f"{label}model error: {ans['error']}"
    tr = [ev for ev in trace if ev[0] not in ("exc", "copy")]
    if ans.get("reject") is not None:
        i = ans["accepted"]
        return f"{label}the model rejects observed step {i} {tr[i] if i < len(tr) else None}: {ans['reject']}"
    nobj = sum(1 for ev in tr if ev[0] == "create")
    td = [0] * nobj
    rets, creations = [], [0] * nthreads
    for ev in tr:
        if ev[0] == "td" and isinstance(ev[2], int) and ev[2] < nobj:
            td[ev[2]] += 1
        elif ev[0] == "ret":
            rets.append([ev[1], ev[2]])
        elif ev[0] == "create":
            creations[ev[1]] += 1
    if ans["td_count"] != td:
        return f"{label}teardown counts: model {ans['td_count']} vs observed {td}"
    if snapshot is not None and ans["objects"] != snapshot:
        return f"{label}_objects: model {ans['objects']} vs observed {snapshot}"
    if ans["returned"] != rets:
        return f"{label}returned objects: model {ans['returned']} vs observed {rets}"
    if ans["creations"] != creations:
        return f"{label}creations per thread: model {ans['creations']} vs observed {creations}"
    if not ans["quiescent"]:
        return f"{label}the model is still inside get_object/teardown_factory at the end of the trace"
    if teardowns is not None:
        outcomes = [ev[2] for ev in tr if ev[0] == "tdend"]
        ends = sum(1 for o in outcomes if o is None)
        obj_raises = sum(1 for ev in tr if ev[0] == "td" and not ev[3])
        got = (ans["td_begins"], ans["td_ends"], ans["td_raises"], ans["td_obj_raises"])
        exp = (teardowns, ends, len(outcomes) - ends, obj_raises)
        if got != exp:
            return (f"{label}teardown_factory runs: model begins/returned/re-raised/raising-teardown_object-calls {got} "
                    f"vs observed {exp}")
        if ans["td_outcomes"] != outcomes:
            return f"{label}teardown_factory outcomes (None = returned, o = re-raised exception of object o): model " \
                   f"{ans['td_outcomes']} vs observed {outcomes}"
    return None


# =================================================================================================
# Stream 2: real runs with per-thread fixtures
# =================================================================================================

FIXTURES = {          # name -> (scope, generator?)  — the per-thread fixtures without parameters
    "ps_plain": ("session", False),
    "ps_gen": ("session", True),
    "pu_plain": ("suite", False),
    "pu_gen": ("suite", True),
}
SHARED = {"sh_s": "session", "sh_u": "suite"}     # ordinary (not per-thread) fixtures without parameters
_LEVEL = {"test": 1, "suite": 2, "session": 3, "pre_run": 4}


def fxinfo(case):
    """every fixture the generated project declares: name -> {scope, gen, pt, params}"""
    info = {}
    for fx in case["fixtures"]:
        scope, is_gen = FIXTURES[fx]
        info[fx] = {"scope": scope, "gen": is_gen, "pt": True, "params": []}
        info["via_" + fx] = {"scope": "test", "gen": False, "pt": False, "params": [fx]}
    for name in case.get("shared") or []:
        info[name] = {"scope": SHARED[name], "gen": False, "pt": False, "params": []}
    for d in case.get("extra") or []:
        info[d["name"]] = {"scope": d["scope"], "gen": bool(d.get("gen")) and d["per_thread"], "pt": bool(d["per_thread"]),
                           "params": list(d["params"])}
        if d["per_thread"]:
            info["via_" + d["name"]] = {"scope": "test", "gen": False, "pt": False, "params": [d["name"]]}
    return info


def _mkfunc(name, argnames, impl):
    """a function called `name` whose parameters are exactly `argnames` (lemoncheesecake resolves fixtures by name)"""
    ns = {"_impl": impl}
    args = ", ".join(argnames)
    kw = ", ".join("%s=%s" % (a, a) for a in argnames)
    exec("def %s(%s):\n    return _impl(%s)\n" % (name, args, kw), ns)
    return ns[name]


def _mkgen(name, argnames, impl):
    """same, for a generator fixture (`impl` is a generator function)"""
    ns = {"_impl": impl}
    args = ", ".join(argnames)
    kw = ", ".join("%s=%s" % (a, a) for a in argnames)
    exec("def %s(%s):\n    yield from _impl(%s)\n" % (name, args, kw), ns)
    return ns[name]


_RE_PT = re.compile(r"^Fixture '([^']*)' with scope '[^']*' is incompatible with per-thread fixture '([^']*)'$")
_RE_SC = re.compile(r"^Fixture '([^']*)' with scope '[^']*' is incompatible with scope '[^']*' of fixture '([^']*)'$")
_RE_SPT = re.compile(r"^Suite '([^']*)' uses per-thread fixture '([^']*)' which is not allowed$")
_RE_SSC = re.compile(r"^Suite '([^']*)' uses fixture '([^']*)' which has an incompatible scope$")


def validation_verdict(exc):
    """canonical form of what the real validation said, in the vocabulary of drivers/C15.lean (None = accepted)"""
    if exc is None:
        return "accepted"
    msg = str(exc)
    for rx, kind in ((_RE_PT, "perThreadDep"), (_RE_SC, "scopeInversion"), (_RE_SPT, "suitePerThread"), (_RE_SSC, "suiteScope")):
        m = rx.match(msg)
        if m:
            return "%s:%s:%s" % (kind, m.group(1), m.group(2))
    return "other:" + type(exc).__name__ + ":" + msg[:100]


class Run(C.Stream):
    name = "C15.run"
    quick_cases = 450
    thorough_cases = 7000
    quick_seconds = 28
    thorough_seconds = 420
    chunk = 40
    corpus = [
        # D31 witness at run level (fixed by 8e1157b, must PASS): session-scoped per-thread generator fixture, 2 workers,
        # the teardown code of the instance torn down first raises; before the fix the other instance was never torn down
        {"nb_threads": 2, "mode": "chained", "fixtures": ["ps_gen"], "td_raise": {"fixture": "ps_gen", "calls": [0]}, "raise_setup": None,
         "suites": [{"nested": False, "phases": [[{"uses": [["ps_gen", False]]}, {"uses": [["ps_gen", False]]}]]}]},
        # the same for a suite-scoped one, consumed through a test-scoped fixture
        {"nb_threads": 3, "mode": "chained", "fixtures": ["pu_gen"], "td_raise": {"fixture": "pu_gen", "calls": [0]}, "raise_setup": None,
         "suites": [{"nested": False, "phases": [[{"uses": [["pu_gen", True]]}] * 3]}]},
        # D3 path (repaired in /repo by f2606d5): a per-thread fixture whose function raises on the first attempt of every
        # thread, used directly by the tests -> the test fails (error log, TestEnd), the run returns False; nothing is
        # created by a raising call, later tests on the thread retry
        {"nb_threads": 2, "mode": "chained", "fixtures": ["ps_gen"], "td_raise": None,
         "raise_setup": {"fixture": "ps_gen", "attempts": [0]},
         "suites": [{"nested": False, "phases": [[{"uses": [["ps_gen", False]]}] * 2, [{"uses": [["ps_gen", False]]}] * 2]}]},
        # raising per-thread fixture behind a test-scoped fixture (guarded path): retry by a later test on that thread
        {"nb_threads": 2, "mode": "chained", "fixtures": ["pu_plain"], "td_raise": None,
         "raise_setup": {"fixture": "pu_plain", "attempts": [0]},
         "suites": [{"nested": False, "phases": [[{"uses": [["pu_plain", True]]}] * 2, [{"uses": [["pu_plain", True]]}] * 2,
                                                  [{"uses": [["pu_plain", True]]}]]}]},
        # the existing unit test's shape: 20 tests, 4 threads (no pinning beyond the first phase)
        {"nb_threads": 4, "mode": "chained", "fixtures": ["ps_plain"], "td_raise": None, "raise_setup": None,
         "suites": [{"nested": False, "phases": [[{"uses": [["ps_plain", False]]}] * 4] * 5}]},
        # all four fixtures, two suites + a nested one, reuse across phases
        {"nb_threads": 3, "mode": "chained", "fixtures": ["ps_plain", "ps_gen", "pu_plain", "pu_gen"], "td_raise": None,
         "raise_setup": None,
         "suites": [
             {"nested": False, "phases": [[{"uses": [["ps_gen", False], ["pu_gen", True]]}] * 3,
                                          [{"uses": [["pu_gen", False], ["ps_plain", True]]}] * 2]},
             {"nested": True, "phases": [[{"uses": [["pu_gen", False], ["pu_plain", False]]}] * 2]},
             {"nested": False, "phases": [[{"uses": [["ps_gen", True], ["pu_plain", True]]}] * 3,
                                          [{"uses": [["pu_plain", False]]}]]},
         ]},
        # minimised failing input of the seeded change C15-3 (check_dependencies lets a per-thread fixture depend on a
        # per-thread fixture): REJECTED by the unchanged tree (perThreadDep), which the model predicts; where it is
        # accepted the dependency is resolved once, by the thread running the session set-up, and that instance is
        # handed to the dependent's function on every worker thread
        {"nb_threads": 3, "mode": "chained", "fixtures": ["ps_plain"], "td_raise": None, "raise_setup": None, "shared": [],
         "extra": [{"name": "d0", "scope": "session", "per_thread": True, "gen": False, "params": ["ps_plain"]}],
         "suites": [{"nested": False, "phases": [[{"uses": [["d0", False]]}] * 3, [{"uses": [["d0", False], ["ps_plain", False]]}] * 3]}]},
        # the allowed shapes around it: a per-thread fixture depending on shared (not per-thread) fixtures, a test-scoped
        # fixture depending on per-thread fixtures and on another test-scoped fixture; a suite whose setup_suite uses a
        # shared fixture
        {"nb_threads": 3, "mode": "chained", "fixtures": ["ps_gen", "pu_plain"], "td_raise": None, "raise_setup": None,
         "shared": ["sh_s", "sh_u"],
         "extra": [{"name": "d0", "scope": "session", "per_thread": True, "gen": True, "params": ["sh_s"]},
                   {"name": "d1", "scope": "suite", "per_thread": True, "gen": False, "params": ["sh_u", "sh_s"]},
                   {"name": "d2", "scope": "test", "per_thread": False, "gen": False, "params": ["d0", "pu_plain"]},
                   {"name": "d3", "scope": "test", "per_thread": False, "gen": False, "params": ["d2", "d1"]}],
         "suites": [{"nested": False, "setup_uses": "sh_s",
                     "phases": [[{"uses": [["d0", False], ["d3", False]]}] * 3, [{"uses": [["d1", True], ["d2", False]]}] * 3,
                                [{"uses": [["d3", False], ["ps_gen", False]]}] * 2]},
                    {"nested": True, "phases": [[{"uses": [["d1", False], ["d3", False]]}] * 3]}]},
        # the other forbidden shapes: an ordinary session fixture depending on a per-thread one; a scope inversion; a
        # suite whose setup_suite takes a per-thread fixture
        {"nb_threads": 2, "mode": "chained", "fixtures": ["pu_gen"], "td_raise": None, "raise_setup": None, "shared": ["sh_u"],
         "extra": [{"name": "d0", "scope": "suite", "per_thread": False, "gen": False, "params": ["pu_gen"]}],
         "suites": [{"nested": False, "phases": [[{"uses": [["pu_gen", False]]}] * 2]}]},
        {"nb_threads": 2, "mode": "chained", "fixtures": ["ps_plain"], "td_raise": None, "raise_setup": None, "shared": ["sh_u"],
         "extra": [{"name": "d0", "scope": "session", "per_thread": True, "gen": False, "params": ["sh_u"]}],
         "suites": [{"nested": False, "phases": [[{"uses": [["d0", False]]}] * 2]}]},
        {"nb_threads": 2, "mode": "chained", "fixtures": ["pu_plain"], "td_raise": None, "raise_setup": None, "shared": [],
         "extra": [], "suites": [{"nested": False, "setup_uses": "pu_plain", "phases": [[{"uses": [["pu_plain", False]]}] * 2]}]},
        # options + timing: tests marked @lcc.disabled() run under --force-disabled; the last one (disabled, forced) is still
        # running on its worker when the enabled tests of the suite are over: its suite-scoped instance must not be torn
        # down before it has finished.  Then the same project without --force-disabled (the disabled tests are not run)
        {"nb_threads": 3, "mode": "chained", "fixtures": ["pu_gen", "ps_gen"], "td_raise": None, "raise_setup": None, "force_disabled": True,
         "suites": [{"nested": False, "phases": [[{"uses": [["pu_gen", False]]}, {"uses": [["pu_gen", True]], "disabled": True},
                                                  {"uses": [["pu_gen", False], ["ps_gen", False]], "disabled": True, "hold": True}]]},
                    {"nested": False, "phases": [[{"uses": [["pu_gen", False]]}, {"uses": [["pu_gen", False]], "hold": True}]]}]},
        {"nb_threads": 3, "mode": "chained", "fixtures": ["pu_gen", "ps_gen"], "td_raise": None, "raise_setup": None, "force_disabled": False,
         "suites": [{"nested": False, "phases": [[{"uses": [["pu_gen", False]]}, {"uses": [["pu_gen", True]], "disabled": True},
                                                  {"uses": [["pu_gen", False], ["ps_gen", False]], "disabled": True, "hold": True}]]},
                    {"nested": True, "phases": [[{"uses": [["pu_gen", False]], "disabled": True}, {"uses": [["pu_gen", False]], "hold": True}]]}]},
        # options + an unusual input: a suite marked @lcc.disabled() that injects a per-thread fixture (lcc.inject_fixture()), run
        # with --force-disabled on 3 workers.  REFUSED by the unchanged tree (suitePerThread, as the model predicts: the rule does
        # not look at `disabled`); where it is accepted the suite set-up task evaluates the fixture ONCE and puts that thread's
        # instance on the suite object, where the tests of all the workers read it (minimised failing input of the seeded change
        # C15-11).  Then: the suite nested in a disabled suite, the fixture an argument of its setup_suite which keeps it; the
        # controls — the same disabled suites using a SHARED fixture (accepted, run under the option), the enabled suite (refused)
        {"nb_threads": 3, "mode": "chained", "fixtures": ["ps_plain"], "td_raise": None, "raise_setup": None, "force_disabled": True,
         "suites": [{"nested": False, "disabled": True, "injects": ["ps_plain"], "phases": [[{"uses": [["ps_plain", False]]}] * 3]}]},
        {"nb_threads": 3, "mode": "chained", "fixtures": ["pu_gen"], "td_raise": None, "raise_setup": None, "force_disabled": True,
         "suites": [{"nested": False, "disabled": True, "phases": [[{"uses": [["pu_gen", False]]}] * 2]},
                    {"nested": True, "setup_uses": "pu_gen", "setup_stores": True, "phases": [[{"uses": [["pu_gen", False]]}] * 3]}]},
        {"nb_threads": 3, "mode": "chained", "fixtures": ["ps_plain", "pu_gen"], "td_raise": None, "raise_setup": None, "force_disabled": True,
         "shared": ["sh_s", "sh_u"],
         "suites": [{"nested": False, "disabled": True, "injects": ["sh_s", "sh_u"], "phases": [[{"uses": [["ps_plain", False]]}] * 3]},
                    {"nested": True, "setup_uses": "sh_u", "setup_stores": True, "phases": [[{"uses": [["pu_gen", False]]}] * 3]}]},
        {"nb_threads": 3, "mode": "chained", "fixtures": ["ps_plain"], "td_raise": None, "raise_setup": None,
         "suites": [{"nested": False, "injects": ["ps_plain"], "phases": [[{"uses": [["ps_plain", False]]}] * 3]}]},
        # minimised failing input of the seeded change C15-5 (the suite teardown task only waits for the ENABLED tests)
        {"nb_threads": 2, "mode": "chained", "fixtures": ["pu_gen"], "td_raise": None, "raise_setup": None, "force_disabled": True,
         "suites": [{"nested": False, "phases": [[{"uses": [["pu_gen", False]]}, {"uses": [["pu_gen", False]], "disabled": True, "hold": True}]]}]},
    ]

    # ---- generator ----------------------------------------------------------------------------------
    def _gen_extra(self, rng, fixtures):
        """declared fixtures WITH parameters: every dependency shape around per-thread fixtures, allowed and forbidden"""
        shared = sorted(rng.sample(sorted(SHARED), rng.choice([1, 2, 2])))
        only_allowed = rng.random() < 0.55
        extra, pt_names, test_names = [], list(fixtures), []
        scope_of = {fx: FIXTURES[fx][0] for fx in fixtures}
        scope_of.update({n: SHARED[n] for n in shared})
        for i in range(rng.choice([1, 2, 2, 3, 4])):
            name = "d%d" % i
            allowed = ["test-on-pt", "test-on-pt", "pt-on-shared", "pt-on-shared"] + (["test-on-test"] if test_names else [])
            forbidden = ["pt-on-pt", "pt-on-pt", "pt-on-pt", "plain-on-pt", "pt-on-narrower", "plain-on-narrower"]
            shape = rng.choice(allowed if (only_allowed or any(e.get("forbidden") for e in extra)) else allowed + forbidden)
            d = {"name": name, "gen": rng.random() < 0.4}
            if shape == "test-on-pt":
                d.update(scope="test", per_thread=False, params=sorted(rng.sample(pt_names, min(len(pt_names), rng.choice([1, 1, 2])))))
            elif shape == "test-on-test":
                d.update(scope="test", per_thread=False, params=[rng.choice(test_names)] + ([rng.choice(pt_names)] if rng.random() < 0.4 else []))
            elif shape == "pt-on-shared":
                dep = rng.choice(shared)
                scope = "suite" if scope_of[dep] == "suite" else rng.choice(["session", "suite"])
                d.update(scope=scope, per_thread=True, params=[dep])
            elif shape in ("pt-on-pt", "plain-on-pt"):
                dep = rng.choice(pt_names)
                # no scope inversion on top: the dependent is not wider than what it depends on
                scope = "suite" if scope_of[dep] == "suite" else rng.choice(["session", "suite"])
                d.update(scope=scope, per_thread=(shape == "pt-on-pt"), params=[dep], forbidden=True)
            else:
                cands = [n for n in shared if scope_of[n] == "suite"]
                if not cands:
                    shared.append("sh_u")
                    shared.sort()
                    scope_of["sh_u"] = "suite"
                d.update(scope="session", per_thread=(shape == "pt-on-narrower"), params=["sh_u"], forbidden=True)
            extra.append(d)
            scope_of[name] = d["scope"]
            if d["per_thread"]:
                pt_names.append(name)
            elif d["scope"] == "test":
                test_names.append(name)
        for d in extra:
            d.pop("forbidden", None)
        return shared, extra

    def gen(self, rng, i):
        nb = rng.choice([1, 2, 2, 3, 3, 4, 4, 5, 6, 8])
        mode = "chained" if rng.random() < 0.75 else "free"
        nfx = rng.choice([1, 1, 2, 2, 3, 4])
        fixtures = sorted(rng.sample(sorted(FIXTURES), nfx))
        shared, extra = [], []
        if rng.random() < 0.45:
            shared, extra = self._gen_extra(rng, fixtures)
        usable_pt = fixtures + [d["name"] for d in extra if d["per_thread"]]
        usable_test = [d["name"] for d in extra if d["scope"] == "test"]
        nsuites = rng.choice([1, 1, 2, 2, 3])
        suites = []
        for si in range(nsuites):
            nph = rng.choice([1, 2, 2, 3])
            phases = []
            for _ in range(nph):
                size = rng.randint(1, nb) if rng.random() < 0.5 else nb
                size = min(size, 6)
                tests = []
                for _ in range(size):
                    n_use = rng.choice([1, 1, 2]) if len(usable_pt) > 1 else 1
                    uses = [[fx, rng.random() < 0.35] for fx in sorted(rng.sample(usable_pt, min(n_use, len(usable_pt))))]
                    if usable_test and rng.random() < 0.6:
                        uses.append([rng.choice(usable_test), False])
                    tests.append({"uses": uses})
                phases.append(tests)
            sd = {"nested": si > 0 and rng.random() < 0.3 and not suites[si - 1]["nested"], "phases": phases}
            if extra and rng.random() < 0.25:
                # the suite's own setup_suite takes a fixture: a shared one (allowed), rarely a per-thread / test-scoped one
                r = rng.random()
                sd["setup_uses"] = rng.choice(shared) if (r < 0.8 or not usable_test) and shared else \
                    rng.choice(usable_pt if r < 0.9 or not usable_test else usable_test)
            suites.append(sd)
        gens = [fx for fx in fixtures if FIXTURES[fx][1]]
        td_raise = None
        if gens and rng.random() < 0.3:
            # the teardown code of the k-th torn-down instance(s) of every scope instance of this fixture raises
            td_raise = {"fixture": rng.choice(gens), "calls": sorted(rng.sample(range(min(nb, 4)), rng.randint(1, min(2, nb))))}
        raise_setup = None
        if rng.random() < 0.12:
            # the first attempt(s) of every thread raise; later tests on the thread retry (D3 path, repaired by f2606d5)
            raise_setup = {"fixture": rng.choice(fixtures), "attempts": [0] if rng.random() < 0.8 else [0, 1]}
        case = {"nb_threads": nb, "mode": mode, "fixtures": fixtures, "td_raise": td_raise, "raise_setup": raise_setup,
                "suites": suites}
        if extra:
            case["shared"], case["extra"] = shared, extra
        # options and timing: tests marked @lcc.disabled(), the run with or without --force-disabled (then they are run like
        # the others), and a LAST test of a suite whose body is still running when all its siblings are over (`hold`):
        # the scope of a suite-scoped instance ends when ALL the tests of the suite that are run have finished
        if rng.random() < 0.45:
            tests_of = [[t for ph in sd["phases"] for t in ph] for sd in suites]
            for ts in tests_of:
                for t in ts:
                    if rng.random() < 0.2:
                        t["disabled"] = True
                if rng.random() < 0.6:
                    ts[-1]["hold"] = True
                    if rng.random() < 0.6:
                        ts[-1]["disabled"] = True
            case["force_disabled"] = rng.random() < 0.7
        elif rng.random() < 0.15:
            case["force_disabled"] = True          # the option without any disabled test
        # what a SUITE uses itself, and suites marked @lcc.disabled() (own flag; a nested suite inherits it): fixtures injected
        # with lcc.inject_fixture() — a shared one (allowed), a per-thread one or a test-scoped one (refused, whether the suite
        # is disabled or not and whatever --force-disabled says: under the option a disabled suite IS set up, by one thread)
        if rng.random() < 0.4:
            self._gen_suite_level(rng, case)
        return case

    @staticmethod
    def _has_forbidden(case):
        """does the generated project already contain a shape the validation refuses? (generation bias only: at most one
        forbidden shape per project, so that relaxing ONE rule yields an otherwise valid project)"""
        info = fxinfo(case)
        for m in info.values():
            for p in m["params"]:
                if (info[p]["pt"] and m["scope"] != "test") or _LEVEL[info[p]["scope"]] < _LEVEL[m["scope"]]:
                    return True
        for sd in case["suites"]:
            for n in ([sd["setup_uses"]] if sd.get("setup_uses") else []) + list(sd.get("injects") or []):
                if info[n]["pt"] or info[n]["scope"] == "test":
                    return True
        return False

    def _gen_suite_level(self, rng, case):
        shared = list(case.get("shared") or [])
        test_scoped = [d["name"] for d in case.get("extra") or [] if d["scope"] == "test"]
        pts = list(case["fixtures"]) + [d["name"] for d in case.get("extra") or [] if d["per_thread"]]
        any_disabled = False

        def pick_shared(k):
            names = sorted(rng.sample(sorted(SHARED), k))
            for n in names:
                if n not in shared:
                    shared.append(n)
            shared.sort()
            case["shared"] = shared
            return names

        for sd in case["suites"]:
            if rng.random() < 0.5:
                sd["disabled"] = True
                any_disabled = True
            if rng.random() < 0.6:
                r = rng.random()
                if r < 0.68 or self._has_forbidden(case):
                    sd["injects"] = pick_shared(rng.choice([1, 1, 2]))
                elif r < 0.95 or not test_scoped:
                    sd["injects"] = [rng.choice(pts)]
                else:
                    sd["injects"] = [rng.choice(test_scoped)]
            if not sd.get("setup_uses") and rng.random() < 0.25:
                # the other way a suite uses a fixture itself: an argument of its setup_suite
                sd["setup_uses"] = pick_shared(1)[0] if (rng.random() < 0.7 or self._has_forbidden(case)) else rng.choice(pts)
            if sd.get("setup_uses") and rng.random() < 0.6:
                sd["setup_stores"] = True        # setup_suite keeps what it was given (self.x = x), the tests read it
        if any_disabled and rng.random() < 0.75:
            case["force_disabled"] = True

    # ---- what the project declares, for the model ------------------------------------------------------
    @staticmethod
    def _decls(case):
        return [{"names": [n], "scope": m["scope"], "per_thread": m["pt"], "params": m["params"]} for n, m in fxinfo(case).items()]

    @staticmethod
    def _suite_shapes(case):
        """the suite tree as `check_fixtures_in_suites` sees it (paths, setup_suite arguments, test arguments)"""
        top, prev_top = [], None
        for si, sdesc in enumerate(case["suites"]):
            nested = bool(sdesc["nested"] and prev_top is not None)
            path = (prev_top["path"] + "." if nested else "") + "s%d" % si
            tests = []
            for pi, phase in enumerate(sdesc["phases"]):
                for ti, tdesc in enumerate(phase):
                    info = fxinfo(case)
                    args = [("via_" + fx if via and info.get(fx, {}).get("pt") else fx) for fx, via in tdesc["uses"]]
                    tests.append({"path": "%s.t%d_%d_%d" % (path, si, pi, ti), "args": args, "parameters": [], "disabled": bool(tdesc.get("disabled"))})
            node = {"path": path, "disabled": bool(sdesc.get("disabled")), "injected": list(sdesc.get("injects") or []),
                    "setup_args": [sdesc["setup_uses"]] if sdesc.get("setup_uses") else [],
                    "tests": tests, "subs": []}
            if nested:
                prev_top["subs"].append(node)
            else:
                top.append(node)
                prev_top = node
        return top

    # ---- the real code ---------------------------------------------------------------------------
    def impl(self, case):
        import lemoncheesecake.api as lcc
        from lemoncheesecake import runner
        from lemoncheesecake.events import AsyncEventManager
        from lemoncheesecake.exceptions import ValidationError
        from lemoncheesecake.fixture import load_fixtures_from_func
        from lemoncheesecake.project import PreparedProject, Project
        from lemoncheesecake.session import Session
        from lemoncheesecake.suite.core import Suite, Test

        nb = case["nb_threads"]
        info = fxinfo(case)
        lock = threading.Lock()
        trace = []
        tids = {}
        cur = threading.local()
        st = {"n": 0, "td": {}, "attempts": {}}
        notes = set()
        chained = case["mode"] == "chained"

        def tid():
            i = threading.get_ident()
            if i not in tids:
                tids[i] = len(tids)
            return tids[i]

        def rec(*ev):
            with lock:
                trace.append(list(ev[:1]) + [tid()] + list(ev[1:]))

        class Inst:
            """the value a generated fixture function returns: remembers what it is and what it was given"""

            def __init__(self, n, key, fx, pt, params):
                self.n, self.key, self.fx, self.pt, self.params = n, key, fx, pt, params

        def ident(x):
            return x.n if isinstance(x, Inst) else "?" + type(x).__name__

        def key_of(fx):
            scope = info[fx]["scope"]
            return fx + "@" + ("session" if scope == "session" else getattr(cur, "suite", "?"))

        rs = case.get("raise_setup")

        def create(fx, params):
            key = key_of(fx)
            with lock:
                t = tid()
                trace.append(["miss", t, key])
                a = st["attempts"].get((fx, t), 0)
                st["attempts"][(fx, t)] = a + 1
            if rs and rs["fixture"] == fx and a in rs["attempts"]:
                rec("raise", key)
                raise _Boom("generated setup failure")
            with lock:
                n = st["n"]
                st["n"] += 1
                trace.append(["create", tid(), key, n])
            return Inst(n, key, fx, True, params)

        def plain(fx, params):
            with lock:
                n = st["n"]
                st["n"] += 1
                trace.append(["mk", tid(), fx, n])
            return Inst(n, fx, fx, False, params)

        def teardown(inst):
            fx = inst.key.split("@")[0]
            with lock:
                k = st["td"].get(inst.key, 0)
                st["td"][inst.key] = k + 1
                tdr = case.get("td_raise")
                ok = not (tdr and tdr["fixture"] == fx and k in tdr["calls"])
                trace.append(["td", tid(), inst.key, inst.n, ok])
            if not ok:
                raise _TdBoom(inst.n)

        def make_fixture(name):
            meta = info[name]
            is_via = name.startswith("via_")
            on_test_thread = meta["scope"] == "test" or meta["pt"]     # where the code as it is evaluates the function

            def received(kw):
                # a per-thread instance handed to this fixture function as a parameter, on the thread that runs the function
                for p in meta["params"]:
                    v = kw[p]
                    if isinstance(v, Inst) and v.pt:
                        key = key_of(p) if on_test_thread else v.key
                        rec("use", key, v.n, getattr(cur, "test", "?") if on_test_thread else "fx:" + name,
                            "via" if is_via else "param:" + name, True)

            if is_via:
                def fn(**kw):
                    received(kw)
                    return kw[meta["params"][0]]
            elif meta["pt"] and meta["gen"]:
                def fn(**kw):
                    received(kw)
                    inst = create(name, kw)
                    yield inst
                    teardown(inst)
                return lcc.fixture(scope=meta["scope"], per_thread=True)(_mkgen(name, meta["params"], fn))
            elif meta["pt"]:
                def fn(**kw):
                    received(kw)
                    return create(name, kw)
            else:
                def fn(**kw):
                    received(kw)
                    return plain(name, kw)
            return lcc.fixture(scope=meta["scope"], per_thread=meta["pt"])(_mkfunc(name, meta["params"], fn))

        fixture_funcs = [make_fixture(name) for name in info]

        def nested(v, seen):
            """per-thread instances reachable through the parameters the value was built from"""
            if not isinstance(v, Inst) or id(v) in seen:
                return
            seen.add(id(v))
            for w in v.params.values():
                if isinstance(w, Inst):
                    if w.pt:
                        yield w
                    yield from nested(w, seen)

        # ---- suites ------------------------------------------------------------------------------
        barriers = {}
        force = bool(case.get("force_disabled"))
        over_cv = threading.Condition()
        over = {}               # suite name -> names of its tests that are over (body ended or teardown_test reached)
        running_total = {}      # suite name -> number of its tests that are run (enabled, or disabled and forced)

        suite_dis = {"cur": False, "top": False}     # is the suite being built disabled (own flag or an enclosing suite's)?
        suite_store = {}                             # suite name -> what its setup_suite was given (when it keeps it)

        def runs(tdesc):
            return force or not (tdesc.get("disabled") or suite_dis["cur"])

        def setup_test(test):
            cur.suite = test.parent_suite.name
            cur.test = test.path
            rec("test_start", test.path)
            b = barriers.get(test.name)
            if b is not None:
                try:
                    b.wait()
                except threading.BrokenBarrierError:
                    notes.add("barrier-broken")

        def mark_over(suite_name, test_name):
            with over_cv:
                over.setdefault(suite_name, set()).add(test_name)
                over_cv.notify_all()

        def teardown_test(test, status):
            mark_over(test.parent_suite.name, test.name)

        def outlive_siblings(suite_name, test_name):
            """the body goes on until every other test of the suite that is run is over, and a little longer"""
            deadline = time.time() + 2.0
            with over_cv:
                while len(over.get(suite_name, set()) - {test_name}) < running_total[suite_name] - 1:
                    left = deadline - time.time()
                    if left <= 0:
                        notes.add("hold-timeout")
                        break
                    over_cv.wait(left)
            time.sleep(0.04)

        top, prev_top, prev_last = [], None, None
        for si, sdesc in enumerate(case["suites"]):
            injects = list(sdesc.get("injects") or [])
            obj = None
            if injects:
                # as written by the user: class attributes `x = lcc.inject_fixture("name")` of the suite class
                obj = type("SuiteObj%d" % si, (), {"inj_%d" % k: lcc.inject_fixture(n) for k, n in enumerate(injects)})()
            suite = Suite(obj, "s%d" % si, "suite %d" % si)
            is_nested = bool(sdesc["nested"] and prev_top is not None)
            if sdesc.get("disabled"):
                suite.disabled = True
            suite_dis["cur"] = bool(sdesc.get("disabled")) or (is_nested and suite_dis["top"])
            if not is_nested:
                suite_dis["top"] = suite_dis["cur"]
            suite.add_hook("setup_test", setup_test)
            suite.add_hook("teardown_test", teardown_test)
            running_total[suite.name] = sum(1 for ph in sdesc["phases"] for t in ph if runs(t))
            if sdesc.get("setup_uses"):
                def setup_suite_impl(sname="s%d" % si, stores=bool(sdesc.get("setup_stores")), **kw):
                    for p, v in kw.items():
                        if isinstance(v, Inst) and v.pt:
                            rec("use", v.key, v.n, "suite-setup:" + sname, "suite-setup", True)
                    if stores:
                        suite_store[sname] = dict(kw)
                suite.add_hook("setup_suite", _mkfunc("setup_suite", [sdesc["setup_uses"]], setup_suite_impl))
            tests = []
            for pi, phase in enumerate(sdesc["phases"]):
                size = min(sum(1 for t in phase if runs(t)), nb)        # the tests of the phase that are run, pinned to workers
                bar = threading.Barrier(size, timeout=(6.0 if chained else 0.25)) if size >= 2 else None
                pinned = 0
                for ti, tdesc in enumerate(phase):
                    args = [("via_" + fx if via and info[fx]["pt"] else fx) for fx, via in tdesc["uses"]]
                    name = "t%d_%d_%d" % (si, pi, ti)

                    def body(uses=tdesc["uses"], hold=bool(tdesc.get("hold")), sname=suite.name, tname=name, sobj=obj,
                             attrs=tuple("inj_%d" % k for k in range(len(injects))), **kw):
                        # what the suite itself obtained (injected attributes, what setup_suite kept) as the test sees it
                        for how, vals in (("injected", [getattr(sobj, a, None) for a in attrs]),
                                          ("from-setup_suite", list(suite_store.get(sname, {}).values()))):
                            for v in vals:
                                if isinstance(v, Inst) and v.pt:
                                    rec("use", v.key, v.n, cur.test, how, False)
                                for w in nested(v, set()):
                                    rec("use", w.key, w.n, cur.test, "nested", False)
                        for fx, via in uses:
                            via = via and info[fx]["pt"]
                            v = kw["via_" + fx if via else fx]
                            if info[fx]["pt"]:
                                rec("use", key_of(fx), ident(v), cur.test, "body", not via)
                            for w in nested(v, set()):
                                rec("use", key_of(w.fx), w.n, cur.test, "nested", False)
                        if hold:
                            outlive_siblings(sname, tname)
                            rec("held", cur.test)
                        rec("test_end", cur.test)
                        mark_over(sname, tname)
                    test = Test(name, name, _mkfunc(name, args, body))
                    if tdesc.get("disabled"):
                        test.disabled = True
                    if chained and prev_last is not None:
                        test.dependencies.append(prev_last)
                    suite.add_test(test)
                    if runs(tdesc):
                        tests.append(test)
                        if bar is not None and pinned < size:
                            barriers[name] = bar        # test names are unique over the whole project
                            pinned += 1
            if sdesc["nested"] and prev_top is not None:
                prev_top.add_suite(suite)
            else:
                top.append(suite)
                prev_top = suite
            if tests:
                prev_last = tests[-1].path      # the last test of the suite that is RUN

        # ---- event seam: global order of SuiteEnd / TestSessionEnd relative to the user-code trace ---------
        class RecEM(AsyncEventManager):
            def fire(self, event):
                name = type(event).__name__
                if name == "SuiteEndEvent":
                    rec("suite_end", event.suite.name)
                elif name == "TestSessionEndEvent":
                    rec("session_end")
                return AsyncEventManager.fire(self, event)

        # ---- the normal validation path: PreparedProject.create (policy, test dependencies, fixture registry with the
        #      builtin fixtures, check_dependencies, check_fixtures_in_suites) --------------------------------------
        fixtures = []
        for f in fixture_funcs:
            fixtures += load_fixtures_from_func(f)
        report_dir = tempfile.mkdtemp(prefix="lccverif-c15-")

        class GeneratedProject(Project):
            def load_suites(self):
                return top

            def load_fixtures(self):
                return fixtures

        try:
            try:
                prepared = PreparedProject.create(GeneratedProject(report_dir))
            except ValidationError as e:
                return {"trace": [], "result": "rejected", "verdict": validation_verdict(e), "message": str(e)[:300],
                        "notes": [], "threads": 0}
            registry = prepared.fixture_registry
            out = {}

            def go():
                try:
                    session = Session.create(RecEM.load(), [], report_dir, None, nb_threads=nb)
                    out["result"] = "returned:%s" % runner.run_suites(top, registry, session, nb_threads=nb, force_disabled=force)
                except BaseException as e:  # classified
                    out["result"] = "raised:" + type(e).__name__
                    out["message"] = str(e)[-300:]

            th = threading.Thread(target=go, daemon=True)
            th.start()
            th.join(60.0)
            if th.is_alive():
                raise C.InfraError("C15.run: run_suites still running after 60 s (hang)")
        finally:
            shutil.rmtree(report_dir, ignore_errors=True)
        return {"trace": trace, "result": out.get("result"), "verdict": "accepted", "message": out.get("message"),
                "notes": sorted(notes), "threads": len(tids)}

    # ---- the property, on observations only -------------------------------------------------------
    def oracle(self, case, obs):
        fails = []
        info = fxinfo(case)
        tr = obs["trace"]
        creator, inst_key, created = {}, {}, {}
        uses = {}          # (key, thread) -> [object]
        last_use, td_at, td_raise_at = {}, {}, {}
        scope_end = {}
        test_end = {ev[2]: i for i, ev in enumerate(tr) if ev[0] == "test_end"}
        for i, ev in enumerate(tr):
            kind, t = ev[0], ev[1]
            if kind == "create":
                key, o = ev[2], ev[3]
                creator[o], inst_key[o] = t, key
                created.setdefault((key, t), []).append(o)
            elif kind == "use":
                key, o = ev[2], ev[3]
                uses.setdefault((key, t), []).append(o)
                last_use[o] = max(last_use.get(o, 0), i, test_end.get(ev[4], 0))    # in use until the consuming test's body ends
                if creator.get(o) != t:
                    fails.append(C.Failure("C15/run/instance-handed-to-foreign-thread",
                                           f"{ev[4]} ({ev[5]}) on thread {t} got instance {o} of {key} created on thread {creator.get(o)}"))
                elif inst_key.get(o) != key:
                    fails.append(C.Failure("C15/run/instance-of-another-scope-instance",
                                           f"{ev[4]} consumed {key} but got instance {o} created for {inst_key.get(o)}"))
            elif kind == "td":
                o = ev[3]
                td_at.setdefault(o, []).append(i)
                if not ev[4]:
                    td_raise_at[ev[2]] = i
            elif kind == "suite_end":
                scope_end[ev[2]] = i
            elif kind == "session_end":
                scope_end["session"] = i
        for (key, t), os_ in sorted(created.items()):
            if len(os_) > 1:
                fails.append(C.Failure("C15/run/created-more-than-once-per-thread",
                                       f"thread {t} created {len(os_)} instances {os_} of {key}"))
        for (key, t), os_ in sorted(uses.items()):
            if len(set(map(str, os_))) > 1:
                fails.append(C.Failure("C15/run/not-reused-on-same-thread",
                                       f"consumers of {key} on thread {t} saw different instances {os_}"))
        for o, key in sorted(inst_key.items()):
            fx, scope = key.split("@")
            if not info[fx]["gen"]:
                continue            # a plain fixture has no teardown code: nothing to observe
            n = len(td_at.get(o, []))
            if n == 0:
                if key in td_raise_at:
                    fails.append(C.Failure(SIG_D31, f"the teardown code of an instance of {key} raised and instance {o} "
                                                    f"(thread {creator[o]}) was never torn down — the behaviour before /repo 8e1157b"))
                else:
                    fails.append(C.Failure("C15/run/instance-never-torn-down", f"instance {o} of {key} was never torn down"))
                continue
            if n > 1:
                fails.append(C.Failure("C15/run/instance-torn-down-more-than-once", f"instance {o} of {key}: {n} teardowns"))
            if o in last_use and td_at[o][0] < last_use[o]:
                fails.append(C.Failure("C15/run/torn-down-before-last-use",
                                       f"instance {o} of {key} torn down at {td_at[o][0]}, last used at {last_use[o]}"))
            end = scope_end.get(scope)
            if end is not None and td_at[o][0] > end:
                fails.append(C.Failure("C15/run/torn-down-after-scope-end",
                                       f"instance {o} of {key} torn down at {td_at[o][0]}, after its scope ended at {end}"))
            # no end event (the run raised before TestSessionEnd): the upper bound cannot be observed; whether the run
            # stays well-formed is C01/C07's question, not C15's
        seen, out = set(), []
        for f in fails:
            if f.signature not in seen:
                seen.add(f.signature)
                out.append(f)
        return out

    # ---- the model: one factory instance per (fixture, scope instance) ----------------------------------
    def _project(self, obs):
        per = {}
        for ev in obs["trace"]:
            kind = ev[0]
            if kind in ("miss", "raise"):
                per.setdefault(ev[2], []).append([kind, ev[1]])
            elif kind == "create":
                per.setdefault(ev[2], []).append(["create", ev[1], ev[3]])
            elif kind == "use" and ev[6]:
                per.setdefault(ev[2], []).append(["ret", ev[1], ev[3]])
            elif kind == "td":
                per.setdefault(ev[2], []).append(["td", ev[1], ev[3], ev[4]])
        out = []
        for key in sorted(per):
            # The return of the creating `get` is observed by the consumer (test body / via fixture).  When ANOTHER
            # fixture of the same test fails afterwards the body never runs and that return is not observed: it is
            # inferred right after the creation (the instance exists, so `setup_object` returned normally).
            evs = per[key]
            fixed = []
            for j, ev in enumerate(evs):
                fixed.append(ev)
                if ev[0] == "create":
                    nxt = next((e for e in evs[j + 1:] if e[1] == ev[1]), None)
                    if not (nxt is not None and nxt[0] == "ret" and nxt[2] == ev[2]):
                        fixed.append(["ret", ev[1], ev[2]])
            per[key] = fixed
            tmap, omap, tr = {}, {}, []
            for ev in per[key]:
                t = tmap.setdefault(ev[1], len(tmap))
                if ev[0] == "create":
                    omap[ev[2]] = len(omap)
                if ev[0] in ("create", "ret", "td"):
                    tr.append([ev[0], t, omap.get(ev[2], ev[2])] + ev[3:])
                else:
                    tr.append([ev[0], t])
            # `_objects` itself is not observable in a real run: resolve the (internal) append order in favour of
            # the observed teardown order — torn-down instances first, in that order, then the others as created
            snap = []
            for ev in tr:
                if ev[0] == "td" and ev[2] not in snap:
                    snap.append(ev[2])
            snap += [o for o in range(len(omap)) if o not in snap]
            if not all(isinstance(o, int) for o in snap):
                snap = None
            out.append((key, tr, len(tmap), len(omap), snap))
        return out

    def request(self, case, obs):
        return {"multi": [{"threads": nt, "nobj": no, "objects": snap, "implicit_td": True, "trace": tr}
                          for _, tr, nt, no, snap in self._project(obs)],
                "validate": {"decls": self._decls(case), "suites": self._suite_shapes(case)}}

    def compare(self, case, obs, ans):
        if "error" in ans:
            return "model error: " + ans["error"]
        # validation: the model of check_dependencies / check_fixtures_in_suites predicts what PreparedProject.create said
        mv = (ans.get("validate") or {}).get("verdict")
        if mv != obs.get("verdict"):
            return f"validation: the model says {mv!r}, PreparedProject.create said {obs.get('verdict')!r} ({obs.get('message')})"
        proj = self._project(obs)
        if len(ans["multi"]) != len(proj):
            return "model answered %d factories, %d observed" % (len(ans["multi"]), len(proj))
        for (key, tr, nt, no, _), a in zip(proj, ans["multi"]):
            d = _compare_factory(tr, None, nt, a, None, label=key + ": ")
            if d is not None:
                return d
        return None

    def _shape(self, obs):
        per_key = {}
        n_use = 0
        for ev in obs["trace"]:
            if ev[0] == "use":
                n_use += 1
                per_key.setdefault(ev[2], set()).add(ev[1])
        return n_use, max([len(v) for v in per_key.values()] or [0])

    def nontrivial(self, case, obs):
        if obs["result"] == "rejected":
            # a forbidden dependency shape, refused by the real validation as the model predicts
            return bool(case.get("extra")) or any(s.get("setup_uses") or s.get("injects") for s in case["suites"])
        n_use, width = self._shape(obs)
        return n_use >= 2 and width >= 2 and "barrier-broken" not in obs["notes"]

    def features(self, case, obs):
        n_use, width = self._shape(obs)
        info = fxinfo(case)
        f = ["nb_threads=%d" % case["nb_threads"], "mode=" + case["mode"], "suites=%d" % len(case["suites"]),
             "workers-sharing-a-fixture=%d" % width, "result=" + str(obs["result"]),
             "validation=" + str(obs.get("verdict")).split(":")[0]]
        for fx in case["fixtures"]:
            f.append("fixture:%s-%s" % (FIXTURES[fx][0], "generator" if FIXTURES[fx][1] else "plain"))
        for d in case.get("extra") or []:
            for p in d["params"]:
                dep = info.get(p, {})
                f.append("dep:%s%s-on-%s%s" % ("pt-" if d["per_thread"] else "", d["scope"], "pt-" if dep.get("pt") else "", dep.get("scope")))
        if any(s.get("setup_uses") for s in case["suites"]):
            f.append("setup_suite-takes-a-fixture")
        force_ = bool(case.get("force_disabled"))
        par_dis = False
        for s_ in case["suites"]:
            own = bool(s_.get("disabled"))
            inh = bool(s_["nested"]) and par_dis
            if not s_["nested"]:
                par_dis = own
            dis = own or inh
            if dis:
                f.append("suite-disabled-" + ("own-flag" if own else "inherited") + ("-forced" if force_ else "-not-run"))
            for n in list(s_.get("injects") or []) + ([s_["setup_uses"]] if s_.get("setup_uses") else []):
                m = info.get(n, {})
                kind = "per-thread" if m.get("pt") else ("test-scoped" if m.get("scope") == "test" else "shared")
                f.append("suite-uses-itself:%s-fixture%s" % (kind, (":suite-disabled" + ("-forced" if force_ else "")) if dis else ""))
        if any(ev[0] == "use" and ev[5] in ("injected", "from-setup_suite") for ev in obs["trace"]):
            f.append("per-thread-instance-read-from-the-suite-object")
        if any(ev[0] == "use" and str(ev[5]).startswith("param:") for ev in obs["trace"]):
            f.append("per-thread-instance-received-as-fixture-parameter")
        if any(ev[0] == "use" and ev[5] == "nested" for ev in obs["trace"]):
            f.append("per-thread-instance-reached-through-another-fixture")
        if any(s["nested"] for s in case["suites"]):
            f.append("nested-suite")
        if any(via for s in case["suites"] for p in s["phases"] for t in p for _, via in t["uses"]):
            f.append("via-test-scoped-fixture")
        reuse = {}
        for ev in obs["trace"]:
            if ev[0] == "use":
                reuse[(ev[2], ev[1])] = reuse.get((ev[2], ev[1]), set()) | {ev[4]}
        if any(len(v) >= 2 for v in reuse.values()):
            f.append("reuse-by-later-test-on-same-thread")
        all_tests = [t for sd in case["suites"] for ph in sd["phases"] for t in ph]
        if case.get("force_disabled"):
            f.append("force_disabled")
        if any(t.get("disabled") for t in all_tests):
            f.append("disabled-tests" + ("-forced" if case.get("force_disabled") else "-not-run"))
        held = {ev[2] for ev in obs["trace"] if ev[0] == "held"}
        if held:
            f.append("last-test-outlives-its-siblings")
            user_keys = {}
            for ev in obs["trace"]:
                if ev[0] == "use":
                    user_keys.setdefault(ev[4], set()).add(ev[2])
            dis_paths = set()
            for si, sd in enumerate(case["suites"]):
                for pi, ph in enumerate(sd["phases"]):
                    for ti, t in enumerate(ph):
                        if t.get("disabled"):
                            dis_paths.add("t%d_%d_%d" % (si, pi, ti))
            for path in held:
                if path.split(".")[-1] in dis_paths:
                    f.append("forced-disabled-test-outlives-the-enabled-ones")
                    if any(not k.endswith("@session") and info[k.split("@")[0]]["gen"] for k in user_keys.get(path, ())):
                        f.append("forced-disabled-test-outlives-the-enabled-ones-using-a-suite-scoped-generator-instance")
        if case.get("raise_setup"):
            f.append("raising-setup")
        if case.get("td_raise"):
            f.append("raising-teardown")
            if sum(1 for ev in obs["trace"] if ev[0] == "td" and not ev[4]) >= 1 and any(
                    ev[0] == "td" and ev[4] for ev in obs["trace"]):
                f.append("teardown-continued-after-a-raising-one")
        f += ["note:" + n for n in obs["notes"]]
        return sorted(set(f))

    def shrink(self, case):
        import copy
        for key in ("td_raise", "raise_setup"):
            if case.get(key):
                c = dict(case)
                c[key] = None
                yield c
        for si, sd in enumerate(case["suites"]):
            for pi, ph in enumerate(sd["phases"]):
                for ti, t in enumerate(ph):
                    for flag in ("disabled", "hold"):
                        if t.get(flag):
                            c = copy.deepcopy(case)
                            c["suites"][si]["phases"][pi][ti].pop(flag)
                            yield c
        if case.get("force_disabled") and not any(t.get("disabled") for sd in case["suites"] for ph in sd["phases"] for t in ph):
            c = dict(case)
            c.pop("force_disabled")
            yield c
        # drop a declared fixture nobody refers to any more / a use of an extra fixture / a suite's setup_suite argument
        extra = case.get("extra") or []
        referenced = {p for d in extra for p in d["params"]} | {fx for s in case["suites"] for ph in s["phases"] for t in ph for fx, _ in t["uses"]} \
            | {s.get("setup_uses") for s in case["suites"]} | {n for s in case["suites"] for n in s.get("injects") or []}
        for i, d in enumerate(extra):
            if d["name"] not in referenced:
                c = copy.deepcopy(case)
                del c["extra"][i]
                yield c
        for si, s in enumerate(case["suites"]):
            if s.get("setup_uses"):
                c = copy.deepcopy(case)
                c["suites"][si].pop("setup_uses")
                yield c
            for flag in ("injects", "disabled", "setup_stores"):
                if s.get(flag):
                    c = copy.deepcopy(case)
                    c["suites"][si].pop(flag)
                    yield c
            if len(s.get("injects") or []) > 1:
                for k in range(len(s["injects"])):
                    c = copy.deepcopy(case)
                    del c["suites"][si]["injects"][k]
                    yield c
            for pi, ph in enumerate(s["phases"]):
                for ti, t in enumerate(ph):
                    if len(t["uses"]) > 1:
                        for ui in range(len(t["uses"])):
                            c = copy.deepcopy(case)
                            del c["suites"][si]["phases"][pi][ti]["uses"][ui]
                            yield c
        ss = case["suites"]
        if len(ss) > 1:
            for i in range(len(ss)):
                c = dict(case)
                c["suites"] = [dict(s) for s in ss[:i] + ss[i + 1:]]
                c["suites"][0]["nested"] = False
                yield c
        for i, s in enumerate(ss):
            if len(s["phases"]) > 1:
                for j in range(len(s["phases"])):
                    c = dict(case)
                    c["suites"] = [dict(x) for x in ss]
                    c["suites"][i]["phases"] = s["phases"][:j] + s["phases"][j + 1:]
                    yield c
            for j, p in enumerate(s["phases"]):
                if len(p) > 1:
                    c = dict(case)
                    c["suites"] = [dict(x) for x in ss]
                    c["suites"][i]["phases"] = s["phases"][:j] + [p[:-1]] + s["phases"][j + 1:]
                    yield c
        if case["nb_threads"] > 2:
            c = dict(case)
            c["nb_threads"] = case["nb_threads"] - 1
            yield c


# =================================================================================================
# Stream 3: run-level correspondence — the REAL task graph vs. Run.buildTasks, real traces vs. the run acceptor
# =================================================================================================

def oracle_sched(project, obs, v):
    """C15's clauses on a run-level observation (harness/run/observe.py), for the per-thread fixtures only: an instance is
    consumed on the thread that created it, one instance per (fixture, scope instance, thread), reused, and torn down
    exactly once, not before the last consumer — a forced disabled test included — has finished."""
    from run import gen as RG
    from run import oracles as X
    F = C.Failure
    out = []
    if "invalid" in obs["outcome"]:
        return out
    setups, teardowns = X._fixture_instances(v)
    by_token = {tok: e for e, tok in setups}
    last = len(v.trace)

    def end_of(e):
        return e.end if e.end is not None else last
    consumers = [e for e in v.execs if e.extra]
    for tp, vals in obs.get("injected", []):
        for e in v.body_exec(tp):
            import copy as _copy
            e2 = _copy.copy(e)
            e2.extra = dict(vals)
            consumers.append(e2)
            break
    seen = {}
    for c in consumers:
        sp, tp = X._consumer_context(v, c)
        for n, tok in c.extra.items():
            fx = v.byname.get(n)
            s = by_token.get(tok)
            if fx is None or not fx["per_thread"] or s is None or s.unit[1] != fx["name"]:
                continue        # not a per-thread instance (C03's business)
            scope = fx["scope"]
            if s.root != c.root:
                out.append(F("C15/sched/instance-handed-to-foreign-thread",
                             "%r (worker %d) received %s created on worker %d" % (c, c.root, tok, s.root)))
            hold_end = end_of(c)
            if c.unit[0] == "fx":       # a test-scoped fixture that took it as a parameter holds it until its own teardown
                own = v.fx_tokens.get(c.enter)
                for t in teardowns.get(own, []):
                    hold_end = max(hold_end, end_of(t))
            for t in teardowns.get(tok, []):
                if t.enter < hold_end:
                    dis = " (a disabled test run under --force-disabled)" if tp is not None and v.tests.get(tp, {}).get("disabled") else ""
                    out.append(F("C15/sched/torn-down-before-last-use/" + scope,
                                 "%s torn down at record %d while %r%s still used it (until %d)" % (tok, t.enter, c, dis, hold_end)))
            seen.setdefault((n, sp if scope == "suite" else None, c.root), set()).add(tok)     # n: the REGISTERED name (a function registered under two names is two fixtures)
    for key, toks in seen.items():
        if len(toks) > 1:
            out.append(F("C15/sched/not-reused-on-same-thread", "consumers of %s in %r on worker %d saw %s" % (key[0], key[1], key[2], sorted(toks))))
    counts = {}
    for s, tok in setups:
        fx = v.byprim[s.unit[1]]
        if not fx["per_thread"] or s.end_kind != "exit":
            continue
        g = v.tasks[s.task] if s.task is not None else None
        key = (fx["name"], tuple(g["path"][:-1]) if g and fx["scope"] == "suite" else None, s.root)
        counts[key] = counts.get(key, 0) + 1
    for key, n in counts.items():
        if n > len(RG.fx_names(v.byprim[key[0]])):
            out.append(F("C15/sched/created-more-than-once-per-thread", "%s evaluated %d times for %r on worker %d" % (key[0], n, key[1], key[2])))
    if not v.hang:
        for s, tok in setups:
            fx = v.byprim[s.unit[1]]
            if not (fx["per_thread"] and fx["gen"]):
                continue
            n = len(teardowns.get(tok, []))
            if v.clean(s) and n == 0:
                out.append(F("C15/sched/instance-never-torn-down", "%s (%r) was created without failure and never torn down" % (tok, s)))
            elif n > 1:
                out.append(F("C15/sched/instance-torn-down-more-than-once", "%s torn down %d times" % (tok, n)))
    dedup, res = set(), []
    for f in out:
        if f.signature not in dedup:
            dedup.add(f.signature)
            res.append(f)
    return res


def _sched_fx(name, scope, setup=()):
    return {"gen": True, "name": name, "names": None, "params": [], "per_thread": True, "scope": scope, "setup": list(setup), "teardown": []}


def _sched_test(name, rank, fixtures, script):
    return {"deps": [], "disabled": False, "fixtures": list(fixtures), "name": name, "rank": rank, "script": list(script)}


def _sched_suite(name, rank, tests, **kw):
    s = {"disabled": False, "injected": [], "name": name, "rank": rank, "setup_suite": None, "setup_test": None, "suites": [],
         "teardown_suite": None, "teardown_test": None, "tests": tests}
    s.update(kw)
    return s


# keyboard interrupt while a test holds its instance of a SESSION-scoped per-thread fixture and another worker is idle: the
# session teardown (teardown_factory) must wait for that test (minimised failing inputs of the seeded change C15-12; they hold
# on the unchanged tree)
SCHED_CORPUS = [
    {"fault": None, "gseed": 14638659, "interrupt": ["quiescent", 2], "strategy": "random",
     "project": {"fixtures": [_sched_fx("f0", "session")], "force_disabled": False, "nb_threads": 2, "stop_on_failure": False,
                 "suites": [_sched_suite("s1", 2, [_sched_test("t1", 2, ["f0"], [{"a": "gate"}])],
                                         setup_suite={"params": [], "script": [{"a": "thread", "name": "worker", "script": [{"a": "gate"}]}]})]}},
    {"fault": None, "gseed": 11567555, "interrupt": ["quiescent", 4], "strategy": "random",
     "project": {"fixtures": [_sched_fx("f1", "session", [{"a": "gate"}])], "force_disabled": False, "nb_threads": 3, "stop_on_failure": False,
                 "suites": [_sched_suite("s0", 1, [_sched_test("check_1.5", 1, [], [{"a": "gate"}]),
                                                   _sched_test("t1", 2, ["f1"], [{"a": "gate"}]),
                                                   _sched_test("t2", 3, ["f1"], [])])]}},
]


def _sched_stream():
    from props._runcommon import PropRunStream
    from run import gen as RG
    from run import oracles as X

    class Sched(PropRunStream):
        """generated projects WITH per-thread fixtures (profile `perthread` of harness/run/gen.py), tests marked disabled and
        --force-disabled, ≥ 2 workers, gate strategies that let any test outlive its siblings; the graph the real
        build_tasks returns must equal Run.buildTasks (and be well-formed), the real trace is replayed on the run acceptor"""
        name = "C15.sched"
        prop = "C15"
        profile = "perthread"
        driver = "drivers/Run.lean"
        oracles = ()
        threads = (2, 2, 3, 4, 8)
        strategies = ("fifo", "lifo", "random", "random")
        p_interrupt = 0.4          # Ctrl-C (while the main loop waits for a completion / at a quiescent point): interrupted runs are ordinary cases
        quick_cases = 170
        quick_seconds = 32
        thorough_cases = 2500
        thorough_seconds = 300
        corpus = SCHED_CORPUS

        def gen(self, rng, i):
            case = super().gen(rng, i)
            p = case["project"]
            if rng.random() < 0.6:
                # the option and tests marked disabled (which it makes run like the others)
                p["force_disabled"] = rng.random() < 0.85
                for tp, t, sp, s_, dis in RG.iter_tests(p):
                    if not t["disabled"] and rng.random() < 0.3:
                        t["disabled"] = True if rng.random() < 0.7 else "disabled because of %s" % t["name"]
                RG.check_valid(p)
            return case

        def oracle(self, case, obs):
            return oracle_sched(case["project"], obs, X.View(case["project"], obs))

        def nontrivial(self, case, obs):
            p = case["project"]
            uses_pt = any(RG.fixtures_by_name(p).get(n, {}).get("per_thread") for _, t, *_ in RG.iter_tests(p)
                          for n in RG.closure(p, t["fixtures"], RG.fixtures_by_name(p)))
            return super().nontrivial(case, obs) and uses_pt

        def features(self, case, obs):
            f = super().features(case, obs)
            p = case["project"]
            tr = obs.get("trace") or []
            k = next((j for j, r in enumerate(tr) if r[0] == "interrupt"), None)
            if k is not None:
                byname0 = RG.fixtures_by_name(p)
                open_bodies = {}
                for r in tr[:k]:
                    if r[0] == "user" and r[2][0] == "body":
                        if r[3] == "enter":
                            open_bodies[(r[1], tuple(r[2][1]))] = r[4] or {}
                        elif r[3] in ("exit", "raise"):
                            open_bodies.pop((r[1], tuple(r[2][1])), None)
                held = {byname0[n]["scope"] for vals in open_bodies.values() for n in vals if n in byname0 and byname0[n]["per_thread"]}
                for sc in sorted(held):
                    f.append("interrupt-while-a-test-holds-a-%s-scoped-per-thread-instance" % sc)
                if len(open_bodies) >= 1 and p["nb_threads"] > len(open_bodies) and "session" in held:
                    f.append("interrupt-with-an-idle-worker-and-a-session-scoped-instance-in-use")
            if p["force_disabled"] and any(dis for *_, dis in RG.iter_tests(p)):
                f.append("disabled-tests-forced")
                byname = RG.fixtures_by_name(p)
                for tp, t, sp, s_, dis in RG.iter_tests(p):
                    if dis and any(byname[n]["per_thread"] and byname[n]["scope"] == "suite"
                                   for n in RG.closure(p, t["fixtures"], byname) if n in byname):
                        f.append("forced-disabled-test-uses-a-suite-scoped-per-thread-fixture")
                        break
            return f
    return Sched()


def streams(ctx):
    return [Factory(), Run(), _sched_stream()]

"""C19 — starting a run never destroys previous reports within the archive limit (model M11)."""
import os
import shutil
import tempfile

import common as C
from props import _runseq

PROPERTY = "C19"
LEAN_MODULES = ["LccModel.Props.C19", "LccModel.Props.C19Runs", "LccModel.Props.C19Content", "LccModel.Props.C19Tree"]
PROPS_FILES = ["LccModel/Props/C19.lean", "LccModel/Props/C19Runs.lean", "LccModel/Props/C19Content.lean", "LccModel/Props/C19Tree.lean"]
NAMESPACES = {"LccModel/Props/C19.lean": "LccModel.C19", "LccModel/Props/C19Runs.lean": "LccModel.C19Runs",
              "LccModel/Props/C19Content.lean": "LccModel.C19Runs", "LccModel/Props/C19Tree.lean": "LccModel.C19Runs"}
DRIVER = "drivers/C19.lean"
TRUSTED_BASE = [
    "Lean 4.33.0 kernel; axioms of the property theorems ⊆ {propext, Classical.choice, Quot.sound}",
    "hand-written model LccModel/Model/ReportDir.lean of reporting/reportdir.py (create_report_dir_with_rotation and helpers)",
    "correspondence harness harness/props/c19.py: the real function is run on a scratch directory for every generated history",
    "POSIX rename/mkdir/rmtree semantics and glob listing are represented by the slot table (validated by the stream, not proved)",
] + _runseq.RUNS_TRUSTED
ASSUMPTIONS = [
    "directories under reports/ are only created by runs and removed by rmtree (no report-007, no plain files named report-<n>)",
    "the archive limit passed by project.py is what create_report_dir_with_rotation receives (default 20, or the project's value): "
    "checked for the default implementation by the table defaultImplTable, for overrides by the runs stream",
    "runs stream: a run's fate (fails before the report dir exists / aborts right after / completes) and whether it leaves files are read "
    "off its options (--save-report bogus / $LCC_THREADS=abc, --threads 2 on a non-threaded project / json, html backends); runs of one "
    "history are sequential (no two lcc run at the same time on one project directory)",
]
RULE = ("history of run/delete/delete-current operations from an empty project directory; non-trivial = at least 3 runs and "
        "(a manual deletion of an existing archive or a run that removed an archive); distinct = hash of the op list; " + _runseq.RUNS_RULE)
EXPLANATION = ("Theorems over all histories (LccModel.C19.*) proved in Lean; the model is tied to reportdir.py by replaying every "
               "generated history on a real scratch directory with marker files and comparing the listing after every operation. "
               "The same sentences are proved about RUNS (LccModel.C19Runs.*: report dir source, project implementation and limit, runs that "
               "leave their directory empty, failing runs, explicit directories) over a run-level model that is simulated onto the first one; "
               "it is tied to cli/commands/run.py and project.py by driving sequences of real runs (cli.main, run_suites_from_project with "
               "re-used Project / cli_args objects, subprocesses) on a real project directory, directories identified by inode, and by decision "
               "tables of the glue (Generated/C19TablesCheck.lean). Whatever a report directory holds (files of any name incl. *.tmp, nested "
               "directories, links, empty directories) is an input of both streams and is compared byte for byte at any depth across every "
               "operation; the corresponding theorems are over trees (LccModel.C19Runs, Props/C19Tree.lean).")


def _listing(top):
    cur = None
    mp = os.path.join(top, "report", "marker")
    if os.path.isdir(os.path.join(top, "report")):
        cur = int(open(mp).read()) if os.path.exists(mp) else -1
    arch = []
    rdir = os.path.join(top, "reports")
    if os.path.isdir(rdir):
        for name in os.listdir(rdir):
            if name.startswith("report-") and name[7:].isdigit():
                mk = os.path.join(rdir, name, "marker")
                arch.append([int(name[7:]), int(open(mk).read()) if os.path.exists(mk) else -1])
            else:
                arch.append([name, -2])
    arch.sort(key=lambda x: (str(type(x[0])), x[0]))
    # the content of every directory byte for byte (any depth), by the marker of the run that made it
    prints = {}
    if cur is not None and cur >= 0:
        prints[str(cur)] = _runseq.fingerprint(os.path.join(top, "report"))
    for slot, m in arch:
        if isinstance(slot, int) and m >= 0:
            prints[str(m)] = _runseq.fingerprint(os.path.join(rdir, "report-%d" % slot))
    return {"current": cur, "arch": arch, "prints": prints}


# names a project directory may legitimately have
DIR_NAMES = ["proj[1]", "proj[ab]", "[tests]", "c++ tests", "proj (copy)", "what?", "star*", "a{b,c}", "dollar$", "pipe|x", "caret^",
             "back\\slash", "sp ace", "dot.dir", "report-1", "reports", "é-ü", "tab\tname", "plus+plus", "!bang", "~tilde", "#hash"]


# what a report directory may hold when the next run starts (relative path -> kind): the backends' files, attachments under any
# name (also names ending in .tmp), nested directories, dotfiles, leftovers of a killed atomic save, symbolic links, empty directories
CONTENT = dict(_runseq.LEFTOVERS)
CONTENT.update({
    "report.js": ("file", "var reporting_data = {}"), "report.html": ("file", "<html/>"),
    "attachments/0001_note.txt": ("file", "a note"), "attachments/0002_device-dump.tmp": ("file", "dump"),
    "attachments/0003_.hidden": ("file", "h"), "attachments/0004_core.tmp": ("file", "\x7fELF"), "attachments/sub/x.tmp": ("file", "x"),
})


class Hist(C.Stream):
    name = "C19.hist"
    quick_cases = 400
    thorough_cases = 8000
    quick_seconds = 40
    thorough_seconds = 400
    # minimal past disagreements / interesting shapes, replayed first
    corpus = [
        # the previous report holds files named *.tmp (an attachment, leftovers at any depth, a link, an empty directory): seeded/C19-12
        {"ops": [{"op": "run", "limit": 3, "content": ["report.js", "attachments/0002_device-dump.tmp"]}, {"op": "run", "limit": 3}]},
        {"ops": [{"op": "run", "limit": 2, "content": ["report.js.123.tmp", "logs/a/b/trace.tmp", "latest.tmp", "empty.tmp", ".env.tmp", "dangling"]}] * 4,
         "dirname": "proj[1]"},
        # project directories whose name contains glob / regex metacharacters (D37: `glob` took `[1]` for a class)
        {"ops": [{"op": "run", "limit": 3}] * 5, "dirname": "proj[1]"},
        {"ops": [{"op": "run", "limit": 2}] * 4, "dirname": "c++ tests (copy)"},
        {"ops": [{"op": "run", "limit": None}] * 4, "dirname": "what?*"},
        {"ops": [{"op": "run", "limit": 2}] * 5},
        {"ops": [{"op": "run", "limit": 3}] * 4 + [{"op": "delete", "n": 1}, {"op": "run", "limit": 3}, {"op": "run", "limit": 3}]},
        {"ops": [{"op": "run", "limit": None}] * 3 + [{"op": "delcur"}, {"op": "run", "limit": 1}, {"op": "run", "limit": 1}]},
        {"ops": [{"op": "run", "limit": 0}] * 3},
        {"ops": [{"op": "run", "limit": 20}] * 23},
        # "no limit" must really mean no limit, also past the default limit of 20 (seeded/C19-1)
        {"ops": [{"op": "run", "limit": None}] * 25},
        {"ops": [{"op": "run", "limit": None}] * 12 + [{"op": "delete", "n": 3}] + [{"op": "run", "limit": None}] * 14},
    ]

    def gen(self, rng, i):
        limit = rng.choice([None, 1, 2, 3, 5, 20, 2, 3, 0 if rng.random() < 0.3 else 4])
        n = rng.randint(3, 40 if rng.random() < 0.3 else 14)
        if i % 12 == 5:
            # long histories around the default limit (20): no limit, the default, and two-digit slot numbers
            limit = rng.choice([None, None, 20, 12])
            n = rng.randint(24, 48)
        ops = []
        runs = 0
        for _ in range(n):
            r = rng.random()
            if r < 0.62 or runs < 2:
                lim = limit if rng.random() < 0.9 else rng.choice([None, 1, 2, 3, 5])
                ops.append({"op": "run", "limit": lim})
                runs += 1
            elif r < 0.93:
                ops.append({"op": "delete", "n": rng.randint(1, max(2, min(runs, 8)))})
            else:
                ops.append({"op": "delcur"})
        for op in ops:
            if op["op"] == "run" and rng.random() < 0.5:
                op["content"] = sorted(rng.sample(sorted(CONTENT), rng.choice([1, 2, 3, 6])))
        return {"ops": ops, "dirname": rng.choice(DIR_NAMES) if rng.random() < 0.45 else "proj"}

    def impl(self, case):
        from lemoncheesecake.reporting.reportdir import create_report_dir_with_rotation

        scratch = tempfile.mkdtemp(prefix="lccverif-c19-")
        # the project directory's own NAME is an input: names with characters that mean something to glob / re / shells
        top = os.path.join(scratch, case.get("dirname") or "proj")
        os.mkdir(top)
        states = []
        marker = 0
        try:
            for op in case["ops"]:
                if op["op"] == "run":
                    try:
                        d = create_report_dir_with_rotation(top, op["limit"])
                    except Exception as e:  # classified, compared with the model's "stuck"
                        states.append({"error": type(e).__name__})
                        break
                    marker += 1
                    empty = os.listdir(d) == []
                    with open(os.path.join(d, "marker"), "w") as fh:
                        fh.write(str(marker))
                    # what the run (its backends, its tests' attachments, its hooks) leaves in its directory
                    _runseq.plant(d, op.get("content", []), CONTENT)
                    st = _listing(top)
                    st["new_dir_empty"] = empty
                    st["returned"] = os.path.relpath(d, top)
                    states.append(st)
                elif op["op"] == "delete":
                    p = os.path.join(top, "reports", "report-%d" % op["n"])
                    if os.path.isdir(p):
                        shutil.rmtree(p)
                    states.append(_listing(top))
                elif op["op"] == "delcur":
                    p = os.path.join(top, "report")
                    if os.path.isdir(p):
                        shutil.rmtree(p)
                    states.append(_listing(top))
        finally:
            shutil.rmtree(scratch, ignore_errors=True)
        return {"states": states}

    def oracle(self, case, obs):
        fails = []
        prev = {"current": None, "arch": [], "prints": {}}
        for k, (op, st) in enumerate(zip(case["ops"], obs["states"])):
            if "error" in st:
                fails.append(C.Failure("C19/create-raised", f"op {k}: create_report_dir_with_rotation raised {st['error']}"))
                break
            old = {m: s for s, m in prev["arch"]}
            new = {m: s for s, m in st["arch"]}
            # every directory that exists before and after an operation holds byte for byte what it held
            for m, fp in prev.get("prints", {}).items():
                now = st.get("prints", {}).get(m)
                if now is not None and now != fp:
                    nowd = dict(map(tuple, now))
                    lost = [a for a, _ in fp if a not in nowd]
                    fails.append(C.Failure("C19/archive-differs-from-report",
                                           f"op {k} ({op['op']}): the directory of run {m} no longer holds what the run left in it: lost {lost}, "
                                           f"changed {[a for a, b in fp if a in nowd and nowd[a] != b]}, added {[a for a in nowd if a not in dict(map(tuple, fp))]}"))
            if op["op"] == "run":
                if not st.get("new_dir_empty", True):
                    fails.append(C.Failure("C19/new-dir-not-empty", f"op {k}: new report directory is not empty"))
                if st.get("returned") != "report" or st["current"] in old or st["current"] == prev["current"] or st["current"] is None:
                    fails.append(C.Failure("C19/new-dir-not-new", f"op {k}: the new report directory is not a new 'report' dir"))
                if prev["current"] is not None and new.get(prev["current"]) != 1:
                    fails.append(C.Failure("C19/previous-report-lost",
                                           f"op {k}: previous report {prev['current']} is not the most recent archive: {st['arch']}"))
                surv = [m for m in old if m in new]
                for a in surv:
                    for b in surv:
                        if old[a] < old[b] and not new[a] < new[b]:
                            fails.append(C.Failure("C19/order-changed", f"op {k}: archives {a},{b} changed relative order"))
                if prev["current"] is not None:
                    for a in surv:
                        if not new[prev["current"]] < new[a]:
                            fails.append(C.Failure("C19/order-changed", f"op {k}: archived report not most recent"))
                removed = [m for m in old if m not in new]
                for x in removed:
                    lim = op["limit"]
                    newer = sum(1 for m in old if old[m] < old[x]) + (1 if prev["current"] is not None else 0)
                    older_survive = [m for m in surv if old[m] > old[x]]
                    if lim is None or newer < lim or older_survive or prev["current"] is None:
                        fails.append(C.Failure(
                            "C19/removed-within-limit",
                            f"op {k}: archive {x} (slot {old[x]}, {newer} more recent) removed with limit {lim}; "
                            f"older survivors {older_survive}"))
            elif op["op"] == "delete":
                exp = [[s, m] for s, m in prev["arch"] if s != op["n"]]
                if st["arch"] != exp or st["current"] != prev["current"]:
                    fails.append(C.Failure("C19/harness-delete", f"op {k}: manual deletion changed something else"))
            prev = st
        return fails

    def request(self, case, obs):
        return {"ops": case["ops"]}

    def compare(self, case, obs, ans):
        if "error" in ans:
            return "model error: " + ans["error"]
        ms = ans["states"]
        os_ = obs["states"]
        for k in range(max(len(ms), len(os_))):
            m = ms[k] if k < len(ms) else None
            o = os_[k] if k < len(os_) else None
            if m == "stuck" and o is not None and "error" in o:
                continue
            if m is None or o is None or m == "stuck" or "error" in o:
                return f"op {k}: model {m} vs impl {o}"
            if m["current"] != o["current"] or m["arch"] != o["arch"]:
                return f"op {k} ({case['ops'][k]}): model {m} vs impl { {'current': o['current'], 'arch': o['arch']} }"
        return None

    def nontrivial(self, case, obs):
        runs = sum(1 for o in case["ops"] if o["op"] == "run")
        if runs < 3:
            return False
        prev = {"arch": []}
        hit = False
        for op, st in zip(case["ops"], obs["states"]):
            if "error" in st:
                break
            if op["op"] == "delete" and len(st["arch"]) < len(prev["arch"]):
                hit = True
            if op["op"] == "run" and {m for _, m in prev["arch"]} - {m for _, m in st["arch"]}:
                hit = True
            prev = st
        return hit

    def features(self, case, obs):
        f = ["len<=10" if len(case["ops"]) <= 10 else "len>10"]
        f.append("dirname=plain" if (case.get("dirname") or "proj") == "proj" else "dirname=special")
        for o in case["ops"]:
            for rel in o.get("content", []):
                kind = CONTENT[rel][0]
                f.append("content:" + ("*.tmp-" if rel.endswith(".tmp") else "") + kind + ("-nested" if "/" in rel else ""))
        lims = {str(o.get("limit")) for o in case["ops"] if o["op"] == "run"}
        f += ["limit=" + l for l in sorted(lims)]
        prev = {"arch": []}
        for op, st in zip(case["ops"], obs["states"]):
            if "error" in st:
                f.append("error")
                break
            if op["op"] == "run" and {m for _, m in prev["arch"]} - {m for _, m in st["arch"]}:
                f.append("run-removed-archive")
            if op["op"] == "delete" and len(st["arch"]) < len(prev["arch"]):
                f.append("manual-delete-hit")
            if op["op"] == "delcur":
                f.append("delcur")
            prev = st
        return sorted(set(f))

    def shrink(self, case):
        ops = case["ops"]
        for i in range(len(ops)):
            yield dict(case, ops=ops[:i] + ops[i + 1:])
        for i, op in enumerate(ops):
            c = op.get("content") or []
            for j in range(len(c)):
                yield dict(case, ops=ops[:i] + [dict(op, content=c[:j] + c[j + 1:])] + ops[i + 1:])
        if (case.get("dirname") or "proj") != "proj":
            yield dict(case, dirname="proj")


TABLE_OPENS = ("LccModel.RunSeq",)


def tables(ctx):
    return _runseq.tables(ctx)


def streams(ctx):
    return [Hist(), _runseq.Runs()]

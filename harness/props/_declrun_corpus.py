"""
Hand-written corpus of the `declrun` streams (they run first on every check).  CONTROLS: on a correct tree nothing fails;
each puts a declared project in the situation where a whole class of regressions of the declaration / loading glue shows
(minimised from the failing inputs found under the seeded changes C03-6, C04-5, C05-5).
"""
from run.selftest import _p, _s, _t, _f, _cfg, _LOG, _GATE

_ERR = {"a": "log", "level": "error"}
_CHECK = {"a": "check", "ok": True}


def _case(project, cfg, plan):
    return {"project": dict(project, nb_threads=cfg["n"]), "strategy": cfg["strategy"], "gseed": cfg["gseed"],
            "interrupt": cfg["interrupt"], "fault": cfg["fault"], "plan": plan, "oseed": 7}


def _ent(**kw):
    e = {"bases": [], "inject": {}, "hooks": {}, "groups": [], "deps": {}, "shape": None}
    e.update(kw)
    return e


def _plan(suites, bases=None, shape="plain"):
    return {"suites": suites, "bases": bases or {}, "shape": shape}


# ---- C03: where the inject_fixture() marker is written ---------------------------------------------------------------

# declared in a BASE class, read by a test, by setup_suite and by teardown_suite (generator fixture: torn down after them)
INJECT_IN_BASE = _case(
    _p([_s("s0", [_t("t0", [], [_LOG]), _t("t1", [], [_CHECK], rank=2)], injected=["f1"],
           setup_suite={"params": [], "script": [_LOG]}, teardown_suite=[_LOG])],
       [_f("f1", "suite", [_LOG], teardown=[_LOG])]),
    _cfg(1), _plan({"s0": _ent(bases=["B000"], inject={"f1": {"where": "base:B000"}}, hooks={"setup_suite": "body", "teardown_suite": "base:B000"})},
                   {"B000": {"bases": []}}, shape="under"))

# assigned in __init__ (of the class; of the grand-base), under the attribute name itself
INJECT_IN_INIT = _case(
    _p([_s("s0", [_t("t0", [], [_LOG])], injected=["f1"]),
        _s("s1", [_t("t1", ["f2"], [_LOG])], injected=["f1", "f2"], rank=2)],
       [_f("f1", "session", [_LOG], teardown=[_LOG]), _f("f2", "suite", [_LOG], params=["f1"])]),
    _cfg(2, "fifo"), _plan({"s0": _ent(inject={"f1": {"where": "init"}}),
                            "s1": _ent(bases=["B000"], inject={"f1": {"where": "init:A001"}, "f2": {"where": "body"}})},
                           {"B000": {"bases": ["A001"]}, "A001": {"bases": []}}))

# a MIXIN shared by two suites (one nested), explicit fixture name; the two suites run at the same time
INJECT_IN_SHARED_MIXIN = _case(
    _p([_s("s0", [_t("t0", [], [_GATE, _LOG])], injected=["f1"],
           suites=[_s("s2", [_t("t2", [], [_LOG])], injected=["f1"], setup_suite={"params": ["f1"], "script": [_LOG]})]),
        _s("s1", [_t("t1", [], [_GATE, _LOG])], injected=["f1"], rank=2)],
       [_f("f1", "suite", [_LOG], teardown=[_LOG])]),
    _cfg(3, "lifo"), _plan({"s0": _ent(bases=["X000"], inject={"f1": {"where": "base:X000"}}),
                            "s0.s2": _ent(bases=["B001", "X000"], inject={"f1": {"where": "base:X000"}}, hooks={"setup_suite": "base:B001"}),
                            "s1": _ent(bases=["X000"], inject={"f1": {"where": "base:X000"}})},
                           {"X000": {"bases": []}, "B001": {"bases": []}}, shape="inj"))

# private (name-mangled) attributes declared in a base class: `__f1` in `class B000` is `_B000__f1`
INJECT_MANGLED = _case(
    _p([_s("s0", [_t("t0", [], [_LOG]), _t("t1", [], [_LOG], rank=2, disabled=True)], injected=["f1", "f3"])],
       [_f("f1", "suite", [_LOG]), _f("f3", "pre_run", [])], force=True),
    _cfg(1), _plan({"s0": _ent(bases=["B000"], shape="mangled", inject={"f1": {"where": "base:B000"}, "f3": {"where": "base:B000"}})},
                   {"B000": {"bases": []}}))

# ---- C04: dependencies spread over stacked decorators --------------------------------------------------------------------

# t3 is declared BEFORE the tests it depends on (one in a later suite), through two stacked decorators; one thread
STACKED_FORWARD = _case(
    _p([_s("s0", [_t("t3", [], [_LOG], deps=[["s1", "t7"], ["s0", "t4"]]), _t("t4", [], [_LOG], rank=2)]),
        _s("s1", [_t("t7", [], [_LOG])], rank=2)]),
    _cfg(1), _plan({"s0": _ent(deps={"t3": {"cuts": [1], "preds": [], "pred_kind": "path"}}), "s1": _ent()}))

# the FAILING dependency is in the inner decorator, a predicate in the outer one; the dependents of the dependent too
STACKED_FAILING_INNER = _case(
    _p([_s("s0", [_t("prep", [], [_ERR]), _t("quick", [], [_LOG], rank=2),
                  _t("use", [], [_LOG], deps=[["s0", "prep"], ["s0", "quick"]], rank=3),
                  _t("more", [], [_LOG], deps=[["s0", "use"]], rank=4)])]),
    _cfg(2, "fifo"), _plan({"s0": _ent(deps={"use": {"cuts": [1], "preds": [1], "pred_kind": "name"}})}))

# three decorators on a parametrized declaration; the slow (held) dependency in the middle one
STACKED_ON_VARIANTS = _case(
    _p([_s("s0", [_t("a", [], [_LOG]), _t("slow", [], [_GATE, _LOG], rank=2), _t("c", [], [_LOG], rank=3),
                  _t("v_1", [], [_LOG], deps=[["s0", "a"], ["s0", "slow"], ["s0", "c"]], rank=4),
                  _t("v_2", [], [_LOG], deps=[["s0", "a"], ["s0", "slow"], ["s0", "c"]], rank=4)])]),
    _cfg(3, "lifo"), _plan({"s0": _ent(groups=[{"attr": "v", "naming": "default", "form": "dicts", "extra_param": False, "tests": ["v_1", "v_2"]}],
                                        deps={"v": {"cuts": [1, 2], "preds": [], "pred_kind": "path"}})}))

# ---- C05 / C03: variants of one parametrized declaration running at the same time ----------------------------------------

# two variants using a TEST-scoped fixture; the first is held in its body while the second one starts
VARIANTS_TEST_FIXTURE = _case(
    _p([_s("s0", [_t("t5_1", ["f2"], [_GATE, _LOG]), _t("t5_2", ["f2"], [_LOG])])], [_f("f2", "test", [_LOG])]),
    _cfg(2, "fifo"), _plan({"s0": _ent(groups=[{"attr": "t5", "naming": "default", "form": "csv-str-spaced", "extra_param": False,
                                                 "tests": ["t5_1", "t5_2"]}])}))

# three variants, generator fixtures of scope test (depending on a suite one), every body held, four threads, format naming
VARIANTS_GENERATOR_FIXTURES = _case(
    _p([_s("s0", [_t("va", ["f2", "f0"], [_LOG, _GATE, _CHECK]), _t("vb", ["f2", "f0"], [_GATE, _LOG]), _t("vc", ["f2", "f0"], [_GATE, _ERR]),
                  _t("other", ["f2"], [_GATE, _LOG], rank=2)])],
       [_f("f0", "suite", [_LOG], teardown=[_LOG]), _f("f2", "test", [_LOG], teardown=[_LOG], params=["f0"])]),
    _cfg(4, "lifo"), _plan({"s0": _ent(groups=[{"attr": "va", "naming": "format", "form": "dicts", "extra_param": True,
                                                 "tests": ["va", "vb", "vc"]}])}))

# two parametrized declarations in two suites sharing NOTHING but the fixture name; custom naming; held in the fixture setup
VARIANTS_HELD_IN_SETUP = _case(
    _p([_s("s0", [_t("x1", ["f2"], [_LOG]), _t("x2", ["f2"], [_LOG])]),
        _s("s1", [_t("y1", ["f2"], [_LOG]), _t("y2", ["f2"], [_LOG])], rank=2)],
       [_f("f2", "test", [_GATE, _LOG], teardown=[_LOG])]),
    _cfg(3, "random"), _plan({"s0": _ent(groups=[{"attr": "x1", "naming": "first", "form": "csv-tuple", "extra_param": False, "tests": ["x1", "x2"]}]),
                              "s1": _ent(groups=[{"attr": "y1", "naming": "first", "form": "csv-list", "extra_param": False, "tests": ["y1", "y2"]}])}))

# two variants WITHOUT anything that holds them, the workers held at the very start of the two test tasks: the strategy
# decides which variant fires its first event first.  fifo and lifo release in opposite orders, so whatever order the two
# workers reached the gate in, one of the two cases starts `t_2` before `t_1` (finding N5, repaired by 5c8e858: the variants
# used to share one rank and the report listed them in arrival order; a regression must be caught with this input first)
def _start_order(strategy):
    c = _case(_p([_s("s0", [_t("t_1", [], [_LOG]), _t("t_2", [], [_LOG])])]), _cfg(2, strategy),
              _plan({"s0": _ent(groups=[{"attr": "t", "naming": "default", "form": "dicts", "extra_param": False, "tests": ["t_1", "t_2"]}])}))
    c["start_gates"] = True
    return c


VARIANTS_START_ORDER = [_start_order("fifo"), _start_order("lifo")]

C03_CORPUS = [INJECT_IN_BASE, INJECT_IN_INIT, INJECT_IN_SHARED_MIXIN, INJECT_MANGLED, VARIANTS_GENERATOR_FIXTURES]
C04_CORPUS = [STACKED_FORWARD, STACKED_FAILING_INNER, STACKED_ON_VARIANTS]
C05_CORPUS = [VARIANTS_TEST_FIXTURE, VARIANTS_GENERATOR_FIXTURES, VARIANTS_HELD_IN_SETUP, VARIANTS_TEST_FIXTURE, VARIANTS_HELD_IN_SETUP] + VARIANTS_START_ORDER

"""C08 — abort, stop-on-failure and Ctrl-C stop new work, keep teardowns and the report."""
import common as C
from props._runcommon import RUN_TRUSTED, RUN_ASSUMPTIONS, PropRunStream
from run import selftest as W
from run import witnesses2 as W2

PROPERTY = "C08"
LEAN_MODULES = ["LccModel.Props.C08", "LccModel.Props.C08Exit"]
PROPS_FILES = ["LccModel/Props/C08.lean", "LccModel/Props/C08Exit.lean"]
NAMESPACES = {"LccModel/Props/C08.lean": "LccModel.C08", "LccModel/Props/C08Exit.lean": "LccModel.C08Exit"}
DRIVER = "drivers/Run.lean"
TRUSTED_BASE = RUN_TRUSTED + ["decision table of the real RunContext.is_task_to_be_skipped extracted by executing it on all 2^7 combinations of the facts it reads (harness/props/_skiptable.py), re-proved equal to RunAccept.skipReason by `decide +kernel` on every run", "scheduler-only stream with keyboard interrupts injected while the main thread waits AND inside pool.apply_async (drivers/Sched.lean)"]
ASSUMPTIONS = RUN_ASSUMPTIONS + ["the lost-task hang when the interrupt lands inside pool.apply_async is an open known finding (C08/interrupt-during-dispatch-loses-task); teardown ordering under a keyboard interrupt IS claimed (fix D11)"]
RULE = 'sched stream: random DAG × behaviours × threads × gates × interrupt point; run stream: generated project (harness/run/gen.py) × nb_threads 1..8 × gate strategy (off/fifo/lifo/random) forcing completion orders; non-trivial = ≥ 2 tests, ≥ 1 body entered, ≥ 8 events; distinct = hash of the case (project + schedule parameters) × (Abort* placements, --stop-on-failure, keyboard interrupt at a quiescent point or at the k-th get)'
EXPLANATION = 'The skip decision is stated outright in Lean and tied to the code by the extracted table; termination, exactly-once handling of every task and dependency order (no task — teardown, suite end — starts before its dependencies finished) under an interrupt at any moment are Lean theorems; every real run with aborts / stop-on-failure / interrupts is replayed on the composed model, whose acceptor justifies every run/skip decision by flags definitely / possibly set; the oracle checks body starts against the point where the abort became visible, reasons, teardowns and the outcome. Accepted real traces are provably executions of the scheduler model (C01Accept.accepted_after_interrupt_waiting_tasks_only_skipped, …_forced_task_skipped_after_its_dependencies).'


def witness(title_prefix):
    """corpus case built from the hand-written witness table of harness/run/selftest.py"""
    for title, sig, project, cfg in W.WITNESSES:
        if title.startswith(title_prefix):
            return {"project": dict(project, nb_threads=cfg["n"]), "strategy": cfg["strategy"], "gseed": cfg["gseed"],
                    "interrupt": cfg["interrupt"], "fault": cfg["fault"]}
    raise KeyError(title_prefix)



from props._sched import SchedStream, KF_LOST_TASK
from props._skiptable import skip_table, handle_exception_table


from props._multirun import MultiRunStream, fresh_context_table


def tables(ctx):
    return [skip_table(), handle_exception_table(), fresh_context_table()]


class Sched(SchedStream):
    name = "C08.sched"
    driver = "drivers/Sched.lean"
    quick_cases = 360
    quick_seconds = 30
    with_interrupts = True
    interrupt_apply = True
    corpus = [{"n": 2, "tasks": [{"id": 0, "succ": [], "compl": [], "beh": "ok", "gate": False, "lvl": 0},
                                 {"id": 1, "succ": [], "compl": [], "beh": "ok", "gate": False, "lvl": 1}],
               "strategy": "off", "gseed": 1, "interrupt_at": ["apply", 1], "stop_after_abort": True}]

    def oracle(self, case, obs):
        out = []
        for f in super().oracle(case, obs):
            if f.signature == KF_LOST_TASK:
                f = C.Failure("C08/interrupt-during-dispatch-loses-task", f.message)
            out.append(f)
        return out


class Run(PropRunStream):
    name = "C08.run"
    prop = "C08"
    profile = "basic"
    oracles = ("C08",)
    quick_cases = 420
    quick_seconds = 55
    p_interrupt = 0.5
    p_both = 0.05               # a keyboard interrupt in a run whose reporting backend fails (C11 judges the error; here: the skips)
    corpus = [witness("D2 AbortSuite raised in setup_test"), witness("D2 AbortSuite raised in teardown_test"),
              witness("D2 AbortSuite raised in a test-scoped fixture"), witness("(control) AbortSuite"), witness("D11 "),
              W2.ABORT_ARGUMENTS, W2.PERTHREAD_FIXTURE_ABORTS_SUITE, W2.PERTHREAD_FIXTURE_ABORTS_ALL, W2.FAULT_THEN_INTERRUPT] + W2.CONTROLS2


class RunPT(PropRunStream):
    """per-thread fixtures whose setup fails — mostly by raising AbortSuite / AbortAllTests — at their first use by a worker,
    inside the test task (`TestTask._prepare_test_args`), while tests that do not use them are still to start"""
    name = "C08.run.perthread"
    prop = "C08"
    profile = "perthread-abort"
    oracles = ("C08",)
    quick_cases = 110
    quick_seconds = 14
    thorough_cases = 4000
    p_interrupt = 0.1
    corpus = [W2.PERTHREAD_FIXTURE_ABORTS_SUITE, W2.PERTHREAD_FIXTURE_ABORTS_ALL]


from props._cli import CliStream, CLI_TRUSTED, CLI_RULE_ABORT, CORPUS_ABORT


class Cli(CliStream):
    """`lcc run` end to end (exit code): "… and the run is reported unsuccessful" — see harness/props/_cli.py"""
    name = "C08.cli"
    prop = "C08"
    mode = "abort"
    quick_cases = 300
    quick_seconds = 15
    thorough_cases = 3000
    corpus = CORPUS_ABORT


TRUSTED_BASE = TRUSTED_BASE + CLI_TRUSTED
RULE = RULE + "; " + CLI_RULE_ABORT


class Again(MultiRunStream):
    """the same built project (same suite / fixture-registry objects) run 2..3 times in one process, aborts / failures in
    some runs only (harness/props/_multirun.py): every run is judged on its own"""
    name = "C08.run.again"
    prop = "C08"
    profile = "basic"
    oracles = ("C08",)
    quick_cases = 90
    quick_seconds = 18
    p_interrupt = 0.15
    corpus = list(W2.AGAIN_CORPUS)


LEAN_MODULES = LEAN_MODULES + ["LccModel.Props.C08Again"]
PROPS_FILES = PROPS_FILES + ["LccModel/Props/C08Again.lean"]
NAMESPACES = dict(NAMESPACES, **{"LccModel/Props/C08Again.lean": "LccModel.C08Again"})
TRUSTED_BASE = TRUSTED_BASE + ["several runs of one built project: harness/props/_multirun.py re-points the interpreter behind the built "
                               "functions at each run's recorder (same Suite / Test / FixtureRegistry objects); Model/RunAgain.lean states "
                               "what a process keeps between runs, tied to the code by the table freshContextTable"]
RULE = RULE + ("; again stream: a generated project built ONCE and run 2..3 times in one process, 75 % of its failing acts guarded to "
               "happen in one run only, an AbortSuite / AbortAllTests of an earlier run only in ~3 of 4 cases; keyboard interrupt (15 %) "
               "in one of the runs; every run judged by the same oracles against the project it really executed")
EXPLANATION = EXPLANATION + (" Several runs in one process (Props/C08Again): consecutive runs of one loaded project are as many independent "
                             "runs from the initial state — the context flags of a run are no input of the next (extracted table "
                             "freshContextTable), and keeping them would skip the suite again.")


def streams(ctx):
    return [Sched(), Run(), RunPT(), Cli(), Again()]

"""C20 — all views of a report agree on every test's outcome (model M10 `Views`, invariant of M4 `Writer`)."""
import contextlib
import copy
import io
import os
import re
import shutil
import tempfile

import common as C
from gen import reports as R
from props.c09 import first_diff, count_results, has_unfinished
from props.c18 import writer_shaped

PROPERTY = "C20"
LEAN_MODULES = ["LccModel.Props.C20"]
PROPS_FILES = ["LccModel/Props/C20.lean"]
NAMESPACES = {"LccModel/Props/C20.lean": "LccModel.C20"}
DRIVER = "drivers/C20.lean"
TRUSTED_BASE = [
    "Lean 4.33.0 kernel; axioms of the property theorems ⊆ {propext, Classical.choice, Quot.sound}",
    "hand-written model LccModel/Model/Views.lean of reporting/backends/junit.py, report.py:ReportStats / build_message, "
    "backends/console.py:_print_summary (numbers) and cli/commands/diff.py:compute_diff; accessors and the writer invariant from "
    "LccModel/Model/Writer.lean, LccModel/Lemmas/Writer.lean",
    "correspondence harness harness/props/c20.py + harness/gen/reports.py: the real JUnit file is written and parsed back with "
    "xml.etree, the console summary is captured from stdout, ReportStats / build_message / compute_diff are called directly",
    "xml.etree text layer for the JUnit file (strings restricted to XML-preserved classes in this check; C09 covers the layer itself)",
]
ASSUMPTIONS = [
    "durations and percentages (floats: '%d.%03d', '%d%%' % (float(a) / b * 100)) are not modelled; note that 29 passed of 50 "
    "enabled prints 57% (float truncation), which the property (counts) does not cover",
    "the reports are writer-shaped (C18 ASSUMPTIONS): a test's status is the verdict of its logs; the oracle is evaluated on those only",
    "test paths are unique within a report (distinct sibling names, no '.' collisions) for the diff oracle",
    "the JUnit root attribute `tests` counts PASSED tests only (observed, not a finding: the property speaks of per-suite counters)",
]
RULE = ("a generated report rendered through the real JUnit backend, ReportStats, build_message, the console summary, and pairs of "
        "reports through compute_diff; non-trivial = at least 2 tests with at least 2 different statuses (views) / at least one test "
        "in each of two diff classes (diff); distinct = hash of the case")
EXPLANATION = ("Theorems: under the writer invariant the JUnit export marks a finished test failed/errored iff its status is failed and "
               "skipped iff skipped (refuted for in-progress tests, D7); per-suite counters, statistics, message variables and the "
               "console numbers equal the counts over Report.all_tests(); compute_diff partitions both test lists and is empty on "
               "equal inputs. The model is tied to the code by rendering generated reports with the real backends.")

ANSI = re.compile(r"\x1b\[[0-9;]*m")


def real_junit(rep, workdir):
    import xml.etree.ElementTree as ET
    from lemoncheesecake.reporting.backends.junit import JunitBackend
    path = os.path.join(workdir, "report-junit.xml")
    try:
        JunitBackend().save_report(path, rep)
    except TypeError:
        return {"err": "TypeError"}
    root = ET.parse(path).getroot()
    suites = []
    for s in root.findall("testsuite"):
        cases = []
        for c in s.findall("testcase"):
            cases.append({"name": c.attrib["name"], "children": [[ch.tag, ch.attrib.get("message")] for ch in c]})
        suites.append({"name": s.attrib["name"], "tests": int(s.attrib["tests"]), "failures": int(s.attrib["failures"]),
                       "skipped": int(s.attrib["skipped"]), "cases": cases})
    return {"tests": int(root.attrib["tests"]), "failures": int(root.attrib["failures"]), "suites": suites}


def real_stats(rep):
    from lemoncheesecake.reporting import ReportStats
    st = ReportStats.from_report(rep)
    d = dict(st.tests_nb_by_status)
    d["total"] = st.tests_nb
    d["enabled"] = st.tests_enabled_nb
    return d


def real_vars(rep):
    names = ["total", "enabled", "passed", "failed", "skipped", "disabled"]
    try:
        out = rep.build_message("|".join("{%s}" % n for n in names))
    except TypeError:
        return {"err": "TypeError"}
    return dict(zip(names, (int(x) for x in out.split("|"))))


def real_summary(rep):
    from lemoncheesecake.reporting import ReportStats
    from lemoncheesecake.reporting.backends.console import _print_summary
    buf = io.StringIO()
    with contextlib.redirect_stdout(buf):
        _print_summary(ReportStats.from_report(rep), rep.parallelized)
    text = ANSI.sub("", buf.getvalue())
    out = {"tests": None, "successes": None, "failures": None, "skipped": None, "disabled": None}
    for key, label in (("tests", "Tests"), ("successes", "Successes"), ("failures", "Failures"), ("skipped", "Skipped"),
                       ("disabled", "Disabled")):
        m = re.search(r"\* %s: (\d+)" % label, text)
        if m:
            out[key] = int(m.group(1))
    return out


def desc_tests(d):
    """direct enumeration: [(path string, test desc)] in any order"""
    out = []

    def go(ss, pre):
        for s in ss:
            p = pre + [s["md"]["name"]]
            for t in s["tests"]:
                out.append((".".join(p + [t["md"]["name"]]), t))
            go(s["suites"], p)
    go(d["suites"], [])
    return out


def desc_suites(d):
    """[(dotted path, [test desc])] for every suite, in the order of `Report.all_suites()` (top level in insertion order,
    every level below through the rank-sorted accessor).  The JUnit file names a suite by its dotted path STRING; names may
    contain dots themselves (`compat_1.2`, `@lcc.suite(name="a.b")`), so the suite a test belongs to is never recovered by
    splitting a path string, and two different suites may legitimately share one dotted string (`a.b` and `a` / `b`):
    those are told apart by their order of appearance."""
    out = []

    def go(ss, pre):
        for s in ss:
            p = pre + [s["md"]["name"]]
            out.append((".".join(p), list(s["tests"])))
            go(sorted(s["suites"], key=lambda x: x["md"]["rank"]), p)
    go(d["suites"], [])
    return out


def counts(tests):
    c = {s: 0 for s in R.STATUSES}
    for _, t in tests:
        if t["res"]["status"]:
            c[t["res"]["status"]] += 1
    c["total"] = len(tests)
    c["enabled"] = c["passed"] + c["failed"] + c["skipped"]
    return c


class ViewsStream(C.Stream):
    name = "C20.views"
    quick_cases = 300
    thorough_cases = 6000
    quick_seconds = 25
    thorough_seconds = 300
    chunk = 40
    corpus = []

    def setup(self, ctx):
        self.dir = tempfile.mkdtemp(prefix="lccverif-c20-")

    def teardown(self, ctx):
        shutil.rmtree(self.dir, ignore_errors=True)

    def gen(self, rng, i):
        odd = rng.random() < 0.25
        return {"report": R.gen_report(rng, rng.choice(["safe", "plain"]), odd=odd, none_times=0.01 if odd else 0)}

    def impl(self, case):
        if not getattr(self, "dir", None):
            self.dir = tempfile.mkdtemp(prefix="lccverif-c20-")
        desc = R.strip_private(case["report"])
        rep = R.build_report(desc)
        return {"junit": real_junit(rep, self.dir), "stats": real_stats(rep), "vars": real_vars(rep),
                "summary": real_summary(rep), "writer_shaped": writer_shaped(desc)}

    def oracle(self, case, obs):
        desc = R.strip_private(case["report"])
        tests = desc_tests(desc)
        exp = counts(tests)
        fails = []
        st = obs["stats"]
        for k in ("total", "enabled", "passed", "failed", "skipped", "disabled"):
            if st[k] != exp[k]:
                fails.append(C.Failure("C20/stats/count-differs", f"ReportStats {k}={st[k]}, enumeration gives {exp[k]}"))
            if "err" not in obs["vars"] and obs["vars"][k] != exp[k]:
                fails.append(C.Failure("C20/message/var-differs", f"build_message {k}={obs['vars'][k]}, enumeration gives {exp[k]}"))
        if "err" in obs["vars"]:
            if desc["start"] is not None and desc["end"] is None:
                fails.append(C.Failure("C20/message/unfinished-report-raises",
                                       "Report.build_message raises TypeError on a report without end time"))
            elif desc["start"] is not None:
                fails.append(C.Failure("C20/message/raised", "Report.build_message raised TypeError"))
        sm = obs["summary"]
        exp_sm = {"tests": exp["total"], "successes": exp["passed"], "failures": exp["failed"],
                  "skipped": exp["skipped"] or None, "disabled": exp["disabled"] or None}
        if sm != exp_sm:
            fails.append(C.Failure("C20/console/summary-differs", f"console summary {sm}, enumeration gives {exp_sm}"))
        ju = obs["junit"]
        if "err" in ju:
            missing = any(t["res"]["start"] is None for _, t in tests) or desc["start"] is None
            if not missing:
                fails.append(C.Failure("C20/junit/save-raised", "JUnit save raised " + ju["err"]))
            return fails
        # per suite counters and per test marks, suites matched by their dotted path (k-th of that name with the k-th)
        by_suite = {}
        for name, ts in desc_suites(desc):
            if ts:
                by_suite.setdefault(name, []).append(ts)
        seen = {}
        for s in ju["suites"]:
            seen.setdefault(s["name"], []).append(s)
        pairs = []
        for name, lst in by_suite.items():
            if len(seen.get(name, [])) != len(lst):
                fails.append(C.Failure("C20/junit/suite-missing", f"suite {name!r} appears {len(seen.get(name, []))} times in the JUnit file, "
                                                                  f"{len(lst)} suite(s) of that path hold tests"))
                continue
            pairs += [(name, s, ts) for s, ts in zip(seen[name], lst)]
        for name, s, ts in pairs:
            c = counts([(None, t) for t in ts])
            if (s["tests"], s["failures"], s["skipped"]) != (c["total"], c["failed"], c["skipped"]):
                fails.append(C.Failure("C20/junit/suite-counters", f"suite {name!r}: tests/failures/skipped = "
                                       f"{s['tests']}/{s['failures']}/{s['skipped']}, enumeration gives {c['total']}/{c['failed']}/{c['skipped']}"))
            cases = {}
            for cs in s["cases"]:
                cases.setdefault(cs["name"], []).append(cs)
            for t in ts:
                cl = cases.get(t["md"]["name"], [])
                if len(cl) != 1:
                    fails.append(C.Failure("C20/junit/testcase-missing", f"test {t['md']['name']!r} appears {len(cl)} times"))
                    continue
                tags = [ch[0] for ch in cl[0]["children"]]
                failed_mark = any(x in ("failure", "error") for x in tags)
                skipped_mark = "skipped" in tags
                status = t["res"]["status"]
                if status is None:
                    if failed_mark or skipped_mark:
                        fails.append(C.Failure("C20/junit/in-progress-test-marked-failed",
                                               f"in-progress test {t['md']['name']!r} is marked {tags} in the JUnit file"))
                    continue
                if not obs["writer_shaped"]:
                    continue
                if failed_mark != (status == "failed"):
                    fails.append(C.Failure("C20/junit/failed-mark-differs", f"test {t['md']['name']!r} status {status} but JUnit children {tags}"))
                if skipped_mark != (status == "skipped"):
                    fails.append(C.Failure("C20/junit/skipped-mark-differs", f"test {t['md']['name']!r} status {status} but JUnit children {tags}"))
        for name in seen:
            if name not in by_suite:
                fails.append(C.Failure("C20/junit/extra-suite", f"JUnit lists suite {name!r} which has no tests"))
        return fails

    def request(self, case, obs):
        return {"op": "views", "report": R.wire(case["report"])}

    def compare(self, case, obs, ans):
        if "error" in ans:
            return "model error: " + ans["error"]
        mj = ans["junit"]
        if "err" in mj or "err" in obs["junit"]:
            if mj.get("err") != obs["junit"].get("err"):
                return f"junit: real {obs['junit'].get('err', 'ok')} vs model {mj.get('err', 'ok')}"
        else:
            mjs = {"tests": mj["tests"], "failures": mj["failures"],
                   "suites": [{"name": R.unwire_str(s["name"]), "tests": s["tests"], "failures": s["failures"], "skipped": s["skipped"],
                               "cases": [{"name": R.unwire_str(c["name"]),
                                          "children": [[ch[0], R.unwire_str(ch[1])] for ch in c["children"]]} for c in s["cases"]]}
                              for s in mj["suites"]]}
            d = first_diff(obs["junit"], mjs)
            if d:
                return f"junit differs at {d[0]}: real {d[1]!r} model {d[2]!r}"
        for k in ("stats", "vars", "summary"):
            real = obs[k]
            mod = ans[k]
            if k == "stats":
                real = {x: real[x] for x in mod}
            if real != mod:
                return f"{k} differ: real {real} model {mod}"
        return None

    def nontrivial(self, case, obs):
        sts = {t["res"]["status"] for _, t in desc_tests(case["report"])}
        return len(desc_tests(case["report"])) >= 2 and len(sts) >= 2

    def features(self, case, obs):
        tests = desc_tests(case["report"])
        f = ["status:%s" % s for s in sorted({str(t["res"]["status"]) for _, t in tests})]
        f.append("writer-shaped" if obs["writer_shaped"] else "not-writer-shaped")
        f.append("junit:" + ("err" if "err" in obs["junit"] else "ok"))
        if any(not s["tests"] for s in R.iter_suites(case["report"]["suites"])):
            f.append("empty-suite")
        kinds = set()
        for _, t in tests:
            if t["res"]["status"] == "failed":
                es = [e for st in t["res"]["steps"] for e in st["entries"] if not R.entry_ok(e)]
                kinds |= {"failed-by-" + e["k"] for e in es}
        f += sorted(kinds)
        return f

    def shrink(self, case):
        for c in R.shrink_desc(case["report"]):
            yield {"report": c}


# ---- lcc diff ------------------------------------------------------------------------------------------

def real_diff(r1, r2):
    from lemoncheesecake.cli.commands.diff import compute_diff
    d = compute_diff(list(r1.all_tests()), list(r2.all_tests()))
    changed = []
    for old, m in d.status_changed.items():
        for new, ts in m.items():
            for t in ts:
                changed.append([t.path, old, new])
    return {"added": sorted([t.path, t.status] for t in d.added), "removed": sorted([t.path, t.status] for t in d.removed),
            "changed": sorted(changed, key=str), "empty": d.is_empty()}


def mutate_report(rng, d):
    """a second report over an overlapping test set: tests dropped / added / with another status, suites dropped"""
    d = copy.deepcopy(R.strip_private(d))
    tx = R.Text(rng, "plain")
    clk = R.Clock(rng, R.T0 + 10**6)
    for s in list(R.iter_suites(d["suites"])):
        keep = []
        names = {t["md"]["name"] for t in s["tests"]}
        for t in s["tests"]:
            r = rng.random()
            if r < 0.2:
                continue
            if r < 0.5:
                t["res"]["status"] = rng.choice([x for x in R.STATUSES + [None] if x != t["res"]["status"]])
            keep.append(t)
        for _ in range(rng.choice([0, 0, 1, 2])):
            keep.insert(rng.randrange(len(keep) + 1), R.gen_test(rng, tx, clk, tx.name(names), 0, {}))
        rng.shuffle(keep)
        s["tests"] = keep
        if s["suites"] and rng.random() < 0.15:
            del s["suites"][rng.randrange(len(s["suites"]))]
    return d


class DiffStream(C.Stream):
    name = "C20.diff"
    quick_cases = 300
    thorough_cases = 6000
    quick_seconds = 20
    thorough_seconds = 200
    chunk = 50
    corpus = []

    def gen(self, rng, i):
        r1 = R.strip_private(R.gen_report(rng, rng.choice(["plain", "safe"]), max_depth=3))
        same = rng.random() < 0.12
        r2 = copy.deepcopy(r1) if same else mutate_report(rng, r1)
        if rng.random() < 0.2:
            r1, r2 = r2, r1
        return {"r1": r1, "r2": r2, "same": same}

    def impl(self, case):
        a, b = R.build_report(case["r1"]), R.build_report(case["r2"])
        return {"diff": real_diff(a, b), "self1": real_diff(a, R.build_report(case["r1"]))}

    def oracle(self, case, obs):
        t1, t2 = desc_tests(case["r1"]), desc_tests(case["r2"])
        fails = []
        if not obs["self1"]["empty"]:
            fails.append(C.Failure("C20/diff/self-not-empty", "the diff of a report with itself is not empty"))
        p1, p2 = [p for p, _ in t1], [p for p, _ in t2]
        if len(set(p1)) != len(p1) or len(set(p2)) != len(p2):
            return fails        # path collisions through '.' in names: outside the oracle (ASSUMPTIONS)
        d1, d2 = dict(t1), dict(t2)
        exp_added = sorted([p, d2[p]["res"]["status"]] for p in d2 if p not in d1)
        exp_removed = sorted([p, d1[p]["res"]["status"]] for p in d1 if p not in d2)
        exp_changed = sorted(([p, d1[p]["res"]["status"], d2[p]["res"]["status"]] for p in d1
                              if p in d2 and d1[p]["res"]["status"] != d2[p]["res"]["status"]), key=str)
        d = obs["diff"]
        if d["added"] != exp_added:
            fails.append(C.Failure("C20/diff/added", f"added {d['added']} expected {exp_added}"))
        if d["removed"] != exp_removed:
            fails.append(C.Failure("C20/diff/removed", f"removed {d['removed']} expected {exp_removed}"))
        if d["changed"] != exp_changed:
            fails.append(C.Failure("C20/diff/status-changed", f"status-changed {d['changed']} expected {exp_changed}"))
        if d["empty"] != (not (exp_added or exp_removed or exp_changed)):
            fails.append(C.Failure("C20/diff/is-empty", "Diff.is_empty() disagrees with its content"))
        return fails

    def request(self, case, obs):
        return {"op": "diff", "r1": R.wire(case["r1"]), "r2": R.wire(case["r2"])}

    def compare(self, case, obs, ans):
        if "error" in ans:
            return "model error: " + ans["error"]
        m = {"added": sorted([R.unwire_str(p), s] for p, s in ans["added"]),
             "removed": sorted([R.unwire_str(p), s] for p, s in ans["removed"]),
             "changed": sorted(([R.unwire_str(p), a, b] for p, a, b in ans["changed"]), key=str), "empty": ans["empty"]}
        d = first_diff(obs["diff"], m)
        return None if d is None else f"diff differs at {d[0]}: real {d[1]!r} model {d[2]!r}"

    def nontrivial(self, case, obs):
        d = obs["diff"]
        return sum(1 for k in ("added", "removed", "changed") if d[k]) >= 2 or case["same"]

    def features(self, case, obs):
        d = obs["diff"]
        return [k for k in ("added", "removed", "changed") if d[k]] + (["same"] if case["same"] else []) + (["empty"] if d["empty"] else [])

    def shrink(self, case):
        for c in R.shrink_desc(case["r1"]):
            yield dict(case, r1=c)
        for c in R.shrink_desc(case["r2"]):
            yield dict(case, r2=c)


def _inprogress_failed():
    T0 = R.T0
    step = {"desc": "s", "start": T0 + 1, "end": None, "entries": [{"k": "check", "desc": "c", "ok": False, "details": None, "t": T0 + 2}]}
    md = {"name": "t1", "desc": "d", "tags": [], "props": [], "links": [], "rank": 0}
    res = {"steps": [step], "start": T0 + 1, "end": None, "status": None, "details": None}
    t2 = {"md": dict(md, name="t2"), "res": {"steps": [], "start": T0 + 3, "end": T0 + 4, "status": "passed", "details": None}}
    suite = {"md": dict(md, name="s1"), "start": T0, "end": None, "setup": None, "teardown": None,
             "tests": [{"md": md, "res": res}, t2], "suites": []}
    return {"report": {"title": "t", "info": [], "nb_threads": 2, "start": T0, "end": None, "saving": None, "setup": None,
                       "teardown": None, "suites": [suite]}}


ViewsStream.corpus = [_inprogress_failed()]       # D7


def streams(ctx):
    return [ViewsStream(), DiffStream()]

"""C20 — all views of a report agree on every test's outcome (model M10 `Views`, invariant of M4 `Writer`)."""
import contextlib
import copy
import io
import os
import re
import shutil
import tempfile

import common as C
from gen import reports as R
from props.c09 import first_diff, count_results, has_unfinished
from props.c18 import writer_shaped

PROPERTY = "C20"
LEAN_MODULES = ["LccModel.Props.C20", "LccModel.Props.C20Short", "LccModel.Props.C20Live"]
PROPS_FILES = ["LccModel/Props/C20.lean", "LccModel/Props/C20Short.lean", "LccModel/Props/C20Live.lean"]
NAMESPACES = {"LccModel/Props/C20.lean": "LccModel.C20", "LccModel/Props/C20Short.lean": "LccModel.C20Short",
              "LccModel/Props/C20Live.lean": "LccModel.C20"}
DRIVER = "drivers/C20.lean"
TRUSTED_BASE = [
    "Lean 4.33.0 kernel; axioms of the property theorems ⊆ {propext, Classical.choice, Quot.sound}",
    "hand-written model LccModel/Model/Views.lean of reporting/backends/junit.py, report.py:ReportStats / build_message, "
    "backends/console.py:_print_summary (numbers) and cli/commands/diff.py:compute_diff; accessors and the writer invariant from "
    "LccModel/Model/Writer.lean, LccModel/Lemmas/Writer.lean",
    "correspondence harness harness/props/c20.py + harness/gen/reports.py: the real JUnit file is written and parsed back with "
    "xml.etree, the console summary is captured from stdout, ReportStats / build_message / compute_diff are called directly",
    "xml.etree text layer for the JUnit file (strings restricted to XML-preserved classes in this check; C09 covers the layer itself)",
]
ASSUMPTIONS = [
    "durations and percentages (floats: '%d.%03d', '%d%%' % (float(a) / b * 100)) are not modelled; note that 29 passed of 50 "
    "enabled prints 57% (float truncation), which the property (counts) does not cover",
    "the reports are writer-shaped (C18 ASSUMPTIONS): a test's status is the verdict of its logs; the oracle is evaluated on those only",
    "test paths are unique within a report (distinct sibling names, no '.' collisions) for the diff oracle",
    "the JUnit root attribute `tests` counts PASSED tests only (observed, not a finding: the property speaks of per-suite counters)",
]
RULE = ("a generated report rendered through the real JUnit backend, ReportStats, build_message, the console summary, and pairs of "
        "reports through compute_diff; C20.live: the views evaluated at several moments on ONE live report the real writer is filling "
        "(JUnit file session attached), and real runs with console+json+junit (non-trivial = two evaluations that see different numbers "
        "of tests / a real run of >= 2 tests whose JUnit file was saved before the end); non-trivial = at least 2 tests with at least 2 different statuses (views) / at least one test "
        "in each of two diff classes (diff); distinct = hash of the case")
EXPLANATION = ("Theorems: under the writer invariant the JUnit export marks a finished test failed/errored iff its status is failed and "
               "skipped iff skipped (refuted for in-progress tests, D7); per-suite counters, statistics, message variables and the "
               "console numbers equal the counts over Report.all_tests(); compute_diff partitions both test lists and is empty on "
               "equal inputs. Every evaluation of a view on a live report gives the counts of the report as it is at that moment "
               "(live_views_count_the_report_as_it_is). The model is tied to the code by rendering generated reports with the real backends.")

ANSI = re.compile(r"\x1b\[[0-9;]*m")


def real_junit(rep, workdir):
    import xml.etree.ElementTree as ET
    from lemoncheesecake.reporting.backends.junit import JunitBackend
    path = os.path.join(workdir, "report-junit.xml")
    try:
        JunitBackend().save_report(path, rep)
    except TypeError:
        return {"err": "TypeError"}
    return parse_junit(path)


def parse_junit(path):
    import xml.etree.ElementTree as ET
    root = ET.parse(path).getroot()
    suites = []
    for s in root.findall("testsuite"):
        cases = []
        for c in s.findall("testcase"):
            cases.append({"name": c.attrib["name"], "children": [[ch.tag, ch.attrib.get("message")] for ch in c]})
        suites.append({"name": s.attrib["name"], "tests": int(s.attrib["tests"]), "failures": int(s.attrib["failures"]),
                       "skipped": int(s.attrib["skipped"]), "cases": cases})
    return {"tests": int(root.attrib["tests"]), "failures": int(root.attrib["failures"]), "suites": suites}


def real_stats(rep):
    from lemoncheesecake.reporting import ReportStats
    st = ReportStats.from_report(rep)
    d = dict(st.tests_nb_by_status)
    d["total"] = st.tests_nb
    d["enabled"] = st.tests_enabled_nb
    return d


def real_vars(rep):
    names = ["total", "enabled", "passed", "failed", "skipped", "disabled"]
    try:
        out = rep.build_message("|".join("{%s}" % n for n in names))
    except TypeError:
        return {"err": "TypeError"}
    return dict(zip(names, (int(x) for x in out.split("|"))))


def real_summary(rep):
    from lemoncheesecake.reporting import ReportStats
    from lemoncheesecake.reporting.backends.console import _print_summary
    buf = io.StringIO()
    with contextlib.redirect_stdout(buf):
        _print_summary(ReportStats.from_report(rep), rep.parallelized)
    return parse_summary(buf.getvalue())


def parse_summary(text):
    text = ANSI.sub("", text)
    out = {"tests": None, "successes": None, "failures": None, "skipped": None, "disabled": None}
    for key, label in (("tests", "Tests"), ("successes", "Successes"), ("failures", "Failures"), ("skipped", "Skipped"),
                       ("disabled", "Disabled")):
        m = re.search(r"\* %s: (\d+)" % label, text)
        if m:
            out[key] = int(m.group(1))
    return out


def desc_tests(d):
    """direct enumeration: [(path string, test desc)] in any order"""
    out = []

    def go(ss, pre):
        for s in ss:
            p = pre + [s["md"]["name"]]
            for t in s["tests"]:
                out.append((".".join(p + [t["md"]["name"]]), t))
            go(s["suites"], p)
    go(d["suites"], [])
    return out


def desc_suites(d):
    """[(dotted path, [test desc])] for every suite, in the order of `Report.all_suites()` (top level in insertion order,
    every level below through the rank-sorted accessor).  The JUnit file names a suite by its dotted path STRING; names may
    contain dots themselves (`compat_1.2`, `@lcc.suite(name="a.b")`), so the suite a test belongs to is never recovered by
    splitting a path string, and two different suites may legitimately share one dotted string (`a.b` and `a` / `b`):
    those are told apart by their order of appearance."""
    out = []

    def go(ss, pre):
        for s in ss:
            p = pre + [s["md"]["name"]]
            out.append((".".join(p), list(s["tests"])))
            go(sorted(s["suites"], key=lambda x: x["md"]["rank"]), p)
    go(d["suites"], [])
    return out


def counts(tests):
    c = {s: 0 for s in R.STATUSES}
    for _, t in tests:
        if t["res"]["status"]:
            c[t["res"]["status"]] += 1
    c["total"] = len(tests)
    c["enabled"] = c["passed"] + c["failed"] + c["skipped"]
    return c


def FAIL(where, sig, msg):
    return C.Failure(sig, (where + ": " if where else "") + msg)


def views_failures(desc, obs, where=""):
    """the property's statement on ONE evaluation of the views (`obs`) against a direct enumeration of the report description
    `desc` (the report as it is when the views are evaluated); `where` prefixes the messages"""
    tests = desc_tests(desc)
    exp = counts(tests)
    fails = []
    st = obs["stats"]

    for k in ("total", "enabled", "passed", "failed", "skipped", "disabled"):
        if st[k] != exp[k]:
            fails.append(FAIL(where, "C20/stats/count-differs", f"ReportStats {k}={st[k]}, enumeration gives {exp[k]}"))
        if "err" not in obs["vars"] and obs["vars"][k] != exp[k]:
            fails.append(FAIL(where, "C20/message/var-differs", f"build_message {k}={obs['vars'][k]}, enumeration gives {exp[k]}"))
    if "err" in obs["vars"]:
        if desc["start"] is not None and desc["end"] is None:
            fails.append(FAIL(where, "C20/message/unfinished-report-raises",
                                   "Report.build_message raises TypeError on a report without end time"))
        elif desc["start"] is not None:
            fails.append(FAIL(where, "C20/message/raised", "Report.build_message raised TypeError"))
    sm = obs["summary"]
    exp_sm = {"tests": exp["total"], "successes": exp["passed"], "failures": exp["failed"],
              "skipped": exp["skipped"] or None, "disabled": exp["disabled"] or None}
    if sm != exp_sm:
        fails.append(FAIL(where, "C20/console/summary-differs", f"console summary {sm}, enumeration gives {exp_sm}"))
    ju = obs["junit"]
    if "err" in ju:
        missing = any(t["res"]["start"] is None for _, t in tests) or desc["start"] is None
        if not missing:
            fails.append(FAIL(where, "C20/junit/save-raised", "JUnit save raised " + ju["err"]))
        return fails
    # per suite counters and per test marks, suites matched by their dotted path (k-th of that name with the k-th)
    by_suite = {}
    for name, ts in desc_suites(desc):
        if ts:
            by_suite.setdefault(name, []).append(ts)
    seen = {}
    for s in ju["suites"]:
        seen.setdefault(s["name"], []).append(s)
    pairs = []
    for name, lst in by_suite.items():
        if len(seen.get(name, [])) != len(lst):
            fails.append(FAIL(where, "C20/junit/suite-missing", f"suite {name!r} appears {len(seen.get(name, []))} times in the JUnit file, "
                                                              f"{len(lst)} suite(s) of that path hold tests"))
            continue
        pairs += [(name, s, ts) for s, ts in zip(seen[name], lst)]
    for name, s, ts in pairs:
        c = counts([(None, t) for t in ts])
        if (s["tests"], s["failures"], s["skipped"]) != (c["total"], c["failed"], c["skipped"]):
            fails.append(FAIL(where, "C20/junit/suite-counters", f"suite {name!r}: tests/failures/skipped = "
                                   f"{s['tests']}/{s['failures']}/{s['skipped']}, enumeration gives {c['total']}/{c['failed']}/{c['skipped']}"))
        cases = {}
        for cs in s["cases"]:
            cases.setdefault(cs["name"], []).append(cs)
        for t in ts:
            cl = cases.get(t["md"]["name"], [])
            if len(cl) != 1:
                fails.append(FAIL(where, "C20/junit/testcase-missing", f"test {t['md']['name']!r} appears {len(cl)} times"))
                continue
            tags = [ch[0] for ch in cl[0]["children"]]
            failed_mark = any(x in ("failure", "error") for x in tags)
            skipped_mark = "skipped" in tags
            status = t["res"]["status"]
            if status is None:
                if failed_mark or skipped_mark:
                    fails.append(FAIL(where, "C20/junit/in-progress-test-marked-failed",
                                           f"in-progress test {t['md']['name']!r} is marked {tags} in the JUnit file"))
                continue
            if not obs["writer_shaped"]:
                continue
            if failed_mark != (status == "failed"):
                fails.append(FAIL(where, "C20/junit/failed-mark-differs", f"test {t['md']['name']!r} status {status} but JUnit children {tags}"))
            if skipped_mark != (status == "skipped"):
                fails.append(FAIL(where, "C20/junit/skipped-mark-differs", f"test {t['md']['name']!r} status {status} but JUnit children {tags}"))
    for name in seen:
        if name not in by_suite:
            fails.append(FAIL(where, "C20/junit/extra-suite", f"JUnit lists suite {name!r} which has no tests"))
    return fails



def compare_views(obs, ans):
    if "error" in ans:
        return "model error: " + ans["error"]
    mj = ans["junit"]
    if "err" in mj or "err" in obs["junit"]:
        if mj.get("err") != obs["junit"].get("err"):
            return f"junit: real {obs['junit'].get('err', 'ok')} vs model {mj.get('err', 'ok')}"
    else:
        mjs = {"tests": mj["tests"], "failures": mj["failures"],
               "suites": [{"name": R.unwire_str(s["name"]), "tests": s["tests"], "failures": s["failures"], "skipped": s["skipped"],
                           "cases": [{"name": R.unwire_str(c["name"]),
                                      "children": [[ch[0], R.unwire_str(ch[1])] for ch in c["children"]]} for c in s["cases"]]}
                          for s in mj["suites"]]}
        d = first_diff(obs["junit"], mjs)
        if d:
            return f"junit differs at {d[0]}: real {d[1]!r} model {d[2]!r}"
    for k in ("stats", "vars", "summary"):
        real = obs[k]
        mod = ans[k]
        if k == "stats":
            real = {x: real[x] for x in mod}
        if real != mod:
            return f"{k} differ: real {real} model {mod}"
    return None



class ViewsStream(C.Stream):
    name = "C20.views"
    quick_cases = 300
    thorough_cases = 6000
    quick_seconds = 25
    thorough_seconds = 300
    chunk = 40
    corpus = []

    def setup(self, ctx):
        self.dir = tempfile.mkdtemp(prefix="lccverif-c20-")

    def teardown(self, ctx):
        shutil.rmtree(self.dir, ignore_errors=True)

    def gen(self, rng, i):
        odd = rng.random() < 0.25
        return {"report": R.gen_report(rng, rng.choice(["safe", "plain"]), odd=odd, none_times=0.01 if odd else 0)}

    def impl(self, case):
        if not getattr(self, "dir", None):
            self.dir = tempfile.mkdtemp(prefix="lccverif-c20-")
        desc = R.strip_private(case["report"])
        rep = R.build_report(desc)
        return {"junit": real_junit(rep, self.dir), "stats": real_stats(rep), "vars": real_vars(rep),
                "summary": real_summary(rep), "writer_shaped": writer_shaped(desc)}

    def oracle(self, case, obs):
        return views_failures(R.strip_private(case["report"]), obs)

    def request(self, case, obs):
        return {"op": "views", "report": R.wire(case["report"])}

    def compare(self, case, obs, ans):
        return compare_views(obs, ans)

    def nontrivial(self, case, obs):
        sts = {t["res"]["status"] for _, t in desc_tests(case["report"])}
        return len(desc_tests(case["report"])) >= 2 and len(sts) >= 2

    def features(self, case, obs):
        tests = desc_tests(case["report"])
        f = ["status:%s" % s for s in sorted({str(t["res"]["status"]) for _, t in tests})]
        f.append("writer-shaped" if obs["writer_shaped"] else "not-writer-shaped")
        f.append("junit:" + ("err" if "err" in obs["junit"] else "ok"))
        if any(not s["tests"] for s in R.iter_suites(case["report"]["suites"])):
            f.append("empty-suite")
        kinds = set()
        for _, t in tests:
            if t["res"]["status"] == "failed":
                es = [e for st in t["res"]["steps"] for e in st["entries"] if not R.entry_ok(e)]
                kinds |= {"failed-by-" + e["k"] for e in es}
        f += sorted(kinds)
        return f

    def shrink(self, case):
        for c in R.shrink_desc(case["report"]):
            yield {"report": c}


# ---- the views evaluated several times on ONE live report -----------------------------------------------

LIVE_STRATEGIES = [None, "at_each_test", "at_each_failed_test", "at_each_failed_test", "at_each_suite", "at_each_log", "at_end_of_tests"]


def _spec_suites(suites):
    for s in suites:
        yield s
        yield from _spec_suites(s["subs"])


def run_real_views(case, top):
    """a REAL run with the console, JSON and JUnit backends created by `Session.create` in the given order and one saving
    strategy: what the console printed at the end, what report-junit.xml holds, what `build_message` / `ReportStats` answer on
    the live report — against the tests of the report LOADED from report.js"""
    from props import c10 as X10
    from lemoncheesecake import runner
    from lemoncheesecake.events import AsyncEventManager
    from lemoncheesecake.session import Session
    from lemoncheesecake.fixture import FixtureRegistry
    from lemoncheesecake.suite import resolve_tests_dependencies
    from lemoncheesecake.reporting.savingstrategy import make_report_saving_strategy
    from lemoncheesecake.reporting.backends.console import ConsoleBackend
    from lemoncheesecake.reporting.backends.json_ import JsonBackend
    from lemoncheesecake.reporting.backends.junit import JunitBackend
    from lemoncheesecake.reporting import load_report
    spec = case["spec"]
    suites = X10._build_real_suites(spec)
    resolve_tests_dependencies(suites, suites)
    nb = spec["nb_threads"]
    junit = JunitBackend()
    saves = [0]
    orig = junit.save_report

    def counting(filename, rep):
        saves[0] += 1
        return orig(filename, rep)
    junit.save_report = counting
    bes = {"console": ConsoleBackend(), "json": JsonBackend(), "junit": junit}
    old = Session._instance
    buf = io.StringIO()
    failure = None
    try:
        with contextlib.redirect_stdout(buf):
            em = AsyncEventManager.load()
            session = Session.create(em, [bes[n] for n in case["backends"]], top, make_report_saving_strategy(case["strategy"]), nb_threads=nb)
            try:
                runner.run_suites(suites, FixtureRegistry(), session, nb_threads=nb)
            except Exception as e:      # classified
                failure = type(e).__name__
        report = session.report
        out = {"failure": failure, "views": [], "junit_saves": saves[0]}
        js = os.path.join(top, "report.js")
        if failure is None and os.path.exists(js):
            loaded = load_report(js)
            ju = os.path.join(top, "report-junit.xml")
            out["views"].append({"k": -1, "desc": R.canon_report(loaded),
                                 "junit": parse_junit(ju) if os.path.exists(ju) else {"err": "missing"},
                                 "stats": real_stats(report), "vars": real_vars(report), "summary": parse_summary(buf.getvalue()),
                                 "writer_shaped": True})
        return out
    finally:
        Session._instance = old


class LiveStream(C.Stream):
    """What `lcc run --reporting console json junit` does: ONE `Report` object, mutated by the real `ReportWriter` event after
    event; the JUnit backend's file session (when attached) exports it each time the saving strategy fires, the views (ReportStats,
    console summary, build_message, a JUnit export) are evaluated at several moments of the run and at its end ON THE SAME
    OBJECT.  Each evaluation must agree with an enumeration of the report as it is at that moment."""
    name = "C20.live"
    quick_cases = 120
    thorough_cases = 1500
    quick_seconds = 20
    thorough_seconds = 240
    chunk = 20
    corpus = []

    def setup(self, ctx):
        self.dir = tempfile.mkdtemp(prefix="lccverif-c20l-")

    def teardown(self, ctx):
        shutil.rmtree(self.dir, ignore_errors=True)

    def gen(self, rng, i):
        if i % 6 == 5:
            # a REAL run (`runner.run_suites`, worker pool, AsyncEventManager) with the console, JSON and JUnit backends attached
            # through `Session.create`, as `lcc run --reporting console json junit --save-report <strategy>` does
            from props import c10 as X10
            spec = X10.gen_real_spec(rng, "plain")
            for st in _spec_suites(spec["suites"]):
                for t in st["tests"]:
                    t["acts"] = [a for a in t["acts"] if a[0] not in ("info", "threads")]
            backends = ["console", "json", "junit"]
            rng.shuffle(backends)
            return {"kind": "real", "spec": spec, "backends": backends,
                    "strategy": rng.choice(["at_each_failed_test", "at_each_failed_test", "at_each_test", "at_each_suite", "at_each_log", "every_0s"])}
        rep = R.strip_private(R.gen_report(rng, rng.choice(["safe", "plain"]), max_depth=rng.choice([2, 3]), unfinished=0.15))
        events = R.events_of_desc(rep, rng, tids=(1, 2))
        n = len(events)
        ends = [k + 1 for k, e in enumerate(events) if e["e"] in ("testEnd", "testSkipped", "testDisabled")]
        cuts = set(rng.sample(range(1, n + 1), min(n, rng.choice([1, 2, 3]))))
        if ends:
            cuts |= set(rng.sample(ends, min(len(ends), rng.choice([1, 2]))))
        cuts.add(n)
        return {"events": events, "nb_threads": rep["nb_threads"], "cuts": sorted(cuts), "junit_session": rng.choice(LIVE_STRATEGIES)}

    def impl(self, case):
        from lemoncheesecake.reporting.report import Report
        from lemoncheesecake.reporting.writer import ReportWriter
        from lemoncheesecake.reporting.backends.junit import JunitBackend
        from lemoncheesecake.reporting.savingstrategy import make_report_saving_strategy
        from lemoncheesecake.events import SyncEventManager
        if not getattr(self, "dir", None):
            self.dir = tempfile.mkdtemp(prefix="lccverif-c20l-")
        top = tempfile.mkdtemp(prefix="run-", dir=self.dir)
        if case.get("kind") == "real":
            try:
                return run_real_views(case, top)
            finally:
                shutil.rmtree(top, ignore_errors=True)
        try:
            report = Report()
            report.nb_threads = case["nb_threads"]
            em = SyncEventManager.load()
            em.add_listener(ReportWriter(report))          # subscription order of `Session.create` + `initialize_reporting_sessions`
            saves = []
            if case.get("junit_session"):
                be = JunitBackend()
                orig = be.save_report
                def counting(filename, rep, _o=orig):
                    saves.append(len(evals["handled"]))
                    return _o(filename, rep)
                be.save_report = counting
                em.add_listener(be.create_reporting_session(top, report, case["nb_threads"] > 1,
                                                            make_report_saving_strategy(case["junit_session"])))
            evals = {"handled": [], "views": []}
            cuts = set(case["cuts"])
            scratch = os.path.join(top, "views")
            os.makedirs(scratch)
            failure = None
            for k, e in enumerate(case["events"], 1):
                try:
                    em.fire(R.build_event(e, report))
                except Exception as exc:     # classified: a handler (writer / JUnit session) raised
                    failure = {"k": k, "cls": type(exc).__name__, "msg": str(exc)[:200]}
                    break
                evals["handled"].append(k)
                if k in cuts:
                    evals["views"].append({"k": k, "desc": R.canon_report(report), "junit": real_junit(report, scratch),
                                           "stats": real_stats(report), "vars": real_vars(report), "summary": real_summary(report),
                                           "writer_shaped": True})
            out = {"views": evals["views"], "failure": failure, "session_saves": saves, "session_file": None}
            path = os.path.join(top, "report-junit.xml")
            if os.path.exists(path):
                # the file the run leaves behind: its root counters against the report at the end of the run
                import xml.etree.ElementTree as ET
                root = ET.parse(path).getroot()
                out["session_file"] = {"tests": int(root.attrib["tests"]), "failures": int(root.attrib["failures"]),
                                       "suites": {x.attrib["name"]: int(x.attrib["tests"]) for x in root.findall("testsuite")}}
                out["final_desc"] = R.canon_report(report)
            return out
        finally:
            shutil.rmtree(top, ignore_errors=True)

    def oracle(self, case, obs):
        fails = []
        if case.get("kind") == "real":
            if obs["failure"]:
                return [C.Failure("C20/live/run-raised/" + obs["failure"], "the run raised")]
            if obs["views"]:
                fails += views_failures(obs["views"][0]["desc"], obs["views"][0],
                                        "end of a real run with %s attached (%s): views of the live report vs the tests of the loaded report.js"
                                        % ("+".join(case["backends"]), case["strategy"]))
            return fails
        if obs["failure"]:
            f = obs["failure"]
            fails.append(C.Failure("C20/live/handler-raised/" + f["cls"], "event %d of a well-formed stream: %s" % (f["k"], f["msg"])))
        for n, v in enumerate(obs["views"], 1):
            where = "evaluation #%d on the same Report object, after event %d of %d" % (n, v["k"], len(case["events"]))
            fails += views_failures(v["desc"], v, where)
        sf = obs.get("session_file")
        if sf and not obs["failure"] and case["events"][-1]["e"] == "sessionEnd":
            exp = counts(desc_tests(obs["final_desc"]))
            # (the root attribute `tests` holds the PASSED tests: observed, see ASSUMPTIONS)
            if (sf["tests"], sf["failures"]) != (exp["passed"], exp["failed"]):
                fails.append(C.Failure("C20/live/junit-file-root-counters",
                                       "report-junit.xml left by the run: tests=%d failures=%d, the report holds %d passed / %d failed tests"
                                       % (sf["tests"], sf["failures"], exp["passed"], exp["failed"])))
        return fails

    def request(self, case, obs):
        if case.get("kind") == "real":
            return {"op": "views", "report": R.wire(obs["views"][0]["desc"])} if obs["views"] else None
        return {"op": "live", "events": R.wire(case["events"]), "nb_threads": case["nb_threads"], "cuts": [v["k"] for v in obs["views"]]}

    def compare(self, case, obs, ans):
        if "error" in ans:
            return "model error: " + str(ans["error"])
        if case.get("kind") == "real":
            return compare_views(obs["views"][0], ans)
        if len(ans["views"]) != len(obs["views"]):
            return "the model evaluates %d views, the implementation %d" % (len(ans["views"]), len(obs["views"]))
        for n, (v, m) in enumerate(zip(obs["views"], ans["views"]), 1):
            d = compare_views(v, m)
            if d:
                return "evaluation #%d (after event %d): %s" % (n, v["k"], d)
        return None

    def nontrivial(self, case, obs):
        if case.get("kind") == "real":
            return bool(obs["views"]) and obs["views"][0]["stats"]["total"] >= 2 and obs.get("junit_saves", 0) >= 2
        tot = [v["stats"]["total"] for v in obs["views"]]
        return len(set(tot)) >= 2

    def features(self, case, obs):
        if case.get("kind") == "real":
            f = ["real-run", "real-run:strategy=" + case["strategy"], "real-run:backends=" + "+".join(case["backends"]),
                 "real-run:threads=%d" % case["spec"]["nb_threads"]]
            if obs.get("junit_saves", 0) >= 2:
                f.append("real-run:junit-saved-before-the-end")
            return f
        f = ["evaluations=%d" % min(len(obs["views"]), 6), "junit-session=" + str(case.get("junit_session"))]
        tot = [len(desc_tests(v["desc"])) for v in obs["views"]]
        if len(set(tot)) >= 2:
            f.append("tests-added-between-two-evaluations")
        tops = [len(v["desc"]["suites"]) for v in obs["views"]]
        if any(a == b and x != y for a, b, x, y in zip(tops, tops[1:], tot, tot[1:])):
            f.append("tests-added-between-two-evaluations-WITHOUT-new-top-level-suite")
        if obs["session_saves"] and obs["session_saves"][0] < len(case["events"]) - 1:
            f.append("junit-session-saved-before-the-end")
        if any(any(t["res"]["status"] is None for _, t in desc_tests(v["desc"])) for v in obs["views"]):
            f.append("evaluated-while-a-test-is-in-progress")
        return f

    def shrink(self, case):
        if case.get("kind") == "real":
            spec = case["spec"]
            for i in range(len(spec["suites"])):
                if len(spec["suites"]) > 1:
                    yield dict(case, spec=dict(spec, suites=spec["suites"][:i] + spec["suites"][i + 1:]))
            for i, su in enumerate(spec["suites"]):
                if su["subs"]:
                    yield dict(case, spec=dict(spec, suites=spec["suites"][:i] + [dict(su, subs=[])] + spec["suites"][i + 1:]))
                for j in range(len(su["tests"])):
                    if len(su["tests"]) > 1:
                        s2 = dict(su, tests=su["tests"][:j] + su["tests"][j + 1:])
                        yield dict(case, spec=dict(spec, suites=spec["suites"][:i] + [s2] + spec["suites"][i + 1:]))
            if spec["nb_threads"] > 1:
                yield dict(case, spec=dict(spec, nb_threads=1))
            return
        ev = case["events"]
        for n in (len(ev) // 2, len(ev) * 3 // 4, len(ev) - 1):
            if 0 < n < len(ev):
                yield dict(case, events=ev[:n], cuts=sorted({c for c in case["cuts"] if c < n} | {n}))
        for i, e in enumerate(ev):
            if e["e"] in ("testStart", "testSkipped", "testDisabled"):
                pth = e["path"]
                rest = [x for x in ev if not (x.get("path") == pth and x["e"].startswith("test"))
                        and not (x.get("loc", {}).get("path") == pth and x.get("loc", {}).get("k") == "test")]
                if len(rest) < len(ev):
                    # cuts keep their meaning as "after the same event": renumber
                    keep = [j for j, x in enumerate(ev, 1) if x in rest]
                    new_cuts = sorted({sum(1 for j in keep if j <= c) for c in case["cuts"]} - {0} | {len(rest)})
                    yield dict(case, events=rest, cuts=new_cuts)
        if len(case["cuts"]) > 2:
            for c in case["cuts"][:-1]:
                yield dict(case, cuts=[x for x in case["cuts"] if x != c])
        if case.get("junit_session"):
            yield dict(case, junit_session=None)


# ---- lcc diff ------------------------------------------------------------------------------------------

def real_diff(r1, r2):
    from lemoncheesecake.cli.commands.diff import compute_diff
    d = compute_diff(list(r1.all_tests()), list(r2.all_tests()))
    changed = []
    for old, m in d.status_changed.items():
        for new, ts in m.items():
            for t in ts:
                changed.append([t.path, old, new])
    return {"added": sorted([t.path, t.status] for t in d.added), "removed": sorted([t.path, t.status] for t in d.removed),
            "changed": sorted(changed, key=str), "empty": d.is_empty()}


def mutate_report(rng, d):
    """a second report over an overlapping test set: tests dropped / added / with another status, suites dropped"""
    d = copy.deepcopy(R.strip_private(d))
    tx = R.Text(rng, "plain")
    clk = R.Clock(rng, R.T0 + 10**6)
    for s in list(R.iter_suites(d["suites"])):
        keep = []
        names = {t["md"]["name"] for t in s["tests"]}
        for t in s["tests"]:
            r = rng.random()
            if r < 0.2:
                continue
            if r < 0.5:
                t["res"]["status"] = rng.choice([x for x in R.STATUSES + [None] if x != t["res"]["status"]])
            keep.append(t)
        for _ in range(rng.choice([0, 0, 1, 2])):
            keep.insert(rng.randrange(len(keep) + 1), R.gen_test(rng, tx, clk, tx.name(names), 0, {}))
        rng.shuffle(keep)
        s["tests"] = keep
        if s["suites"] and rng.random() < 0.15:
            del s["suites"][rng.randrange(len(s["suites"]))]
    return d


class DiffStream(C.Stream):
    name = "C20.diff"
    quick_cases = 300
    thorough_cases = 6000
    quick_seconds = 20
    thorough_seconds = 200
    chunk = 50
    corpus = []

    def gen(self, rng, i):
        r1 = R.strip_private(R.gen_report(rng, rng.choice(["plain", "safe"]), max_depth=3))
        same = rng.random() < 0.12
        r2 = copy.deepcopy(r1) if same else mutate_report(rng, r1)
        if rng.random() < 0.2:
            r1, r2 = r2, r1
        return {"r1": r1, "r2": r2, "same": same}

    def impl(self, case):
        a, b = R.build_report(case["r1"]), R.build_report(case["r2"])
        return {"diff": real_diff(a, b), "self1": real_diff(a, R.build_report(case["r1"]))}

    def oracle(self, case, obs):
        t1, t2 = desc_tests(case["r1"]), desc_tests(case["r2"])
        fails = []
        if not obs["self1"]["empty"]:
            fails.append(C.Failure("C20/diff/self-not-empty", "the diff of a report with itself is not empty"))
        p1, p2 = [p for p, _ in t1], [p for p, _ in t2]
        if len(set(p1)) != len(p1) or len(set(p2)) != len(p2):
            return fails        # path collisions through '.' in names: outside the oracle (ASSUMPTIONS)
        d1, d2 = dict(t1), dict(t2)
        exp_added = sorted([p, d2[p]["res"]["status"]] for p in d2 if p not in d1)
        exp_removed = sorted([p, d1[p]["res"]["status"]] for p in d1 if p not in d2)
        exp_changed = sorted(([p, d1[p]["res"]["status"], d2[p]["res"]["status"]] for p in d1
                              if p in d2 and d1[p]["res"]["status"] != d2[p]["res"]["status"]), key=str)
        d = obs["diff"]
        if d["added"] != exp_added:
            fails.append(C.Failure("C20/diff/added", f"added {d['added']} expected {exp_added}"))
        if d["removed"] != exp_removed:
            fails.append(C.Failure("C20/diff/removed", f"removed {d['removed']} expected {exp_removed}"))
        if d["changed"] != exp_changed:
            fails.append(C.Failure("C20/diff/status-changed", f"status-changed {d['changed']} expected {exp_changed}"))
        if d["empty"] != (not (exp_added or exp_removed or exp_changed)):
            fails.append(C.Failure("C20/diff/is-empty", "Diff.is_empty() disagrees with its content"))
        return fails

    def request(self, case, obs):
        return {"op": "diff", "r1": R.wire(case["r1"]), "r2": R.wire(case["r2"])}

    def compare(self, case, obs, ans):
        if "error" in ans:
            return "model error: " + ans["error"]
        m = {"added": sorted([R.unwire_str(p), s] for p, s in ans["added"]),
             "removed": sorted([R.unwire_str(p), s] for p, s in ans["removed"]),
             "changed": sorted(([R.unwire_str(p), a, b] for p, a, b in ans["changed"]), key=str), "empty": ans["empty"]}
        d = first_diff(obs["diff"], m)
        return None if d is None else f"diff differs at {d[0]}: real {d[1]!r} model {d[2]!r}"

    def nontrivial(self, case, obs):
        d = obs["diff"]
        return sum(1 for k in ("added", "removed", "changed") if d[k]) >= 2 or case["same"]

    def features(self, case, obs):
        d = obs["diff"]
        return [k for k in ("added", "removed", "changed") if d[k]] + (["same"] if case["same"] else []) + (["empty"] if d["empty"] else [])

    def shrink(self, case):
        for c in R.shrink_desc(case["r1"]):
            yield dict(case, r1=c)
        for c in R.shrink_desc(case["r2"]):
            yield dict(case, r2=c)


# ---- filtered views: `lcc report --short [filter]`, ReportStats.from_suites -------------------------------

PLAIN_PATTERN = re.compile(r"^[A-Za-z0-9_][A-Za-z0-9_ .]*$")     # no fnmatch metacharacter, no negation flag, not an option
LINE = re.compile(r"^ (OK|KO|--) +(\d+) # ", re.M)
LABEL = {"passed": "OK", "failed": "KO"}
STATUS_FLAGS = {"--passed": ["passed"], "--failed": ["failed"], "--skipped": ["skipped"], "--non-passed": ["failed", "skipped"]}


def desc_tests_hier(d):
    """[(names of the hierarchy (list), dotted paths of every node of the hierarchy, test desc)] in any order"""
    out = []

    def go(ss, pre):
        for s in ss:
            p = pre + [s["md"]["name"]]
            for t in s["tests"]:
                names = p + [t["md"]["name"]]
                out.append((names, [".".join(names[:k]) for k in range(1, len(names) + 1)], t))
            go(s["suites"], p)
    go(d["suites"], [])
    return out


def gen_filter(rng, desc):
    """CLI arguments of a result filter whose meaning the oracle can evaluate by itself: status flags, --enabled /
    --disabled, --path with the literal dotted path of a test or of a suite (no wildcard character in it)"""
    tests = desc_tests_hier(desc)
    kinds = ["none", "status", "status", "status", "enabled", "disabled", "path-test", "path-test", "path-suite", "path-suite",
             "path+status", "path+status"]
    if any(t["res"]["status"] is None for _, _, t in tests):
        kinds += ["enabled", "path-suite", "path-suite", "path-test", "none"]      # filters that can keep an in-progress test
    kind = rng.choice(kinds)
    args = []
    if kind in ("status", "path+status"):
        present = {t["res"]["status"] for _, _, t in tests}
        flags = sorted(STATUS_FLAGS)
        if rng.random() < 0.8:
            flags = [f for f in flags if present & set(STATUS_FLAGS[f])] or flags
        args += rng.sample(flags, min(len(flags), rng.choice([1, 1, 2])))
    if kind in ("enabled", "disabled"):
        args.append("--" + kind)
    if kind.startswith("path"):
        cands = []
        for names, hier, t in tests:
            cands += [hier[-1]] if kind == "path-test" else (hier[:-1] if kind == "path-suite" else hier)
        cands = sorted({c for c in cands if PLAIN_PATTERN.match(c)})
        if cands:
            pats = rng.sample(cands, min(len(cands), rng.choice([1, 1, 2])))
            if rng.random() < 0.1:
                pats.append("no_such_suite.no_such_test")
            args += ["--path"] + pats
        elif kind != "path+status":
            args += [rng.choice(sorted(STATUS_FLAGS))]
    return args


def filter_meaning(args):
    statuses, paths, enabled, disabled = set(), [], False, False
    i = 0
    while i < len(args):
        a = args[i]
        i += 1
        if a in STATUS_FLAGS:
            statuses.update(STATUS_FLAGS[a])
        elif a == "--enabled":
            enabled = True
        elif a == "--disabled":
            disabled = True
        elif a == "--path":
            while i < len(args) and not args[i].startswith("--"):
                paths.append(args[i])
                i += 1
    return statuses, paths, enabled, disabled


def accepts(args, hier, status):
    """the filter's meaning on a test, from the documentation of the options (never calls the filter)"""
    statuses, paths, enabled, disabled = filter_meaning(args)
    if paths and not any(h == p for h in hier for p in paths):
        return False
    if statuses and status not in statuses:
        return False
    if enabled and status == "disabled":
        return False
    if disabled and status != "disabled":
        return False
    return True


def parse_short(text):
    text = ANSI.sub("", text)
    labels = [m.group(1) for m in LINE.finditer(text)]
    if "\nStatistics :" not in "\n" + text:
        return {"labels": labels, "summary": None, "none_found": "No test found or no matching test in the report" in text,
                "duration_known": False}
    tail = text[text.rindex("Statistics :"):]
    out = {"tests": None, "successes": None, "failures": None, "skipped": None, "disabled": None}
    for key, label in (("tests", "Tests"), ("successes", "Successes"), ("failures", "Failures"), ("skipped", "Skipped"),
                       ("disabled", "Disabled")):
        m = re.search(r"\* %s: (\d+)" % label, tail)
        if m:
            out[key] = int(m.group(1))
    return {"labels": labels, "summary": out, "none_found": False, "duration_known": "* Duration: n/a" not in tail}


def run_captured(fn):
    buf = io.StringIO()
    try:
        # stderr too: every `cli.main` call runs colorama.init(), which wraps whatever sys.stdout / sys.stderr are at that
        # moment — left in place, the wrappers would nest a little deeper at every call (RecursionError after ~700 calls)
        with contextlib.redirect_stdout(buf), contextlib.redirect_stderr(io.StringIO()):
            ret = fn()
    except (TypeError, IndexError) as e:
        return {"err": type(e).__name__}
    out = parse_short(buf.getvalue())
    if ret not in (None, 0):
        out["ret"] = str(ret)
    return out


class ShortStream(C.Stream):
    """`lcc report --short [filter]` (print_report_as_test_run: filter_suites + ReportStats.from_suites / from_report + _print_summary)
    and `ReportStats.from_suites` itself, on finished AND unfinished reports (in-progress tests, results without end time)."""
    name = "C20.short"
    quick_cases = 300
    thorough_cases = 6000
    quick_seconds = 25
    thorough_seconds = 300
    chunk = 40
    corpus = []

    def setup(self, ctx):
        self.dir = tempfile.mkdtemp(prefix="lccverif-c20s-")

    def teardown(self, ctx):
        shutil.rmtree(self.dir, ignore_errors=True)

    def gen(self, rng, i):
        odd = rng.random() < 0.25
        rep = R.strip_private(R.gen_report(rng, rng.choice(["safe", "plain", "plain"]), odd=odd, none_times=0.01 if odd else 0,
                                           unfinished=0.45, max_depth=3))
        # a snapshot of a run in progress: some test (any position: several worker threads) has not ended yet
        if rng.random() < 0.4:
            running = [t for _, _, t in desc_tests_hier(rep) if t["res"]["status"] in ("passed", "failed")]
            for t in rng.sample(running, min(len(running), rng.choice([1, 1, 2]))):
                t["res"]["end"] = None
                t["res"]["status"] = None
                if t["res"]["steps"] and rng.random() < 0.7:
                    t["res"]["steps"][-1]["end"] = None
            if running:
                rep["end"] = None
        return {"report": rep, "args": gen_filter(rng, rep)}

    def impl(self, case):
        from lemoncheesecake.cli.main import build_cli_args, main as lcc_main
        from lemoncheesecake.filter import make_result_filter
        from lemoncheesecake.reporting import ReportStats
        from lemoncheesecake.reporting.backends.console import print_report_as_test_run
        from lemoncheesecake.reporting.backends.json_ import JsonBackend
        if not getattr(self, "dir", None):
            self.dir = tempfile.mkdtemp(prefix="lccverif-c20s-")
        desc = case["report"]
        args = list(case["args"])
        rep = R.build_report(desc)
        path = os.path.join(self.dir, "report.js")
        flt = make_result_filter(build_cli_args(["report", path, "--short"] + args))
        # the filter's decisions (what C12 is about), shipped to the model
        dec = {"tests": [], "setups": [], "teardowns": []}
        for s in rep.all_suites():
            names = [n.name for n in s.hierarchy]
            for t in s.get_tests():
                if flt(t):
                    dec["tests"].append(names + [t.name])
            if s.suite_setup and flt(s.suite_setup):
                dec["setups"].append(names)
            if s.suite_teardown and flt(s.suite_teardown):
                dec["teardowns"].append(names)
        direct = run_captured(lambda: print_report_as_test_run(rep, flt))
        try:
            st = ReportStats.from_suites(rep.get_suites(), rep.parallelized)
            fs = dict(st.tests_nb_by_status, total=st.tests_nb, enabled=st.tests_enabled_nb, duration_known=st.duration is not None)
        except (TypeError, IndexError) as e:
            fs = {"err": type(e).__name__}
        # the same through the CLI entry point on a saved report file
        cli = None
        try:
            JsonBackend().save_report(path, rep)
            saved = True
        except Exception:
            saved = False
        if saved:
            cli = run_captured(lambda: lcc_main(["report", path, "--short"] + args))
        return {"direct": direct, "cli": cli, "from_suites": fs, "decisions": dec, "truthy": bool(flt),
                "parallelized": bool(rep.parallelized)}

    def _expected(self, case):
        tests = desc_tests_hier(case["report"])
        kept = [(n, h, t) for n, h, t in tests if accepts(case["args"], h, t["res"]["status"])]
        labels = sorted(LABEL.get(t["res"]["status"], "--") for _, _, t in kept)
        c = counts([(None, t) for _, _, t in kept])
        summary = None
        if kept:
            summary = {"tests": c["total"], "successes": c["passed"], "failures": c["failed"],
                       "skipped": c["skipped"] or None, "disabled": c["disabled"] or None}
        return tests, kept, labels, summary

    def oracle(self, case, obs):
        desc = case["report"]
        tests, kept, labels, summary = self._expected(case)
        starts_known = all(r["start"] is not None for r in R.iter_results(desc))
        unfinished = any(r["end"] is None for r in R.iter_results(desc))
        fails = []
        for how in ("direct", "cli"):
            o = obs[how]
            if o is None:
                continue
            what = "print_report_as_test_run" if how == "direct" else "lcc report --short " + " ".join(case["args"])
            if "err" in o:
                if o["err"] == "TypeError" and starts_known and unfinished:
                    fails.append(C.Failure("C20/stats/from-suites-in-progress-raises",
                                           f"{what} raises TypeError on an unfinished report ({len(kept)} tests to display)"))
                elif starts_known:
                    fails.append(C.Failure("C20/short-report/raised", f"{what} raised {o['err']}"))
                continue
            if "ret" in o:
                fails.append(C.Failure("C20/short-report/raised", f"{what} returned {o['ret']}"))
                continue
            if sorted(o["labels"]) != labels:
                fails.append(C.Failure("C20/short-report/lines-differ",
                                       f"{what} displays {sorted(o['labels'])}, the tests the filter accepts give {labels}"))
            if o["summary"] != summary:
                fails.append(C.Failure("C20/short-report/summary-differs",
                                       f"{what}: summary {o['summary']}, enumerating the tests the filter accepts gives {summary}"))
            if (o["summary"] is None) != o["none_found"]:
                fails.append(C.Failure("C20/short-report/no-summary", f"{what}: neither a summary nor the 'no test' message"))
        fs = obs["from_suites"]
        exp = counts([(None, t) for _, _, t in tests])
        if "err" in fs:
            if fs["err"] == "TypeError" and starts_known and unfinished:
                fails.append(C.Failure("C20/stats/from-suites-in-progress-raises",
                                       "ReportStats.from_suites(report.get_suites(), parallelized) raises TypeError on an unfinished report"))
            elif starts_known and tests:
                fails.append(C.Failure("C20/stats/from-suites-raised", f"ReportStats.from_suites raised {fs['err']}"))
        else:
            for k in ("total", "enabled", "passed", "failed", "skipped", "disabled"):
                if fs[k] != exp[k]:
                    fails.append(C.Failure("C20/stats/from-suites-count-differs",
                                           f"ReportStats.from_suites {k}={fs[k]}, enumeration gives {exp[k]}"))
        return fails

    def request(self, case, obs):
        flt = None
        if obs["truthy"]:
            flt = {k: [[R.wire_str(n) for n in p] for p in v] for k, v in obs["decisions"].items()}
        return {"op": "short", "report": R.wire(case["report"]), "filter": flt}

    def compare(self, case, obs, ans):
        if "error" in ans:
            return "model error: " + ans["error"]
        m, o = ans["short"], obs["direct"]
        if "err" in o:
            return f"short report: real raised {o['err']}, the model (repaired code, D34) never raises"
        ml = [LABEL.get(st, "--") for _, st in m["lines"]]
        if ml != o["labels"]:
            return f"short report lines: real {o['labels']} vs model {ml}"
        if m["summary"] != o["summary"]:
            return f"short report summary: real {o['summary']} vs model {m['summary']}"
        if m["duration_known"] != o["duration_known"]:
            return f"short report duration known: real {o['duration_known']} vs model {m['duration_known']}"
        fs = obs["from_suites"]
        if "err" in fs:
            return f"from_suites: real raised {fs['err']}, the model (repaired code, D34) never raises"
        mfs = dict(ans["from_suites"]["stats"], duration_known=ans["from_suites"]["duration_known"])
        if mfs != fs:
            return f"from_suites: real {fs} vs model {mfs}"
        return None

    def nontrivial(self, case, obs):
        tests, kept, _, _ = self._expected(case)
        return len(tests) >= 2 and len({t["res"]["status"] for _, _, t in tests}) >= 2 and bool(case["args"]) and bool(kept)

    def features(self, case, obs):
        tests, kept, _, _ = self._expected(case)
        statuses, paths, enabled, disabled = filter_meaning(case["args"])
        f = ["filter:" + ("none" if not case["args"] else "+".join(
            x for x, on in (("status", statuses), ("path", paths), ("enabled", enabled), ("disabled", disabled)) if on))]
        f.append("kept:" + ("none" if not kept else "all" if len(kept) == len(tests) else "some"))
        if any(t["res"]["status"] is None for _, _, t in kept):
            f.append("in-progress-test-kept")
        if any(t["res"]["status"] is None for _, _, t in tests) and not any(t["res"]["status"] is None for _, _, t in kept):
            f.append("in-progress-test-filtered-out")
        if any(r["end"] is None for r in R.iter_results(case["report"])):
            f.append("unfinished-result")
        f.append("parallelized" if obs["parallelized"] else "sequential")
        f.append("short:" + ("raised" if "err" in obs["direct"] else "no-test" if obs["direct"]["summary"] is None else "summary"))
        f.append("from_suites:" + ("raised" if "err" in obs["from_suites"] else "ok"))
        f.append("cli:" + ("not-saved" if obs["cli"] is None else "raised" if "err" in obs["cli"] else "ok"))
        return f

    def shrink(self, case):
        args = case["args"]
        if args:
            yield dict(case, args=[])
        for c in R.shrink_desc(case["report"]):
            yield dict(case, report=c)


def _short_case(nb_threads, args):
    """a run saved while its last test is running (the demo shape of seeded/C20-6)"""
    T0 = R.T0

    def md(name, rank=0):
        return {"name": name, "desc": "d", "tags": [], "props": [], "links": [], "rank": rank}

    def done(name, rank, t, status):
        steps = [{"desc": "s", "start": t, "end": t + 1, "entries": [{"k": "log", "level": "error" if status == "failed" else "info",
                                                                      "msg": "m", "t": t}]}]
        return {"md": md(name, rank), "res": {"steps": steps, "start": t, "end": t + 1, "status": status, "details": None}}

    running = {"md": md("checkout", 2), "res": {"steps": [], "start": T0 + 6, "end": None, "status": None, "details": None}}
    shop = {"md": md("shop", 0), "start": T0, "end": None, "setup": None, "teardown": None,
            "tests": [done("login", 0, T0 + 1, "passed"), done("search", 1, T0 + 3, "failed"), running], "suites": []}
    account = {"md": md("account", 1), "start": T0 + 7, "end": T0 + 9, "setup": None, "teardown": None,
               "tests": [done("signup", 0, T0 + 7, "passed")], "suites": []}
    return {"report": {"title": "t", "info": [], "nb_threads": nb_threads, "start": T0, "end": None, "saving": None, "setup": None,
                       "teardown": None, "suites": [shop, account]}, "args": args}


def _short_min(args):
    """minimised failing input of seeded/C20-6: a parallelized run saved while one of its two tests is in progress"""
    c = _short_case(2, args)
    shop = c["report"]["suites"][0]
    shop["tests"] = [shop["tests"][0], shop["tests"][2]]
    c["report"]["suites"] = [shop]
    return c


def _d34_min():
    """minimised witness of D34 (fixed): a sequential run saved while its only test is running; the unrepaired
    ReportStats.from_suites(report.get_suites(), False) raised TypeError here"""
    c = _short_case(1, [])
    shop = c["report"]["suites"][0]
    shop["tests"] = [shop["tests"][2]]
    c["report"]["suites"] = [shop]
    return c


ShortStream.corpus = [
    _d34_min(),
    _short_min(["--path", "shop"]),
    _short_min([]),
    _short_case(2, ["--path", "shop"]),            # parallelized: the in-progress test is displayed and must be counted (seeded/C20-6)
    _short_case(2, ["--enabled"]),
    _short_case(1, ["--path", "shop"]),            # sequential: the witness of D34 (from_suites raised on the in-progress last result)
    _short_case(1, ["--passed"]),                  # sequential, the filter drops the in-progress test: fine
    _short_case(1, []),
]


TABLE_OPENS = ("LccModel.Views",)


def tables(ctx):
    """the duration guard of ReportStats.from_suites, by executing it (obligation `fromSuitesTable_agrees`)"""
    from lemoncheesecake.reporting import ReportStats, SuiteResult, TestResult
    singles = [(s, e) for s in (None, 1) for e in (None, 2)]
    shapes = [[]] + [[x] for x in singles]
    shapes += [[(s, 2), (3, e)] for s in (None, 1) for e in (None, 4)]
    shapes += [[(1, 2), (3, None), (5, 6)], [(1, 2), (3, 4), (5, None)], [(1, None), (3, 4), (5, 6)], [(1, None), (3, None)]]
    rows = []
    for par in (False, True):
        for times in shapes:
            suite = SuiteResult("0", "")
            suite.start_time = 0.0
            for i, (st, en) in enumerate(times):
                t = TestResult(str(i), "")
                t.rank = i
                t.start_time = None if st is None else float(st)
                t.end_time = None if en is None else float(en)
                t.status = "passed" if en is not None else None
                suite.add_test(t)
            try:
                stats = ReportStats.from_suites([suite], par)
                out = "FsOutcome.ok %d %d %s" % (stats.tests_nb, stats.tests_nb_by_status["passed"],
                                                 "true" if stats.duration is not None else "false")
            except TypeError:
                out = "FsOutcome.typeError"
            except IndexError:
                out = "FsOutcome.indexError"
            opt = lambda v: "none" if v is None else "some %d" % v
            lean_times = "[" + ", ".join("(%s, %s)" % (opt(a), opt(b)) for a, b in times) + "]"
            rows.append(("(%s, (%s : List (Option Nat × Option Nat)))" % ("true" if par else "false", lean_times), out,
                         "from_suites(parallelized=%s, times=%s) -> %s" % (par, times, out)))
    return [C.Table("fromSuitesTable", "List ((Bool × List (Option Nat × Option Nat)) × FsOutcome)", rows,
                    ("LccModel.Model.FilteredViews",))]


def _inprogress_failed():
    T0 = R.T0
    step = {"desc": "s", "start": T0 + 1, "end": None, "entries": [{"k": "check", "desc": "c", "ok": False, "details": None, "t": T0 + 2}]}
    md = {"name": "t1", "desc": "d", "tags": [], "props": [], "links": [], "rank": 0}
    res = {"steps": [step], "start": T0 + 1, "end": None, "status": None, "details": None}
    t2 = {"md": dict(md, name="t2"), "res": {"steps": [], "start": T0 + 3, "end": T0 + 4, "status": "passed", "details": None}}
    suite = {"md": dict(md, name="s1"), "start": T0, "end": None, "setup": None, "teardown": None,
             "tests": [{"md": md, "res": res}, t2], "suites": []}
    return {"report": {"title": "t", "info": [], "nb_threads": 2, "start": T0, "end": None, "saving": None, "setup": None,
                       "teardown": None, "suites": [suite]}}


ViewsStream.corpus = [_inprogress_failed()]       # D7


def _live_corpus():
    """a failed test (the JUnit session saves under the default strategy: first evaluation of the statistics), then a passed test
    of the SAME top-level suite, then the end of the run (console summary, build_message, final JUnit save)"""
    def md(name, rank=0):
        return {"name": name, "desc": name, "tags": [], "props": [], "links": [], "rank": rank}
    la, t0 = {"k": "test", "path": ["s", "a"]}, 1_600_000_000_000
    ev = [{"e": "sessionStart"}, {"e": "suiteStart", "path": ["s"], "md": md("s")},
          {"e": "testStart", "path": ["s", "a"], "md": md("a")},
          {"e": "stepStart", "loc": la, "desc": "st", "tid": 1},
          {"e": "check", "loc": la, "step": "st", "tid": 1, "desc": "c", "ok": False, "details": "1 is not 2"},
          {"e": "stepEnd", "loc": la, "desc": "st", "tid": 1}, {"e": "testEnd", "path": ["s", "a"]},
          {"e": "testStart", "path": ["s", "b"], "md": md("b", 1)}, {"e": "testEnd", "path": ["s", "b"]},
          {"e": "suiteEnd", "path": ["s"]}, {"e": "sessionEnd"}]
    for i, e in enumerate(ev):
        e["t"] = t0 + 10 * i
    return [{"events": ev, "nb_threads": 1, "cuts": [7, 11], "junit_session": "at_each_failed_test"},
            {"events": ev, "nb_threads": 1, "cuts": [11], "junit_session": "at_each_test"}]


def streams(ctx):
    LiveStream.corpus = _live_corpus()
    return [ViewsStream(), ShortStream(), LiveStream(), DiffStream()]

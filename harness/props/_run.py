"""
Stream `run`: generated projects (harness/run/gen.py) built into REAL suites / fixtures (run/build.py), run by the real
`runner.run_suites` under the recorder (run/observe.py); the observation {project, graph, trace, outcome, report} is
replayed on the Lean run-level acceptor (`lean/drivers/Run.lean`: scheduler M1 × task behaviours M5 over the session
model M3 × writer M4 × grammar — design.d/run-schema.md); the property oracles (run/oracles.py) are evaluated on the
same observation and never consult the model.  Shared by C01–C05, C07, C08, C11 (C14.run, C15): a property module
subclasses `RunStream` and picks profile / oracles / fault injection.
"""
import common as C
from gen import reports as R

from run import gen as G
from run import observe as O
from run import oracles as X

FAULT_TEXT = "backend boom é #42"


def to_records(obs):
    """collapse the raw trace into the acceptor's records (see Model/RunAccept.lean `Rec`)"""
    canon_for_model = O.canon_for_model
    tr = obs["trace"]
    recs = []
    cur = []
    recs.append(["init", cur])
    pending = {}
    for r in tr:
        k = r[0]
        if k == "dispatch":
            cur.append(r[1])
        elif k == "start":
            lab = ["start", r[1], r[2] if len(r) > 2 and isinstance(r[2], int) else 0, False, True, False]
            pending[r[1]] = lab
            recs.append(lab)
        elif k == "ctx":
            if r[1] in pending:
                pending[r[1]][3] = bool(r[2])
        elif k == "mode":
            if r[1] in pending:
                pending[r[1]][4] = (r[2] == "run")
                pending[r[1]][5] = bool(r[3]) if len(r) > 3 else False
        elif k == "fire":
            recs.append(["fire", r[1], R.wire(canon_for_model(r[2]))])
        elif k == "user":
            recs.append(["user", r[1], r[2], r[3]])
        elif k == "finish":
            recs.append(["finish", r[1], r[2]])
            pending.pop(r[1], None)
        elif k == "receive":
            cur = []
            recs.append(["receive", r[1], cur])
        elif k == "interrupt":
            cur = []
            recs.append(["interrupt", cur])
        elif k == "handled":
            recs.append(["handled", r[1]])
        elif k == "backend-raise":
            recs.append(["backend-raise", r[1], r[2] if len(r) > 2 else "Exception"])      # event index, class name
        elif k == "handler-exit":
            recs.append(["handler-exit"])
        elif k in ("hang",):
            pass
    return recs


def canon_report_for_model(rep):
    """real canonical report → what the writer model folds from the blanked events: times 0/None, texts blank"""
    if rep is None:
        return None

    def t(x):
        return None if x is None else 0

    def entry(e):
        e = dict(e, t=0)
        for k in ("msg", "details", "url", "file", "desc"):
            if k in e and e[k] is not None:
                e[k] = ""
        return e

    def step(s):
        return {"desc": s["desc"], "start": t(s["start"]), "end": t(s["end"]), "entries": [entry(e) for e in s["entries"]]}

    def res(r):
        if r is None:
            return None
        return {"steps": [step(s) for s in r["steps"]], "start": t(r["start"]), "end": t(r["end"]), "status": r["status"],
                "details": None if r["details"] is None else ""}

    def md(m):
        return {"name": m["name"], "desc": "", "tags": [], "props": [], "links": [], "rank": m["rank"]}

    def suite(s):
        return {"md": md(s["md"]), "start": t(s["start"]), "end": t(s["end"]), "setup": res(s["setup"]),
                "teardown": res(s["teardown"]), "tests": [{"md": md(x["md"]), "res": res(x["res"])} for x in s["tests"]],
                "suites": [suite(x) for x in s["suites"]]}
    return {"start": t(rep["start"]), "end": t(rep["end"]), "setup": res(rep["setup"]), "teardown": res(rep["teardown"]),
            "suites": [suite(s) for s in rep["suites"]]}


class RunStream(C.Stream):
    name = "run"
    profile = "basic"
    oracles = ("C01",)            # names in run.oracles.ORACLES; "C05" = comparison with the 1-thread run
    threads = (1, 2, 3, 8)
    strategies = ("off", "fifo", "lifo", "random")
    p_interrupt = 0.0             # probability of an injected keyboard interrupt
    p_fault = 0.0                 # probability of a failing reporting backend
    p_both = 0.0                  # probability of a failing reporting backend AND a keyboard interrupt in the same run
    p_files = 0.0                 # probability of REAL file backends + a --save-report strategy attached to the run
    file_backends = ("json",)
    savings = ("at_each_failed_test", "at_each_test", "at_each_log", "at_each_suite")
    p_listeners = 0.0             # probability of further listeners of ONE class with per-instance handler sets (observe.SubsetSession)
    p_base_fault = 0.0            # share of the backend faults that are BaseExceptions and no Exceptions (recorded like any other since fix D42)
    quick_cases = 60
    thorough_cases = 8000
    quick_seconds = 40
    thorough_seconds = 600
    chunk = 20
    corpus = []

    def gen(self, rng, i):
        project = G.gen_project(rng, self.profile)
        project["nb_threads"] = rng.choice(list(self.threads))
        case = {"project": project, "strategy": rng.choice(list(self.strategies)), "gseed": rng.randrange(1 << 24),
                "interrupt": None, "fault": None}
        # one gated run in four holds EVERY task at its start (observe.run_project `start_gates`): the start order of the tasks of a
        # batch is the gate strategy's choice (derived from gseed: no further draw, the generated stream is otherwise unchanged)
        if case["strategy"] != "off" and case["gseed"] % 4 == 0:
            case["start_gates"] = True
        if self.p_files and rng.random() < self.p_files:
            # as `lcc run --reporting json [junit] --save-report <expr>`: the real backends save the report during the run
            case["files"] = {"backends": list(self.file_backends), "saving": rng.choice(list(self.savings))}
        if self.p_listeners and rng.random() < self.p_listeners:
            # 2..3 sessions of one class; the less complete ones tend to come first
            shapes = [rng.choice(O.LISTENER_SHAPES) for _ in range(rng.choice([2, 2, 3]))]
            if rng.random() < 0.5:
                shapes.sort(key=lambda sh: len(O.listener_events(sh)))
            case["listeners"] = shapes
        r = rng.random()
        # p_both: a backend failure AND a keyboard interrupt in the same run (either may come first: the fault's event
        # index and the interrupt's completion count are drawn independently)
        both = r >= self.p_interrupt + self.p_fault and r < self.p_interrupt + self.p_fault + self.p_both
        if r < self.p_interrupt or both:
            if case["strategy"] != "off" and rng.random() < 0.6:
                case["interrupt"] = ["quiescent", rng.randint(1, 6)]
            else:
                case["interrupt"] = ["get", rng.randint(1, 12)]
        if (not case["interrupt"] and r < self.p_interrupt + self.p_fault) or both:
            # the message: usual, EMPTY (str(exception) == "": a bare assert, KeyError()), starting with a line break
            text = rng.choice([FAULT_TEXT, FAULT_TEXT, FAULT_TEXT, "", "\n" + FAULT_TEXT, " "])
            case["fault"] = {"k": rng.randint(0, 40) if not both else rng.randint(0, 25), "cls": rng.choice(O.FAULT_CLASSES), "text": text}
            if self.p_base_fault and rng.random() < self.p_base_fault:
                # GeneratorExit / SystemExit / KeyboardInterrupt raised INSIDE a handler (on the event-handling thread)
                case["fault"]["cls"] = rng.choice(O.BASE_FAULT_CLASSES)
        return case

    def impl(self, case):
        files = case.get("files") or {}
        fkw = dict(file_backends=files.get("backends"), saving=files.get("saving")) if files else {}
        obs = O.run_project(case["project"], strategy=case["strategy"], gate_seed=case["gseed"],
                            interrupt_at=case["interrupt"], backend_fault=case["fault"], listeners=case.get("listeners"),
                            start_gates=bool(case.get("start_gates")), **fkw)
        if ("C05" in self.oracles and not case["interrupt"] and not case["fault"]
                and (case["project"]["nb_threads"] != 1 or case["strategy"] != "off")):
            base = O.run_project(dict(case["project"], nb_threads=1), strategy="off", **fkw)
            obs["baseline"] = {k: base.get(k) for k in ("report", "report_view", "attachments", "outcome", "saved")}
        return obs

    def oracle(self, case, obs):
        view = X.View(case["project"], obs)
        out = []
        for name in self.oracles:
            if name == "C05":
                if obs.get("baseline"):
                    out += X.c05_compare(case["project"], obs["baseline"], obs)
            else:
                out += X.ORACLES[name](case["project"], obs, view)
        return out

    def request(self, case, obs):
        if obs.get("graph") is None:
            return None
        threads = [[int(k), v["parent"]] for k, v in obs.get("threads", {}).items() if v.get("parent") is not None]
        return {"project": case["project"], "graph": obs["graph"], "trace": to_records(obs), "threads": threads}

    def compare(self, case, obs, ans):
        if "error" in ans and "accepted" not in ans:
            return "model error: " + str(ans["error"])
        if not ans["graph_ok"]:
            return "task graph differs from the model's build_tasks: " + str(ans["graph_diff"])[:1500]
        if not ans["wf"]:
            return "task graph of the real build_tasks is not well-formed (no topological levels)"
        if ans["reject"] is not None:
            return f"trace rejected at record {ans['accepted']}: {ans['reject']}"
        out = obs["outcome"]
        if out.get("hang"):
            return None          # the oracles speak about hangs
        if ans["running_left"]:
            return "run ended but the model still has running tasks"
        if not ans["final"] and "returned" in out:
            return "run_suites returned but the scheduler model is not final"
        mres = [r for _, r in ans["results"]]
        ires = [r[0] if r[0] != "none" else None for r in obs["results"]]
        if mres != ires:
            return f"task results differ: model {mres} impl {ires}"
        if "returned" in out and ans["any_failed"] == out["returned"]:
            return f"run returned {out['returned']} but the model's failure flag is {ans['any_failed']}"
        # the two statements of the C07 grammar (Lean acceptor, Python recogniser) must agree on the fired stream
        fired = [r[2] for r in obs["trace"] if r[0] == "fire"]
        py_ok = not X.recognise(fired, case["project"]["nb_threads"], complete="returned" in out)
        lean_ok = ans["grammar_wellformed"] if "returned" in out else ans["grammar_parallel"]
        if case["project"]["nb_threads"] == 1:
            lean_ok = lean_ok and ans["grammar_sequential"]
        if py_ok != lean_ok:
            return f"the two statements of the stream grammar disagree on the fired stream: Lean {lean_ok}, Python {py_ok}"
        rep = canon_report_for_model(obs.get("report"))
        if rep is not None and "returned" in out:
            m = R.unwire(ans["report"])
            if "writer_error" in m:
                return "writer model error: " + m["writer_error"]
            mm = {k: m.get(k) for k in ("start", "end", "setup", "teardown", "suites")}
            if mm != rep:
                return "report folded by the writer model from the fired events differs from the real report"
        return None

    def nontrivial(self, case, obs):
        nt = sum(1 for _ in G.iter_tests(case["project"]))
        bodies = sum(1 for r in obs["trace"] if r[0] == "user" and r[2][0] == "body" and r[3] == "enter")
        return nt >= 2 and bodies >= 1 and obs["nb_events"] >= 8

    def features(self, case, obs):
        f = list(G.features(case["project"]))
        f += ["n=%d" % case["project"]["nb_threads"], "strategy=" + case["strategy"], "outcome=" + sorted(obs["outcome"])[0]]
        if case.get("start_gates"):
            f.append("start-gates")
        if case["interrupt"]:
            f.append("interrupt-" + case["interrupt"][0] + ("-delivered" if any(r[0] == "interrupt" for r in obs["trace"]) else "-missed"))
        if case["fault"]:
            f.append("fault-" + case["fault"]["cls"] + ("-fired" if any(r[0] == "backend-raise" for r in obs["trace"]) else "-not-reached"))
        if case.get("files"):
            f.append("file-backends=" + "+".join(case["files"]["backends"]))
            f.append("save-report=" + case["files"]["saving"])
        if case.get("listeners"):
            sizes = [len(O.listener_events(sh)) for sh in case["listeners"]]
            f.append("listeners-of-one-class=%d" % len(sizes))
            if any(a < b for a, b in zip(sizes, sizes[1:])):
                f.append("less-complete-listener-registered-first")
            if len(set(map(tuple, map(O.listener_events, case["listeners"])))) > 1:
                f.append("listeners-with-different-handler-sets")
        if case["fault"] and case["interrupt"]:
            ks = [r[0] for r in obs["trace"] if r[0] in ("backend-raise", "interrupt")]
            if len(ks) == 2:
                f.append("fault+interrupt:" + ("fault-first" if ks[0] == "backend-raise" else "interrupt-first"))
            else:
                f.append("fault+interrupt:only-" + (ks[0] if ks else "none") + "-happened")
        return f

    def shrink(self, case):
        for q in G.shrink_project(case["project"]):
            yield dict(case, project=q)
        if case["interrupt"]:
            yield dict(case, interrupt=None)
        if case["fault"]:
            yield dict(case, fault=None)
            if case["fault"]["k"] > 0:
                yield dict(case, fault=dict(case["fault"], k=case["fault"]["k"] - 1))
        if case.get("start_gates"):
            yield dict(case, start_gates=False)
        if case["strategy"] != "off":
            yield dict(case, strategy="off", start_gates=False)
        if case.get("files") and case["files"]["saving"] != "at_each_test":
            yield dict(case, files=dict(case["files"], saving="at_each_test"))
        if case.get("listeners") and len(case["listeners"]) > 2:
            for j in range(len(case["listeners"])):
                yield dict(case, listeners=case["listeners"][:j] + case["listeners"][j + 1:])

"""
Stream `run`: generated projects through the REAL `runner.run_suites` under the recorder
(`harness/run/observe.py`), replayed on the Lean run-level acceptor (`drivers/Run.lean`:
scheduler M1 × task behaviours M5 over the session model M3 × writer M4 × grammar), and checked by the
model-independent oracles of `harness/run/oracles.py`.  Shared by C01–C05, C07, C08, C11, C14.run, C15.run.
"""
import common as C
from gen import reports as R


def to_records(obs):
    """collapse the raw trace into the acceptor's records (see Model/RunAccept.lean `Rec`)"""
    from run.observe import canon_for_model
    tr = obs["trace"]
    recs = []
    cur = []
    recs.append(["init", cur])
    pending = {}
    for r in tr:
        k = r[0]
        if k == "dispatch":
            cur.append(r[1])
        elif k == "start":
            lab = ["start", r[1], r[2] if len(r) > 2 and isinstance(r[2], int) else 0, False, True, False]
            pending[r[1]] = lab
            recs.append(lab)
        elif k == "ctx":
            if r[1] in pending:
                pending[r[1]][3] = bool(r[2])
        elif k == "mode":
            if r[1] in pending:
                pending[r[1]][4] = (r[2] == "run")
                pending[r[1]][5] = bool(r[3]) if len(r) > 3 else False
        elif k == "fire":
            recs.append(["fire", r[1], R.wire(canon_for_model(r[2]))])
        elif k == "user":
            recs.append(["user", r[1], r[2], r[3]])
        elif k == "finish":
            recs.append(["finish", r[1], r[2]])
            pending.pop(r[1], None)
        elif k == "receive":
            cur = []
            recs.append(["receive", r[1], cur])
        elif k == "interrupt":
            cur = []
            recs.append(["interrupt", cur])
        elif k == "handled":
            recs.append(["handled", r[1]])
        elif k == "backend-raise":
            recs.append(["backend-raise", r[1]])
        elif k == "handler-exit":
            recs.append(["handler-exit"])
        elif k in ("hang",):
            pass
    return recs


def canon_report_for_model(rep):
    """real canonical report → what the writer model folds from the blanked events: times 0/None, texts blank"""
    if rep is None:
        return None

    def t(x):
        return None if x is None else 0

    def entry(e):
        e = dict(e, t=0)
        for k in ("msg", "details", "url", "file", "desc"):
            if k in e and e[k] is not None:
                e[k] = ""
        return e

    def step(s):
        return {"desc": s["desc"], "start": t(s["start"]), "end": t(s["end"]), "entries": [entry(e) for e in s["entries"]]}

    def res(r):
        if r is None:
            return None
        return {"steps": [step(s) for s in r["steps"]], "start": t(r["start"]), "end": t(r["end"]), "status": r["status"],
                "details": None if r["details"] is None else ""}

    def md(m):
        return {"name": m["name"], "desc": "", "tags": [], "props": [], "links": [], "rank": m["rank"]}

    def suite(s):
        return {"md": md(s["md"]), "start": t(s["start"]), "end": t(s["end"]), "setup": res(s["setup"]),
                "teardown": res(s["teardown"]), "tests": [{"md": md(x["md"]), "res": res(x["res"])} for x in s["tests"]],
                "suites": [suite(x) for x in s["suites"]]}
    return {"start": t(rep["start"]), "end": t(rep["end"]), "setup": res(rep["setup"]), "teardown": res(rep["teardown"]),
            "suites": [suite(s) for s in rep["suites"]]}


class RunStream(C.Stream):
    name = "run"
    profile = "basic"
    oracles = ()              # names of functions in run.oracles taking (project, obs) -> list[Failure]
    quick_cases = 120
    thorough_cases = 2500
    quick_seconds = 45
    thorough_seconds = 500
    chunk = 20
    with_interrupts = False
    with_faults = False
    threads = (1, 1, 2, 3, 4, 8)
    corpus = []

    def gen(self, rng, i):
        from run import gen as G
        p = G.gen_project(rng, self.profile)
        p["nb_threads"] = rng.choice(self.threads)
        case = {"project": p, "strategy": rng.choice(["off", "fifo", "lifo", "random", "random"]),
                "gate_seed": rng.randrange(1 << 30), "interrupt_at": None, "fault": None}
        if self.with_interrupts and rng.random() < 0.6:
            case["interrupt_at"] = ["get", rng.randint(1, 30)]
        if self.with_faults and rng.random() < 0.8:
            from run.observe import FAULT_CLASSES
            case["fault"] = {"k": rng.randint(0, 60), "cls": rng.choice(FAULT_CLASSES), "text": "backend-boom-%d" % rng.randrange(1000)}
        return case

    def impl(self, case):
        from run.observe import run_project
        return run_project(case["project"], strategy=case["strategy"], gate_seed=case["gate_seed"],
                           interrupt_at=case["interrupt_at"], backend_fault=case["fault"])

    def oracle(self, case, obs):
        from run import oracles as O
        fails = []
        for name in self.oracles:
            fails += getattr(O, name)(case["project"], obs)
        return fails

    def request(self, case, obs):
        if obs.get("graph") is None:
            return None
        threads = [[int(k), v["parent"]] for k, v in obs.get("threads", {}).items() if v.get("parent") is not None]
        return {"project": case["project"], "graph": obs["graph"], "trace": to_records(obs), "threads": threads}

    def compare(self, case, obs, ans):
        if "error" in ans and "accepted" not in ans:
            return "model error: " + str(ans["error"])
        if not ans["graph_ok"]:
            return "task graph differs from the model's build_tasks: " + str(ans["graph_diff"])[:1500]
        if not ans["wf"]:
            return "task graph of the real build_tasks is not well-formed (no topological levels)"
        if ans["reject"] is not None:
            return f"trace rejected at record {ans['accepted']}: {ans['reject']}"
        out = obs["outcome"]
        if out.get("hang"):
            return None          # the oracle speaks about hangs
        if ans["running_left"]:
            return "run ended but the model still has running tasks"
        if not ans["final"] and "returned" in out:
            return "run_suites returned but the scheduler model is not final"
        mres = [r for _, r in ans["results"]]
        ires = [r[0] if r[0] != "none" else None for r in obs["results"]]
        if mres != ires:
            return f"task results differ: model {mres} impl {ires}"
        if "returned" in out:
            if ans["any_failed"] == out["returned"]:
                return f"run returned {out['returned']} but the model's failure flag is {ans['any_failed']}"
            if not ans["grammar_wellformed"]:
                return "fired stream is not a well-formed stream of the C07 grammar (Lean acceptor)"
            if case["project"]["nb_threads"] == 1 and not ans["grammar_sequential"]:
                return "1 worker thread but the fired stream is not sequential (Lean acceptor)"
        rep = canon_report_for_model(obs.get("report"))
        if rep is not None and "returned" in out:
            m = R.unwire(ans["report"])
            if "writer_error" in m:
                return "writer model error: " + m["writer_error"]
            mm = {k: m.get(k) for k in ("start", "end", "setup", "teardown", "suites")}
            if mm != rep:
                return "report folded by the writer model from the fired events differs from the real report"
        return None

    def nontrivial(self, case, obs):
        p = case["project"]
        ntests = sum(1 for r in (obs.get("graph") or {"tasks": []})["tasks"] if r["kind"] == "test")
        if ntests < 2:
            return False
        fin = [r[1] for r in obs["trace"] if r[0] == "finish"]
        reordered = fin != sorted(fin)
        return p["nb_threads"] == 1 or reordered or case["interrupt_at"] is not None or case["fault"] is not None

    def features(self, case, obs):
        p = case["project"]
        f = [f"n={p['nb_threads']}", f"strategy={case['strategy']}", "outcome=" + ",".join(sorted(obs["outcome"].keys()))]
        kinds = {r["kind"] for r in (obs.get("graph") or {"tasks": []})["tasks"]}
        f += sorted("task=" + k for k in kinds)
        if p["force_disabled"]:
            f.append("force_disabled")
        if p["stop_on_failure"]:
            f.append("stop_on_failure")
        if any(r[0] == "interrupt" for r in obs["trace"]):
            f.append("interrupt-delivered")
        if any(r[0] == "backend-raise" for r in obs["trace"]):
            f.append("backend-raised")
        fin = [r[1] for r in obs["trace"] if r[0] == "finish"]
        if fin != sorted(fin):
            f.append("completion-order-differs-from-list-order")
        return f

    def shrink(self, case):
        from run import gen as G
        for p in G.shrink_project(case["project"]):
            yield dict(case, project=p)
        if case["interrupt_at"]:
            yield dict(case, interrupt_at=None)
        if case["fault"]:
            yield dict(case, fault=None)
        if case["project"]["nb_threads"] > 1:
            yield dict(case, project=dict(case["project"], nb_threads=1))
        if case["strategy"] != "off":
            yield dict(case, strategy="off")

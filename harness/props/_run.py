"""
Stream `run`: generated projects (harness/run/gen.py) built into REAL suites / fixtures (run/build.py), run by the real
`runner.run_suites` under the recorder (run/observe.py); the observation {project, graph, trace, outcome, report} is what
`lean/drivers/Run.lean` replays (design.d/run-schema.md); the property oracles (run/oracles.py) are evaluated on the same
observation and never consult the model.  Shared by C01–C05, C07, C08, C11 (C14.run, C15): a property module subclasses
`RunStream` and picks profile / oracles / fault injection.
"""
import common as C

from run import gen as G
from run import observe as O
from run import oracles as X

FAULT_TEXT = "backend boom é #42"


def model_trace(obs):
    """the trace as the model generates it: fire events through `canon_for_model` (payload texts blanked)"""
    return [[r[0], r[1], O.canon_for_model(r[2])] if r[0] == "fire" else r for r in obs["trace"]]


class RunStream(C.Stream):
    name = "run"
    profile = "basic"
    oracles = ("C01",)            # names in run.oracles.ORACLES; "C05" = comparison with the 1-thread run
    threads = (1, 2, 3, 8)
    strategies = ("off", "fifo", "lifo", "random")
    p_interrupt = 0.0             # probability of an injected keyboard interrupt
    p_fault = 0.0                 # probability of a failing reporting backend
    quick_cases = 60
    thorough_cases = 600
    quick_seconds = 40
    thorough_seconds = 400
    chunk = 20
    corpus = []

    def gen(self, rng, i):
        project = G.gen_project(rng, self.profile)
        project["nb_threads"] = rng.choice(list(self.threads))
        case = {"project": project, "strategy": rng.choice(list(self.strategies)), "gseed": rng.randrange(1 << 24),
                "interrupt": None, "fault": None}
        r = rng.random()
        if r < self.p_interrupt:
            if case["strategy"] != "off" and rng.random() < 0.6:
                case["interrupt"] = ["quiescent", rng.randint(1, 6)]
            else:
                case["interrupt"] = ["get", rng.randint(1, 12)]
        elif r < self.p_interrupt + self.p_fault:
            case["fault"] = {"k": rng.randint(0, 40), "cls": rng.choice(O.FAULT_CLASSES), "text": FAULT_TEXT}
        return case

    def impl(self, case):
        obs = O.run_project(case["project"], strategy=case["strategy"], gate_seed=case["gseed"],
                            interrupt_at=case["interrupt"], backend_fault=case["fault"])
        if ("C05" in self.oracles and not case["interrupt"] and not case["fault"]
                and (case["project"]["nb_threads"] != 1 or case["strategy"] != "off")):
            base = O.run_project(dict(case["project"], nb_threads=1), strategy="off")
            obs["baseline"] = {k: base.get(k) for k in ("report", "report_view", "attachments", "outcome")}
        return obs

    def oracle(self, case, obs):
        view = X.View(case["project"], obs)
        out = []
        for name in self.oracles:
            if name == "C05":
                if obs.get("baseline"):
                    out += X.c05_compare(case["project"], obs["baseline"], obs)
            else:
                out += X.ORACLES[name](case["project"], obs, view)
        return out

    def request(self, case, obs):
        if obs.get("graph") is None:
            return None
        return {"project": case["project"], "graph": obs["graph"], "trace": model_trace(obs), "outcome": obs["outcome"],
                "report": obs["report"], "threads": obs["threads"], "fx_tokens": obs["fx_tokens"]}

    def compare(self, case, obs, ans):
        if "error" in ans:
            return "model error: " + str(ans["error"])
        if ans.get("reject") is not None:
            return "trace rejected at record %s: %s" % (ans.get("accepted"), ans["reject"])
        return None

    def nontrivial(self, case, obs):
        nt = sum(1 for _ in G.iter_tests(case["project"]))
        bodies = sum(1 for r in obs["trace"] if r[0] == "user" and r[2][0] == "body" and r[3] == "enter")
        return nt >= 2 and bodies >= 1 and obs["nb_events"] >= 8

    def features(self, case, obs):
        f = list(G.features(case["project"]))
        f += ["n=%d" % case["project"]["nb_threads"], "strategy=" + case["strategy"], "outcome=" + sorted(obs["outcome"])[0]]
        if case["interrupt"]:
            f.append("interrupt-" + case["interrupt"][0] + ("-delivered" if any(r[0] == "interrupt" for r in obs["trace"]) else "-missed"))
        if case["fault"]:
            f.append("fault-" + case["fault"]["cls"] + ("-fired" if any(r[0] == "backend-raise" for r in obs["trace"]) else "-not-reached"))
        return f

    def shrink(self, case):
        for q in G.shrink_project(case["project"]):
            yield dict(case, project=q)
        if case["interrupt"]:
            yield dict(case, interrupt=None)
        if case["fault"]:
            yield dict(case, fault=None)
            if case["fault"]["k"] > 0:
                yield dict(case, fault=dict(case["fault"], k=case["fault"]["k"] - 1))
        if case["strategy"] != "off":
            yield dict(case, strategy="off")

"""C03 — fixtures and hooks: set up before use, torn down exactly once after last use."""
import common as C
from props._runcommon import RUN_TRUSTED, RUN_ASSUMPTIONS, PropRunStream
from run import selftest as W
from run import witnesses2 as W2

PROPERTY = "C03"
LEAN_MODULES = ["LccModel.Props.C03", "LccModel.Props.C01Graph", "LccModel.Props.C03Run"]
PROPS_FILES = ["LccModel/Props/C03.lean", "LccModel/Props/C03Run.lean"]
NAMESPACES = {"LccModel/Props/C03.lean": "LccModel.C03", "LccModel/Props/C03Run.lean": "LccModel.C03Run"}
DRIVER = "drivers/Run.lean"
TRUSTED_BASE = RUN_TRUSTED + ["fixture scheduling per scope: C14's Model/Fixture.lean theorems scheduled_only_needed / scheduled_deps_before (tied by C14.validate)"]
ASSUMPTIONS = RUN_ASSUMPTIONS + []
RULE = 'generated project (harness/run/gen.py) × nb_threads 1..8 × gate strategy (off/fifo/lifo/random) forcing completion orders × keyboard interrupt (30 %: at a quiescent point or at the k-th get); non-trivial = ≥ 2 tests, ≥ 1 body entered, ≥ 8 events; distinct = hash of the case (project + schedule parameters); C03 additionally needs ≥ 1 fixture with a dependency edge or two scopes'
EXPLANATION = "Teardown tasks start after the setup task and all consumers (Lean theorems for every valid project and interleaving, a keyboard interrupt at any moment included, via the scheduler's ordering invariant and the exact dependency lists of buildTasks); the per-task setup/teardown loops are executed by the run model that every real run is replayed on; the oracle checks the partial order of setup/use/teardown records with value identities. Accepted real traces are provably executions of the scheduler model (C01Accept.accepted_suite_teardown_after_setup_and_tests, …_suite_end_after_everything_inside, …_session_teardown_after_all_suites)."


def witness(title_prefix):
    """corpus case built from the hand-written witness table of harness/run/selftest.py"""
    for title, sig, project, cfg in W.WITNESSES:
        if title.startswith(title_prefix):
            return {"project": dict(project, nb_threads=cfg["n"]), "strategy": cfg["strategy"], "gseed": cfg["gseed"],
                    "interrupt": cfg["interrupt"], "fault": cfg["fault"]}
    raise KeyError(title_prefix)


class Run(PropRunStream):
    name = "C03.run"
    prop = "C03"
    profile = "basic"
    oracles = ("C03",)
    quick_cases = 330
    quick_seconds = 50
    p_interrupt = 0.3           # interrupted runs are ordinary cases since fix D11 (teardown order holds under interrupt)
    corpus = [witness("D11 "), witness("D19 "), witness("N3 "), witness("D17 ")] + W2.PRE_RUN_CONTROLS


class RunPT(PropRunStream):
    name = "C03.run.perthread"
    prop = "C03"
    profile = "perthread"
    oracles = ("C03",)
    quick_cases = 180
    quick_seconds = 35
    thorough_cases = 4000
    p_interrupt = 0.2
    corpus = [witness("D3' ")]


# ---- the declaration path: inject_fixture attributes wherever they are written, inherited hooks, parametrized variants --------
from props._declrun import DeclRunStream, DECLRUN_TRUSTED, DECLRUN_RULE
from props import _declrun_corpus as DC
from props._decl import DECL_TRUSTED
from props import _inject_table


class DeclRun(DeclRunStream):
    """run-level projects DECLARED as classes (injected fixtures in the class body / a base class / a shared mixin / __init__,
    hooks own or inherited, parametrized groups using fixtures of every scope) and loaded by the real loader"""
    name = "C03.declrun"
    prop = "C03"
    profile = "basic"
    oracles = ("C03",)
    quick_cases = 200
    quick_seconds = 22
    thorough_cases = 2500
    thorough_seconds = 300
    p_interrupt = 0.1
    decl_opts = dict(p_inject_more=0.55, p_base=0.65, p_shared=0.5, p_group=0.4)
    corpus = DC.C03_CORPUS


LEAN_MODULES = LEAN_MODULES + ["LccModel.Props.C03Decl"]
PROPS_FILES = PROPS_FILES + ["LccModel/Props/C03Decl.lean"]
NAMESPACES = dict(NAMESPACES, **{"LccModel/Props/C03Decl.lean": "LccModel.C03Decl"})
TRUSTED_BASE = TRUSTED_BASE + DECL_TRUSTED + DECLRUN_TRUSTED
RULE = RULE + "; " + DECLRUN_RULE
TABLE_OPENS = ("LccModel.SuiteObj",)


def tables(ctx):
    return _inject_table.tables(ctx) + _hooks_table.tables(ctx) + _prerun_table.tables(ctx)


# ---- the hooks in every shape (method / staticmethod / classmethod / lambda / function assigned in __init__ / partial / callable object
#      / imported function) and place (class body / base class / mixin / __init__ / suite module) ----------------------------------------
from props import _hooks, _hooks_table, _prerun_table


class Hooks(_hooks.HooksStream):
    name = "C03.hooks"


LEAN_MODULES = LEAN_MODULES + ["LccModel.Props.C03Hooks", "LccModel.Props.C03PreRun"]
PROPS_FILES = PROPS_FILES + ["LccModel/Props/C03Hooks.lean", "LccModel/Props/C03PreRun.lean"]
NAMESPACES = dict(NAMESPACES, **{"LccModel/Props/C03Hooks.lean": "LccModel.C03Hooks", "LccModel/Props/C03PreRun.lean": "LccModel.C03PreRun"})
TRUSTED_BASE = TRUSTED_BASE + _hooks.HOOKS_TRUSTED
RULE = RULE + "; " + _hooks.HOOKS_RULE


def streams(ctx):
    return [Hooks(), Run(), RunPT(), DeclRun()]

"""C12 — test selection matches the filter, including report-based selection (model M8).

Streams
  C12.glob    model wildcard matcher / grep literal matcher  vs  fnmatch (as filter.py calls it) / re
  C12.filter  generated suite trees (metadata at every level) x generated filter expressions, built through
              the real argparse parser + make_test_filter (or the TestFilter constructor) and applied by
              load_suites_from_project; selected paths, order, kept suites, outcome  vs  the model
  C12.report  a project tree + a report (built programmatically, or produced by really running generated
              suites), saved, loaded through --from-report / the implicit ./report, then report-based criteria

The oracles are written from the property statement on observations of the real code only (brute-force
reference evaluation over the case description + algebraic relations between real selections).
"""
import argparse
import contextlib
import io
import itertools
import os
import re
import shutil
import sys
import tempfile
import warnings

import common as C
from gen import regexes as RX

PROPERTY = "C12"
LEAN_MODULES = ["LccModel.Props.C12", "LccModel.Props.C12Grep", "LccModel.Props.C12Store"]
PROPS_FILES = ["LccModel/Props/C12.lean", "LccModel/Props/C12Grep.lean", "LccModel/Props/C12Store.lean"]
NAMESPACES = {"LccModel/Props/C12.lean": "LccModel.C12", "LccModel/Props/C12Grep.lean": "LccModel.C12",
              "LccModel/Props/C12Store.lean": "LccModel.C12Store"}
DRIVER = "drivers/C12.lean"
TABLE_OPENS = ("LccModel.Filter", "LccModel.Regex (Item Cat)", "LccModel.Regex renaming RE → Rx")
TRUSTED_BASE = [
    "several report-based selections in one process, the report at a path replaced in between (Model/ReportStore.lean: the disk as path -> report "
    "saved last, load_report reads it every time) are tied to the code by C12.rereport (harness/props/_c12seq.py): reports saved over each other "
    "under ONE path by the real JSON / XML backends, selection through make_test_filter + load_suites_from_project, through cli.main(['show', ..]) "
    "and the loader itself",
    "Lean 4.33.0 kernel; axioms of the property theorems ⊆ {propext, Classical.choice, Quot.sound}",
    "hand-written model LccModel/Model/Filter.lean of filter.py, testtree.py (filter/filter_suites/flatten), "
    "cli/utils.load_suites_from_project and make_test_filter; tied to the code by the three streams and six extracted tables",
    "wildcard semantics: the model's fnmatch (translate + the re character-set reader) is validated against Python's "
    "fnmatch by C12.glob (exhaustive small bracket bodies + random), not proved equal to it",
    "--grep: Python's re parser and engine are trusted; the model (LccModel/Model/Regex.lean: a derivative matcher proved "
    "equivalent to a declarative semantics) receives the pattern as Python's own parse tree (re._parser.parse with "
    "IGNORECASE|MULTILINE) converted by harness/gen/regexes.py; fragment: literals, '.', bracket expressions, "
    "\\s \\d \\w and their negations, ^ $ \\A \\Z \\b \\B, groups, |, * + ? {m,n}; validated against re on generated "
    "patterns x texts (C12.glob kind=regex), on every code point < U+3100 for \\s, on ASCII for \\d \\w and case pairs; "
    "patterns outside the fragment / non-ASCII letters with classes are decided by the oracle only",
    "report save/load (json, xml) is the loader's business (C09); C12.report goes through the real save+load",
    "the Python harness harness/props/c12.py (generators, canonicalisation, reference oracle)",
]
ASSUMPTIONS = [
    "text without lone surrogates; sibling tests/suites have distinct names and descriptions (Suite.add_test enforces it)",
    "os.path.normcase is the identity (POSIX), so fnmatch.fnmatch/filter = fnmatchcase (checked by C12.glob on every run)",
    "candidate repair fixes/D9-empty-filter-pattern.diff is applied to the tree under test (on the unrepaired tree the "
    "check reports the D9 witness as a VIOLATION with a replay)",
]
RULE = ("C12.filter/C12.report: a case counts if the filter has >= 1 criterion and selects a proper non-empty subset of the "
        "project's tests; C12.glob: a pattern with >= 1 special character that matches some but not all of its strings; "
        "distinct = hash of the whole case; C12.rereport: a case counts if a round follows a round with ANOTHER report at the same path "
        "and the reference selection of the two reports differs")
EXPLANATION = ("Theorems over all trees / all filters / all reports (LccModel.C12.*) proved in Lean by mutual structural "
               "induction; the executable model is tied to the code by differential streams through the real argument "
               "parser, make_test_filter, filter_suites, load_suites_from_project and the report loader, and by decision "
               "tables extracted by executing the real functions on finite domains.  The report a selection is based on is the one "
               "at the path when the selection is made, also after a new run replaced it in the same process "
               "(C12Store.run_reflects_current_reports, second_selection_uses_second_report; stream C12.rereport).")

NEG_FLAGS = ("-", "^", "~")


# ----------------------------------------------------------------------------------------------
# real code access (lazy: `common` puts LCC_REPO first on sys.path)
# ----------------------------------------------------------------------------------------------

def _lcc():
    import lemoncheesecake.api  # noqa: F401  (must come first: filter.py <-> reporting import cycle)
    import lemoncheesecake.filter as F
    import lemoncheesecake.testtree as T
    import lemoncheesecake.suite.core as SC
    import lemoncheesecake.cli.utils as U
    from lemoncheesecake.project import Project
    from lemoncheesecake.exceptions import UserError
    import lemoncheesecake.reporting as R
    return F, T, SC, U, Project, UserError, R


def cp(s):
    return [ord(c) for c in s]


def enc_node(n):
    return {"name": cp(n["name"]), "desc": cp(n["desc"]), "tags": [cp(t) for t in n["tags"]],
            "props": [[cp(k), cp(v)] for k, v in n["props"]],
            "links": [[cp(u), None if nm is None else cp(nm)] for u, nm in n["links"]],
            "disabled": bool(n["disabled"])}


def enc_tree(t, enc_test):
    return {"node": enc_node(t["node"]), "tests": [enc_test(x) for x in t["tests"]],
            "subs": [enc_tree(s, enc_test) for s in t["subs"]]}


def enc_log(l):
    k = l["kind"]
    if k == "log":
        return {"kind": k, "message": cp(l["message"])}
    if k == "check":
        return {"kind": k, "description": cp(l["description"]),
                "details": None if l["details"] is None else cp(l["details"])}
    if k == "attachment":
        return {"kind": k, "filename": cp(l["filename"]), "description": cp(l["description"])}
    return {"kind": k, "url": cp(l["url"]), "description": cp(l["description"])}


def enc_res(r):
    return {"node": enc_node(r["node"]), "status": r["status"],
            "steps": [{"description": cp(s["description"]), "logs": [enc_log(l) for l in s["logs"]]} for s in r["steps"]]}


def enc_cli(c):
    return {"paths": [cp(p) for p in c["paths"]],
            "descs": [[cp(p) for p in o] for o in c["descs"]],
            "tags": [[cp(p) for p in o] for o in c["tags"]],
            "props": [[[cp(k), cp(v)] for k, v in o] for o in c["props"]],
            "links": [[cp(p) for p in o] for o in c["links"]],
            "enabled": bool(c.get("enabled")), "disabled": bool(c.get("disabled")),
            "passed": bool(c.get("passed")), "failed": bool(c.get("failed")), "skipped": bool(c.get("skipped")),
            "non_passed": bool(c.get("non_passed")),
            "grep": None if grep_pattern(c) is None else cp(grep_pattern(c)),
            "grep_ast": None if not grep_pattern(c) else RX.try_ast(grep_pattern(c)),
            "from_report": bool(c.get("from_report"))}


def grep_pattern(cli):
    """The text given to --grep: `grep_re` is a raw regular expression, `grep` a word that is passed re.escape()d."""
    if cli.get("grep_re") is not None:
        return cli["grep_re"]
    if cli.get("grep") is not None:
        return re.escape(cli["grep"])
    return None


def grep_model_ok(cli, report_trees):
    """Can the Lean model decide this --grep?  (pattern inside the modelled fragment, characters inside the validated
    domain; escaped words always were sent)"""
    if cli.get("grep_re") is None or not cli["grep_re"]:
        return True
    ast = RX.try_ast(cli["grep_re"])
    if ast is None:
        return False
    texts = [x for _, r in walk_tests(report_trees) for x in ref_grepables(r["steps"])]
    return RX.model_can_decide(ast, texts)


def dec(path):
    return "".join(chr(x) for x in path)


def empty_cli():
    return {"paths": [], "descs": [], "tags": [], "props": [], "links": [], "enabled": False, "disabled": False,
            "passed": False, "failed": False, "skipped": False, "non_passed": False, "grep": None, "grep_re": None,
            "from_report": False}


# ----------------------------------------------------------------------------------------------
# building the real objects
# ----------------------------------------------------------------------------------------------

def _set_meta(obj, n):
    obj.tags = list(n["tags"])
    obj.properties = dict((k, v) for k, v in n["props"])
    obj.links = [(u, nm) for u, nm in n["links"]]


def build_suite(t, callbacks=None, prefix=""):
    _, _, SC, _, _, _, _ = _lcc()
    s = SC.Suite(None, t["node"]["name"], t["node"]["desc"])
    _set_meta(s, t["node"])
    s.disabled = t["node"]["disabled"]
    path = prefix + t["node"]["name"]
    for n in t["tests"]:
        cb = (callbacks or {}).get(path + "." + n["name"]) or (lambda: None)
        test = SC.Test(n["name"], n["desc"], cb)
        _set_meta(test, n)
        test.disabled = n["disabled"]
        if n.get("deps"):
            test.dependencies = list(n["deps"])
        s.add_test(test)
    for sub in t["subs"]:
        s.add_suite(build_suite(sub, callbacks, path + "."))
    return s


def make_project(suites, directory):
    _, _, _, _, Project, _, _ = _lcc()

    class _Proj(Project):
        def load_suites(self):
            return suites

    return _Proj(directory)


def cli_argv(cli, report_dir=None):
    """The command line that expresses `cli`, or None when argparse cannot carry it (a multi-valued option
    occurrence containing a value that starts with '-')."""
    argv = []
    every = list(cli["paths"]) + [v for k in ("descs", "tags", "links") for o in cli[k] for v in o] \
        + ["%s:%s" % (k, v) for o in cli["props"] for k, v in o]
    if "--" in every:
        return None                  # argparse drops a bare "--"
    # positional path patterns come first: an option with nargs="+" would swallow them
    if cli["paths"]:
        if any(p.startswith("-") for p in cli["paths"]):
            others = any(cli[k] for k in ("descs", "tags", "props", "links")) or any(
                cli.get(k) for k in ("enabled", "disabled", "passed", "failed", "skipped", "non_passed", "from_report")) \
                or grep_pattern(cli) is not None
            if others:
                return None          # after "--" nothing but positionals can follow
            return ["--"] + list(cli["paths"])
        argv.extend(cli["paths"])

    def occ(flag, values):
        vals = list(values)
        if any(v.startswith("-") for v in vals):
            if len(vals) != 1:
                return False
            argv.append("%s=%s" % (flag, vals[0]))
        else:
            argv.extend([flag] + vals)
        return True

    for o in cli["descs"]:
        if not o or not occ("--desc", o):
            return None
    for o in cli["tags"]:
        if not o or not occ("--tag", o):
            return None
    for o in cli["props"]:
        if not o or not occ("--property", ["%s:%s" % (k, v) for k, v in o]):
            return None
    for o in cli["links"]:
        if not o or not occ("--link", o):
            return None
    for k in ("enabled", "disabled", "passed", "failed", "skipped"):
        if cli.get(k):
            argv.append("--" + k)
    if cli.get("non_passed"):
        argv.append("--non-passed")
    if grep_pattern(cli) is not None:
        argv.append("--grep=" + grep_pattern(cli))
    if cli.get("from_report"):
        argv.extend(["--from-report", report_dir])
    return argv


def parse_cli(argv):
    F = _lcc()[0]
    parser = argparse.ArgumentParser(prog="lcc run")
    F.add_test_filter_cli_args(parser)
    with contextlib.redirect_stderr(io.StringIO()):
        try:
            return parser.parse_args(argv)
        except SystemExit:
            return None


def api_filter(cli):
    F = _lcc()[0]
    return F.TestFilter(paths=cli["paths"], descriptions=cli["descs"], tags=cli["tags"],
                        properties=[[tuple(kv) for kv in o] for o in cli["props"]], links=cli["links"],
                        enabled=bool(cli.get("enabled")), disabled=bool(cli.get("disabled")))


def classify_user_error(e):
    m = str(e)
    if "mutually exclusive" in m:
        return "enabled-and-disabled"
    if "No test is defined" in m:
        return "no-test-defined"
    if "does not match any test" in m:
        return "no-match"
    return "user-error:" + m[:60]


def observe_selection(trees, flt, directory, with_idem=True):
    """load_suites_from_project(project, flt) on freshly built suites -> canonical observation."""
    F, T, SC, U, Project, UserError, R = _lcc()
    suites = [build_suite(t) for t in trees]
    project = make_project(suites, directory)
    try:
        kept = U.load_suites_from_project(project, flt)
    except UserError as e:
        return {"outcome": classify_user_error(e)}
    except Exception as e:  # what the real code raises is part of the observation
        return {"outcome": "raised:" + type(e).__name__}
    obs = {"outcome": "ok",
           "tests": [t.path for t in T.flatten_tests(kept)],
           "suites": [s.path for s in T.flatten_suites(kept)],
           "empty_suites": [s.path for s in T.flatten_suites(kept) if s.is_empty()]}
    if with_idem:
        try:
            again = T.filter_suites(kept, flt) if flt else kept
            obs["idem_tests"] = [t.path for t in T.flatten_tests(again)]
            obs["idem_suites"] = [s.path for s in T.flatten_suites(again)]
        except Exception as e:
            obs["idem_tests"] = "raised:" + type(e).__name__
    return obs


# ----------------------------------------------------------------------------------------------
# reference evaluation (independent of the model and of filter.py): the property, read literally
# ----------------------------------------------------------------------------------------------

def ref_glob(p, s):
    """`*` any text, `?` any character, anything else itself; bracket expressions are delegated to fnmatchcase."""
    if "[" in p:
        import fnmatch
        with warnings.catch_warnings():
            warnings.simplefilter("ignore")
            return fnmatch.fnmatchcase(s, p)
    ok = [True] + [False] * len(s)          # ok[j]: pattern so far matches s[:j]
    for ch in p:
        if ch == "*":
            seen = False
            for j in range(len(s) + 1):
                seen = seen or ok[j]
                ok[j] = seen
        else:
            new = [False] * (len(s) + 1)
            for j in range(len(s)):
                if ok[j] and (ch == "?" or s[j] == ch):
                    new[j + 1] = True
            ok = new
    return ok[len(s)]


def ref_pattern(values, p):
    if p != "" and p[0] in NEG_FLAGS:
        return not any(ref_glob(p[1:], v) for v in values)
    return any(ref_glob(p, v) for v in values)


def ref_option(values, opt):
    return (not opt) or any(ref_pattern(values, p) for p in opt)


def ref_key_option(props, opt):
    if not opt:
        return True
    for k, v in opt:
        if k in props:
            if v != "" and v[0] in NEG_FLAGS:
                if not ref_glob(v[1:], props[k]):
                    return True
            elif ref_glob(v, props[k]):
                return True
    return False


def ref_views(hier):
    names = [n["name"] for n in hier]
    paths = [".".join(names[:i + 1]) for i in range(len(names))]
    descs = [n["desc"] for n in hier]
    tags = [t for n in hier for t in n["tags"]]
    props = {}
    for n in hier:
        for k, v in n["props"]:
            props[k] = v
    links = []
    for n in hier:
        for u, nm in n["links"]:
            links += [u, nm if nm is not None else ""]
    disabled = any(bool(n["disabled"]) for n in hier)
    return paths, descs, tags, props, links, disabled


def ref_base(cli, hier):
    paths, descs, tags, props, links, _ = ref_views(hier)
    return (ref_option(paths, cli["paths"]) and all(ref_option(descs, o) for o in cli["descs"])
            and all(ref_option(tags, o) for o in cli["tags"]) and all(ref_key_option(props, o) for o in cli["props"])
            and all(ref_option(links, o) for o in cli["links"]))


def ref_test_selected(cli, hier):
    disabled = ref_views(hier)[5]
    return (ref_base(cli, hier) and (not cli.get("enabled") or not disabled)
            and (not cli.get("disabled") or disabled))


def walk_tests(trees, anc=()):
    for t in trees:
        here = anc + (t["node"],)
        for x in t["tests"]:
            yield here, x
        yield from walk_tests(t["subs"], here)


def walk_suites(trees, anc=()):
    for t in trees:
        here = anc + (t["node"],)
        yield here, t
        yield from walk_suites(t["subs"], here)


def hpath(hier):
    return ".".join(n["name"] for n in hier)


def flip_ascii(c):
    """Swap the case of an ASCII letter only (the grep model knows no other case pairs)."""
    return c.swapcase() if c.isascii() else c


def upper_ascii(s):
    return "".join(chr(ord(c) - 32) if "a" <= c <= "z" else c for c in s)


def lower_ascii(s):
    return "".join(chr(ord(c) + 32) if "A" <= c <= "Z" else c for c in s)


def ref_grepables(steps):
    for st in steps:
        yield st["description"]
        for l in st["logs"]:
            k = l["kind"]
            if k == "log":
                yield l["message"]
            elif k == "check":
                yield l["description"]
                if l["details"]:
                    yield l["details"]
            elif k == "attachment":
                yield l["filename"]
                yield l["description"]
            else:
                yield l["url"]
                yield l["description"]


def ref_statuses(cli):
    st = set()
    if cli.get("passed"):
        st.add("passed")
    if cli.get("failed") or cli.get("non_passed"):
        st.add("failed")
    if cli.get("skipped") or cli.get("non_passed"):
        st.add("skipped")
    return st


def ref_result_selected(cli, hier, res):
    if not ref_base(cli, hier + (res["node"],)):
        return False
    st = ref_statuses(cli)
    if st and res["status"] not in st:
        return False
    if cli.get("enabled") and res["status"] == "disabled":
        return False
    if cli.get("disabled") and res["status"] != "disabled":
        return False
    if cli.get("grep_re"):
        # the statement: SOME SINGLE grepable item matches the regular expression (Python's re is trusted, each item
        # is searched on its own, with the flags the documentation promises: case-insensitive, multi-line)
        if not RX.search_items(cli["grep_re"], list(ref_grepables(res["steps"]))):
            return False
    elif cli.get("grep_re") is None and cli.get("grep"):
        lit = lower_ascii(cli["grep"])
        if not any(lit in lower_ascii(txt) for txt in ref_grepables(res["steps"])):
            return False
    return True


def ref_report_based(cli):
    return bool(cli.get("from_report") or cli.get("passed") or cli.get("failed") or cli.get("skipped")
                or cli.get("non_passed") or grep_pattern(cli))


def ref_has_criteria(cli):
    return bool(cli["paths"] or cli["descs"] or cli["tags"] or cli["props"] or cli["links"]
                or cli.get("enabled") or cli.get("disabled"))


def ref_expected(case):
    """What the property demands: outcome, selected test paths in order, suites kept."""
    cli, trees, mode = case["cli"], case["suites"], case["mode"]
    all_tests = list(walk_tests(trees))
    if mode == "cli" and cli.get("enabled") and cli.get("disabled"):
        return {"outcome": "enabled-and-disabled"}
    if not all_tests:
        return {"outcome": "no-test-defined"}
    if mode == "cli" and ref_report_based(cli):
        accepted = set()
        for hier, res in walk_tests(case.get("report") or []):
            if ref_result_selected(cli, hier, res):
                accepted.add(hpath(hier + (res["node"],)))
        chosen = [hpath(h + (t,)) in accepted for h, t in all_tests]
        filtering = True
    else:
        filtering = ref_has_criteria(cli)
        chosen = [ref_test_selected(cli, h + (t,)) for h, t in all_tests]
    if not filtering:
        return {"outcome": "ok", "tests": [hpath(h + (t,)) for h, t in all_tests], "suites": None}
    sel = [hpath(h + (t,)) for (h, t), c in zip(all_tests, chosen) if c]
    if not sel:
        return {"outcome": "no-match"}
    selset = set()
    for (h, t), c in zip(all_tests, chosen):
        if c:
            for i in range(len(h)):
                selset.add(tuple(id(n) for n in h[:i + 1]))
    suites = [hpath(h) for h, _ in walk_suites(trees) if tuple(id(n) for n in h) in selset]
    return {"outcome": "ok", "tests": sel, "suites": suites}


def oracle_selection(case, obs, prefix="C12/filter"):
    fails = []
    exp = ref_expected(case)
    out = obs.get("outcome", "")
    if out.startswith("raised:"):
        return [C.Failure("%s-raises/%s" % (prefix, out[7:]),
                          "applying a filter the property quantifies over raised %s instead of selecting %s"
                          % (out[7:], exp.get("tests", exp["outcome"])), {"expected": exp})]
    if out != exp["outcome"]:
        return [C.Failure(prefix + "/outcome", "outcome %s, the property demands %s" % (out, exp["outcome"]),
                          {"expected": exp})]
    if out != "ok":
        return fails
    if sorted(obs["tests"]) != sorted(exp["tests"]):
        fails.append(C.Failure(prefix + "/selection-differs-from-reference",
                               "selected %s, reference evaluation selects %s" % (obs["tests"], exp["tests"]),
                               {"expected": exp}))
    elif obs["tests"] != exp["tests"]:
        fails.append(C.Failure(prefix + "/order-changed", "selected tests are not in project order: %s vs %s"
                               % (obs["tests"], exp["tests"])))
    if exp["suites"] is not None:
        if obs["empty_suites"]:
            fails.append(C.Failure(prefix + "/empty-suite-kept", "empty suites left in the result: %s" % obs["empty_suites"]))
        elif obs["suites"] != exp["suites"]:
            fails.append(C.Failure(prefix + "/hierarchy-changed", "suites of the result %s, expected %s"
                                   % (obs["suites"], exp["suites"])))
    if "idem_tests" in obs and (obs["idem_tests"] != obs["tests"] or obs.get("idem_suites") != obs["suites"]):
        fails.append(C.Failure(prefix + "/not-idempotent", "filtering the result again changed it: %s" % (obs["idem_tests"],)))
    return fails


# ----------------------------------------------------------------------------------------------
# generators
# ----------------------------------------------------------------------------------------------

NAMES = ["a", "b", "c", "ab", "ba", "abc", "x1", "t", "s", "A", "suite", "test_1", "été", "b2"]
DESCS = ["", "foo", "foo bar", "Bar", "a*b", "[x]", "what?", "^neg", "-dash", "déjà", "x", "foo baz", "a.b", "~t"]
TAGS = ["slow", "fast", "db", "ui", "a", "ab", "b", "x*", "[db]", "^odd", "-m", "", "Slow", "t-1"]
PKEYS = ["prio", "owner", "k", "type"]
PVALS = ["high", "low", "me", "you", "1", "10", "", "h*", "^low", "a"]
URLS = ["http://x/1", "http://x/2", "http://bug/12", "ftp://y", "u", ""]
LNAMES = [None, "bug 1", "bug 2", "spec", "", "#12"]
GREP_WORDS = ["foobar", "Error", "timeout", "a.b", "x*y", "(1)", "[z]", "step", "ok", "Timeout in DB", "é", "$^"]


def gen_node(rng, name, desc, rich=0.5, disabled_p=0.12):
    n = {"name": name, "desc": desc, "tags": [], "props": [], "links": [], "disabled": False}
    if rng.random() < rich:
        n["tags"] = rng.sample(TAGS, rng.randint(0, 3))
    if rng.random() < rich * 0.8:
        n["props"] = [[k, rng.choice(PVALS)] for k in rng.sample(PKEYS, rng.randint(0, 2))]
    if rng.random() < rich * 0.7:
        n["links"] = [[rng.choice(URLS), rng.choice(LNAMES)] for _ in range(rng.randint(0, 2))]
    if rng.random() < disabled_p:
        n["disabled"] = rng.choice([True, True, "not ready"])
    return n


def gen_tree(rng, depth, max_tests=3, max_subs=2, names=None, descs=None, dotted=False):
    names = names if names is not None else rng.sample(NAMES, len(NAMES))
    descs = descs if descs is not None else rng.sample(DESCS, len(DESCS))
    name, desc = names.pop(), descs.pop()
    if dotted and rng.random() < 0.5:
        name = name + "." + rng.choice("ab")
    t = {"node": gen_node(rng, name, desc), "tests": [], "subs": []}
    tn, td = rng.sample(NAMES, len(NAMES)), rng.sample(DESCS, len(DESCS))
    ntests = rng.choice([0, 0, 1, 2, 2, 3][:max_tests + 3]) if depth > 0 else rng.randint(0, max_tests)
    for _ in range(min(ntests, max_tests)):
        t["tests"].append(gen_node(rng, tn.pop(), td.pop()))
    if depth > 0:
        sn, sd = rng.sample(NAMES, len(NAMES)), rng.sample(DESCS, len(DESCS))
        for _ in range(rng.randint(0, max_subs)):
            t["subs"].append(gen_tree(rng, depth - 1, max_tests, max_subs, sn, sd))
    return t


def gen_forest(rng, big=False):
    n = rng.randint(1, 3 if big else 2)
    names, descs = rng.sample(NAMES, len(NAMES)), rng.sample(DESCS, len(DESCS))
    dotted = rng.random() < 0.05
    return [gen_tree(rng, rng.randint(0, 3 if big else 2), 3, 2, names, descs, dotted) for _ in range(n)]


def shape_pattern(rng, value):
    """A wildcard pattern aimed at `value` (so that positive and negative outcomes both occur)."""
    r = rng.random()
    v = value
    if r < 0.22 or not v:
        p = v
    elif r < 0.40:
        p = v[:rng.randint(0, len(v))] + "*"
    elif r < 0.52:
        p = "*" + v[rng.randint(0, len(v)):]
    elif r < 0.62:
        i = rng.randrange(len(v))
        p = v[:i] + "?" + v[i + 1:]
    elif r < 0.72:
        i = rng.randrange(len(v))
        c = v[i]
        cls = rng.choice(["[%s]" % c, "[%sz]" % c, "[!%s]" % c, "[a-z]", "[!a-z]", "[%s-%s]" % (c, c), "[0-9]"]) \
            if c not in "]\\-!^[" else "?"
        p = v[:i] + cls + v[i + 1:]
    elif r < 0.80:
        i, j = sorted((rng.randint(0, len(v)), rng.randint(0, len(v))))
        p = "*" + v[i:j] + "*"
    elif r < 0.86:
        p = rng.choice(["*", "?", "??", "*.*", "?*", "**"])
    elif r < 0.93:
        p = rng.choice(["", "[", "[]", "x", "zz", "*z", "a", "[!]", "[a-]"])
    else:
        p = v + rng.choice(["x", "*x", "?"])
    if rng.random() < 0.38:
        p = rng.choice(NEG_FLAGS) + p
    if rng.random() < 0.03:
        p = rng.choice(NEG_FLAGS) + p
    return p


def forest_values(trees):
    paths, descs, tags, props, links = [], [], [], [], []
    for h, s in walk_suites(trees):
        paths.append(hpath(h))
        n = s["node"]
        for n in [s["node"]] + s["tests"]:
            descs.append(n["desc"])
            tags += n["tags"]
            props += [tuple(kv) for kv in n["props"]]
            for u, nm in n["links"]:
                links += [u, nm if nm is not None else ""]
        for t in s["tests"]:
            paths.append(hpath(h) + "." + t["name"])
    return paths, descs, tags, props, links


def gen_filter(rng, trees, allow_flags=True):
    paths, descs, tags, props, links = forest_values(trees)
    cli = empty_cli()
    kinds = rng.sample(["paths", "descs", "tags", "props", "links", "switch"], rng.choice([1, 1, 1, 2, 2, 3]))

    def vals(pool, fallback):
        k = rng.choice([1, 1, 1, 2, 2, 3])
        return [shape_pattern(rng, rng.choice(pool or fallback)) for _ in range(k)]

    for kind in kinds:
        if kind == "paths":
            cli["paths"] = vals(paths, ["a"])
        elif kind == "descs":
            cli["descs"] = [vals(descs, DESCS) for _ in range(rng.choice([1, 1, 2]))]
        elif kind == "tags":
            cli["tags"] = [vals(tags, TAGS) for _ in range(rng.choice([1, 1, 2, 3]))]
        elif kind == "links":
            cli["links"] = [vals(links, URLS) for _ in range(rng.choice([1, 1, 2]))]
        elif kind == "props":
            occs = []
            for _ in range(rng.choice([1, 1, 2])):
                o = []
                for _ in range(rng.choice([1, 1, 2])):
                    k, v = rng.choice(props or [("prio", "high")])
                    if rng.random() < 0.15:
                        k = rng.choice(PKEYS + ["nokey"])
                    o.append([k, shape_pattern(rng, v)])
                occs.append(o)
            cli["props"] = occs
        elif kind == "switch" and allow_flags:
            r = rng.random()
            if r < 0.47:
                cli["enabled"] = True
            elif r < 0.94:
                cli["disabled"] = True
            else:
                cli["enabled"] = cli["disabled"] = True
    return cli


def has_colon(cli):
    return any(":" in k or ":" in v for o in cli["props"] for k, v in o)


# ----------------------------------------------------------------------------------------------
# stream C12.glob
# ----------------------------------------------------------------------------------------------

GLOB_ALPHA = "abcz!-]^[*?\\.AB~&|\né"
REGEX_PROBES = ["", "\n", "er", "42", "er\n42", "er 42", "er\t\t42", "ok", "ok\nup", "up\nok", "OK", "x ok", "ok x", "a", "aab", "b",
                "ab\nb", "er,42", "e r", "_", "a_b c", "\n\n", " ", "okay"]
REGEX_CORPUS = [r"r\s+4", r"r\s4", r"^ok\Z", r"\Aok$", r"[^a-z]4", r"[^a-z]42", r"r\W4", r"r\n4", "r\n4", r"r$\s^4", r"\Aok\Z", r"ok\Z",
                r"\Aup", r"^up", r"ok$", r"a*", r"^", r"$", r"\A", r"\Z", r"^$", r"\A\Z", r"\b", r"\B", r"\bok\b", r"\Bk", r"o\B",
                r"(?:a*)*b", r"(?:^)*a", r"(?:a|^)*b", r"(?:$|a)+b", r"(a?)*$", r"(?:|a)+", r"(^a|b)*c", r"a{2,3}b", r"a{1,2}?b\Z",
                r"[\s,]4", r"r[\s,]+4", r".k", r"r.4", r"[a-c]+b", r"[^\s]k", r"\d\d", r"\D\d", r"\w+\s\w+", r"e\sr", r"A|B",
                r"(ok|up)\n(ok|up)", r"ok|^up$", r"[b-]", r"[]a]", r"[^]a]", r"a\.b|\.", r"\?", r"k\Z|\Ae"]
GLOB_STR_ALPHA = "abcz!-]^[\\.AB~&|\né*?"


class Glob(C.Stream):
    name = "C12.glob"
    quick_cases = 4000
    thorough_cases = 120000
    quick_seconds = 12
    thorough_seconds = 200
    chunk = 250
    corpus = (
        [{"kind": "glob", "pat": p, "strs": ["", "a", "b", "c", "z", "!", "-", "]", "^", "[", "\\", "ab", "a]", "-]"]}
         for p in ["[b-a!]", "[b-a!-z]", "[!b-a]", "[]-a]", "[a-]", "[--a]", "[a\\-z]", "[b-a]", "[!]", "[]", "[!]a]",
                   "[!-a]", "[a-c-e]", "[z-a-c]", "[a-cb-a]", "[!b-ac-d]", "[^a]", "[[a]", "[!!]", "[-]", "[---]",
                   "[a-b-c-d]", "[d-c-b-a]", "[", "[a", "a[", "*", "**", "?", "", "a*", "*a", "*a*", "a?c", "[!a]*"]]
        + [{"kind": "glob-bodies", "n": n} for n in (0, 1, 2, 3, 4)]
        + [{"kind": "grep", "lit": l, "strs": ["", "foobar", "FOOBAR", "xfooBary", "a.b", "axb", "A.B", "x*y", "[Z]", "z"]}
           for l in ["foobar", "FooBar", "a.b", "x*y", "[z]", "", "B"]]
        # regular expressions: the character tables of the model on whole code-point ranges, the anchors, the shapes of
        # the seeded change C12-4 (a match that needs the newline of a join, \\A / \\Z, negated classes), empty-body loops
        + [{"kind": "regex-chars", "pat": p, "upto": n} for p, n in
           [(r"\s", 0x3100), (r"\S", 0x3100), (r"\d", 128), (r"\w", 128), (r"\W", 128), (r"[^\W\d]", 128), ("[A-z]", 128),
            ("[^A-z]", 128), ("k", 128), ("[@-a]", 128), (".", 128), (r"\b.|.\b", 128), (r"^.$", 128)]]
        + [{"kind": "regex", "pat": p, "strs": REGEX_PROBES} for p in REGEX_CORPUS]
        + [{"kind": "regex", "pat": "é+x|^é", "strs": ["é", "e", "xéy", "ééx", "a\né"]}]
    )

    def gen(self, rng, i):
        r = rng.random()
        if r > 0.78:
            return RX.gen_regex_case(rng)
        if r < 0.08:
            lit = rng.choice(GREP_WORDS + ["".join(rng.choice("abAB.*") for _ in range(rng.randint(0, 3)))])
            strs = []
            for _ in range(10):
                base = "".join(rng.choice("abAB.* xy\n") for _ in range(rng.randint(0, 8)))
                if rng.random() < 0.5:
                    k = rng.randint(0, len(base))
                    mid = "".join(flip_ascii(c) if rng.random() < 0.5 else c for c in lit)
                    base = base[:k] + mid + base[k:]
                strs.append(base)
            return {"kind": "grep", "lit": lit, "strs": strs}

        def rs(n, alpha):
            return "".join(rng.choice(alpha) for _ in range(rng.randint(0, n)))
        if r < 0.5:
            pat = rs(8, GLOB_ALPHA)
        elif r < 0.85:
            pat = rs(3, "ab*?") + "[" + rs(6, "abcz!-]^\\-&~") + "]" + rs(3, "ab*?[")
        else:
            pat = rs(10, "ab*?")
        strs = [rs(5, GLOB_STR_ALPHA) for _ in range(10)] + [rs(1, "abcz!-]^[\\") for _ in range(6)]
        # strings derived from the pattern so that matches are frequent
        for _ in range(6):
            s = []
            for ch in pat:
                if ch == "*":
                    s.append(rs(2, "abz"))
                elif ch in "?[":
                    s.append(rng.choice("abcz-!]"))
                elif ch not in "]":
                    s.append(ch)
            strs.append("".join(s))
        return {"kind": "glob", "pat": pat, "strs": strs}

    @staticmethod
    def _bodies(n):
        alpha = "ab!-]c"
        pats = ["[" + "".join(t) + "]" for t in itertools.product(alpha, repeat=n)]
        strs = [""] + list("ab!-]c^[\\z") + ["ab", "a]", "]", "-]", "b]", "!]"]
        return pats, strs

    def impl(self, case):
        import fnmatch
        F = _lcc()[0]
        with warnings.catch_warnings():
            warnings.simplefilter("ignore")
            if case["kind"] == "grep":
                rx = F._make_grep_criterion(re.escape(case["lit"]))
                return {"m": [rx.search(s) is not None for s in case["strs"]]}
            if case["kind"] in ("regex", "regex-chars"):
                rx = F._make_grep_criterion(case["pat"])
                return {"m": [rx.search(s) is not None for s in self._regex_strs(case)]}
            if case["kind"] == "glob-bodies":
                pats, strs = self._bodies(case["n"])
                return {"mm": ["".join("1" if fnmatch.fnmatchcase(s, p) else "0" for s in strs) for p in pats]}
            out, alt = [], []
            for s in case["strs"]:
                try:
                    out.append(fnmatch.fnmatchcase(s, case["pat"]))
                    alt.append([fnmatch.fnmatch(s, case["pat"]), bool(fnmatch.filter([s], case["pat"]))])
                except re.error as e:
                    out.append("re.error")
                    alt.append(["re.error", "re.error"])
            return {"m": out, "entry_points": alt}

    @staticmethod
    def _regex_strs(case):
        return [chr(c) for c in range(case["upto"])] if case["kind"] == "regex-chars" else case["strs"]

    def oracle(self, case, obs):
        fails = []
        if case["kind"] in ("regex", "regex-chars"):
            # the criterion built for --grep is the pattern compiled case-insensitively and multi-line
            ref = re.compile(case["pat"], re.IGNORECASE | re.MULTILINE)
            exp = [ref.search(s) is not None for s in self._regex_strs(case)]
            if exp != obs["m"]:
                bad = [s for s, a, b in zip(self._regex_strs(case), obs["m"], exp) if a != b]
                fails.append(C.Failure("C12/grep/regex-search", "--grep criterion %r differs from re.search (IGNORECASE | "
                                       "MULTILINE) on %r" % (case["pat"], bad[:5])))
            return fails
        if case["kind"] == "grep":
            exp = [lower_ascii(case["lit"]) in lower_ascii(s) for s in case["strs"]]
            if exp != obs["m"]:
                fails.append(C.Failure("C12/grep/literal-containment", "grep %r on %r: %s, expected %s"
                                       % (case["lit"], case["strs"], obs["m"], exp)))
            return fails
        if case["kind"] != "glob":
            return fails
        p = case["pat"]
        for s, m, alt in zip(case["strs"], obs["m"], obs["entry_points"]):
            if alt != [m, m]:
                fails.append(C.Failure("C12/glob/entry-points-differ",
                                       "fnmatch.fnmatch/filter differ from fnmatchcase on %r %r" % (p, s)))
            if "[" not in p and m != "re.error" and m != ref_glob(p, s):
                fails.append(C.Failure("C12/glob/wildcard-semantics", "fnmatch(%r, %r) = %s" % (s, p, m)))
            if m == "re.error":
                fails.append(C.Failure("C12/glob/pattern-rejected", "fnmatch raised re.error on %r" % p))
        return fails

    def request(self, case, obs):
        if case["kind"] in ("regex", "regex-chars"):
            ast = RX.try_ast(case["pat"])
            strs = self._regex_strs(case)
            if ast is None or (case["kind"] == "regex" and not RX.model_can_decide(ast, strs)):
                return None
            return {"op": "regex", "re": ast, "strs": [cp(s) for s in strs]}
        if case["kind"] == "grep":
            return {"op": "grep", "lit": cp(case["lit"]), "strs": [cp(s) for s in case["strs"]]}
        if case["kind"] == "glob-bodies":
            pats, strs = self._bodies(case["n"])
            return {"op": "glob_many", "pats": [cp(p) for p in pats], "strs": [cp(s) for s in strs]}
        return {"op": "glob", "pat": cp(case["pat"]), "strs": [cp(s) for s in case["strs"]]}

    def compare(self, case, obs, ans):
        if "error" in ans:
            return "model error: " + str(ans["error"])
        if case["kind"] == "glob-bodies":
            if ans["mm"] != obs["mm"]:
                pats, _ = self._bodies(case["n"])
                bad = [p for p, a, b in zip(pats, ans["mm"], obs["mm"]) if a != b]
                return "bracket bodies of length %d: model differs on %s" % (case["n"], bad[:10])
            return None
        if case["kind"] == "regex" and "joined" in ans:
            ast = RX.try_ast(case["pat"])
            if ast is not None and not RX.nested_star(ast):
                # the model's answer on the newline-joined texts, and the theorem `search_joinNL` instantiated: for a
                # pattern the model calls line-local, Python's joined search must equal "some text matches"
                pj = RX.search_joined(case["pat"], case["strs"])
                if ans["joined"] != pj:
                    return "joined texts: model %s vs re %s" % (ans["joined"], pj)
                if ans["line_local"] and case["strs"] and pj != any(obs["m"]):
                    return "pattern classified line-local but joined search %s differs from per-text search" % pj
        if case["kind"] == "regex-chars" and ans["m"] != obs["m"]:
            return "pattern %r: model differs on code points %s" % (
                case["pat"], [hex(i) for i, (a, b) in enumerate(zip(ans["m"], obs["m"])) if a != b][:10])
        if ans["m"] != obs["m"]:
            return "model %s vs real %s" % (ans["m"], obs["m"])
        return None

    def nontrivial(self, case, obs):
        if case["kind"] == "glob-bodies":
            return True
        if case["kind"] in ("grep", "regex", "regex-chars"):
            return len(set(obs["m"])) == 2
        return any(c in case["pat"] for c in "*?[") and len(set(map(str, obs["m"]))) >= 2

    def features(self, case, obs):
        if case["kind"] == "regex":
            f = ["regex"]
            ast = RX.try_ast(case["pat"])
            if ast is None:
                return f + ["regex:outside-fragment"]
            kinds = {n["t"] for n in RX._walk(ast)}
            f += ["regex:" + k for k in sorted(kinds & {"set", "any", "bol", "eol", "bos", "eos", "wordb", "alt", "star"})]
            if any(n["t"] == "set" and n["neg"] for n in RX._walk(ast)):
                f.append("regex:negated-class")
            if any(it["k"] == "cat" for n in RX._walk(ast) if n["t"] == "set" for it in n["items"]):
                f.append("regex:category")
            if not RX.model_can_decide(ast, case["strs"]):
                f.append("regex:outside-validated-domain")
            if True in obs["m"]:
                f.append("some-match")
            return f
        if case["kind"] != "glob":
            return [case["kind"]]
        p = case["pat"]
        f = ["glob"]
        if "[" in p and "]" in p[p.index("["):]:
            f.append("class")
            if "-" in p:
                f.append("class-with-hyphen")
            if "[!" in p:
                f.append("class-negated")
        if "*" in p:
            f.append("star")
        if "?" in p:
            f.append("question")
        if True in obs["m"]:
            f.append("some-match")
        return f

    def shrink(self, case):
        if case["kind"] != "glob":
            return
        p = case["pat"]
        for i in range(len(p)):
            yield {"kind": "glob", "pat": p[:i] + p[i + 1:], "strs": case["strs"]}
        for i in range(len(case["strs"])):
            yield {"kind": "glob", "pat": p, "strs": case["strs"][:i] + case["strs"][i + 1:]}


# ----------------------------------------------------------------------------------------------
# stream C12.filter
# ----------------------------------------------------------------------------------------------

def _t(name, **kw):
    n = {"name": name, "desc": "d_" + name, "tags": [], "props": [], "links": [], "disabled": False}
    n.update(kw)
    return n


def _s(name, tests=(), subs=(), **kw):
    return {"node": _t(name, **kw), "tests": list(tests), "subs": list(subs)}


_DEMO = [_s("s", [_t("a", tags=["slow"]), _t("b", props=[["prio", "low"]])],
            [_s("u", [_t("c", links=[["http://bug/1", None]])], [_s("e")], tags=["db"], props=[["prio", "high"]]),
             _s("v", [], [_s("w")])], tags=["ui"]),
         _s("z", [_t("a", disabled=True), _t("y", desc="")], disabled=False)]


def _c(mode="api", **kw):
    c = empty_cli()
    c.update(kw)
    return {"mode": mode, "cli": c, "suites": _DEMO}


class Filter(C.Stream):
    name = "C12.filter"
    quick_cases = 2000
    thorough_cases = 70000
    quick_seconds = 28
    thorough_seconds = 400
    chunk = 100
    corpus = [
        # D9 witnesses (empty pattern string): raise IndexError on the unrepaired tree
        _c("cli", paths=[""]), _c("cli", tags=[[""]]), _c("api", descs=[[""]]), _c("cli", links=[[""]]),
        _c("cli", props=[[["prio", ""]]]), _c("api", tags=[["slow", ""]]),
        # shapes worth keeping
        _c("cli"), _c("api"), _c("cli", paths=["s.u"]), _c("cli", paths=["s.u.*"]), _c("cli", paths=["^s.u*"]),
        _c("api", paths=["-s.u.c"]), _c("cli", tags=[["db"], ["^slow"]]), _c("cli", tags=[["db", "slow"]]),
        _c("cli", props=[[["prio", "^high"]]]), _c("cli", props=[[["prio", "high"]]]), _c("cli", props=[[["nokey", "^x"]]]),
        _c("cli", links=[["^*"]]), _c("cli", links=[[""]]), _c("cli", descs=[["^^neg"]]), _c("cli", enabled=True),
        _c("cli", disabled=True), _c("cli", enabled=True, disabled=True), _c("api", enabled=True, disabled=True),
        _c("cli", paths=["nomatch"]), _c("api", tags=[[]]),
        {"mode": "cli", "cli": empty_cli(), "suites": [_s("only", [], [_s("empty")])]},
    ]

    def setup(self, ctx):
        self.dir = tempfile.mkdtemp(prefix="lccverif-c12-")

    def teardown(self, ctx):
        shutil.rmtree(self.dir, ignore_errors=True)

    def gen(self, rng, i):
        trees = gen_forest(rng, big=rng.random() < 0.3)
        if rng.random() < 0.04:
            cli = empty_cli()
        else:
            cli = gen_filter(rng, trees)
        mode = "cli" if rng.random() < 0.6 else "api"
        if mode == "cli" and (cli_argv(cli) is None or has_colon(cli)) and rng.random() < 0.9:
            mode = "api"
        return {"mode": mode, "cli": cli, "suites": trees}

    # -- real code ---------------------------------------------------------------------------
    def _filter(self, case):
        """-> (filter object | None, rejection | None)"""
        F, T, SC, U, Project, UserError, R = _lcc()
        cli = case["cli"]
        if case["mode"] == "api":
            return api_filter(cli), None
        argv = cli_argv(cli)
        if argv is None:
            return None, "cli-cannot-express"
        args = parse_cli(argv)
        if args is None:
            return None, "cli-rejected"
        got = {"paths": args.path, "descs": args.desc, "tags": args.tag, "links": args.link,
               "props": [[list(kv) for kv in o] for o in args.property]}
        want = {k: cli[k] for k in got}
        if got != want:
            return None, "cli-parsed-differently"
        try:
            return F.make_test_filter(args), None
        except UserError as e:
            return None, classify_user_error(e)

    def impl(self, case):
        F, T, SC, U, Project, UserError, R = _lcc()
        flt, rej = self._filter(case)
        if flt is None:
            return {"outcome": rej}
        d = getattr(self, "dir", None) or tempfile.gettempdir()
        obs = observe_selection(case["suites"], flt, d)
        # the filter called directly on every test of the project, and single-criterion sub-filters
        suites = [build_suite(t) for t in case["suites"]]
        tests = list(T.flatten_tests(suites))

        def run(f):
            try:
                return [bool(f(t)) for t in tests]
            except Exception as e:
                return "raised:" + type(e).__name__
        obs["direct"] = run(flt)
        obs["truthy"] = bool(flt)
        alg = []
        cli = case["cli"]
        kw = {"paths": "paths", "descs": "descriptions", "tags": "tags", "links": "links", "props": "properties"}
        for kind in ("paths", "descs", "tags", "links", "props"):
            occs = [cli["paths"]] if kind == "paths" else cli[kind]
            for o in occs:
                if not o:
                    continue
                wrap = (lambda x: x) if kind == "paths" else (lambda x: [x])
                conv = (lambda x: [tuple(kv) for kv in x]) if kind == "props" else (lambda x: x)
                ent = {"kind": kind, "values": o, "sel": run(F.TestFilter(**{kw[kind]: wrap(conv(o))})), "singles": []}
                for v in o:
                    pat = v[1] if kind == "props" else v
                    if pat[:1] in NEG_FLAGS and pat != "":
                        flipped = pat[1:]
                        ok = not (flipped[:1] in NEG_FLAGS and flipped != "")
                    else:
                        flipped, ok = "^" + pat, True
                    fv = [v[0], flipped] if kind == "props" else flipped
                    one = {"v": v, "sel": run(F.TestFilter(**{kw[kind]: wrap(conv([v]))}))}
                    if ok and flipped != "":
                        one["flip"] = fv
                        one["sel_flip"] = run(F.TestFilter(**{kw[kind]: wrap(conv([fv]))}))
                    ent["singles"].append(one)
                alg.append(ent)
        obs["algebra"] = alg
        return obs

    # -- property ------------------------------------------------------------------------------
    def oracle(self, case, obs):
        out = obs.get("outcome", "")
        if out in ("cli-cannot-express", "cli-rejected", "cli-parsed-differently"):
            return []       # the command line cannot carry this expression: nothing to observe
        fails = oracle_selection(case, obs)
        if out != "ok" and not out.startswith("raised:") and "direct" not in obs:
            return fails
        all_tests = list(walk_tests(case["suites"]))
        direct = obs.get("direct")
        if isinstance(direct, str):
            if not any(f.signature.startswith("C12/filter-raises/") for f in fails):
                fails.append(C.Failure("C12/filter-raises/" + direct[7:], "calling the filter on a test raised " + direct[7:]))
            return fails
        if direct is None:
            return fails
        paths = [hpath(h + (t,)) for h, t in all_tests]
        if out == "ok" and obs.get("truthy") and [p for p, d in zip(paths, direct) if d] != obs["tests"]:
            fails.append(C.Failure("C12/filter/flatten-filter", "tests of the filtered tree %s differ from the tests the "
                                   "filter accepts %s" % (obs["tests"], [p for p, d in zip(paths, direct) if d])))
        # algebraic relations between real selections
        disabled = [ref_views(h + (t,))[5] for h, t in all_tests]
        props = [ref_views(h + (t,))[3] for h, t in all_tests]
        cli = case["cli"]
        conj = [True] * len(all_tests)
        for ent in obs.get("algebra", []):
            if isinstance(ent["sel"], str):
                fails.append(C.Failure("C12/filter-raises/" + ent["sel"][7:], "criterion %s %s raised" % (ent["kind"], ent["values"])))
                return fails
            conj = [a and b for a, b in zip(conj, ent["sel"])]
            union = [False] * len(all_tests)
            for one in ent["singles"]:
                if isinstance(one["sel"], str) or isinstance(one.get("sel_flip"), str):
                    fails.append(C.Failure("C12/filter-raises/IndexError", "pattern %r raised" % (one["v"],)))
                    return fails
                union = [a or b for a, b in zip(union, one["sel"])]
                if "sel_flip" in one:
                    if ent["kind"] == "props":
                        exp = [(one["v"][0] in pr) and not s for pr, s in zip(props, one["sel"])]
                    else:
                        exp = [not s for s in one["sel"]]
                    if exp != one["sel_flip"]:
                        fails.append(C.Failure("C12/filter/negation-not-complement",
                                               "%s %r selects %s, %r selects %s" % (ent["kind"], one["v"], one["sel"],
                                                                                    one["flip"], one["sel_flip"])))
            if union != ent["sel"]:
                fails.append(C.Failure("C12/filter/values-not-ored", "%s %s selects %s, union of its values %s"
                                       % (ent["kind"], ent["values"], ent["sel"], union)))
        if cli.get("enabled"):
            conj = [a and not d for a, d in zip(conj, disabled)]
        if cli.get("disabled"):
            conj = [a and d for a, d in zip(conj, disabled)]
        if conj != direct:
            fails.append(C.Failure("C12/filter/options-not-anded", "the filter accepts %s, the conjunction of its criteria %s"
                                   % (direct, conj)))
        return fails

    def request(self, case, obs):
        if obs.get("outcome") in ("cli-cannot-express", "cli-rejected", "cli-parsed-differently"):
            return None
        return {"op": "select", "mode": case["mode"], "cli": enc_cli(case["cli"]), "report": [],
                "suites": [enc_tree(t, enc_node) for t in case["suites"]]}

    def compare(self, case, obs, ans):
        return compare_selection(obs, ans)

    def nontrivial(self, case, obs):
        if obs.get("outcome") != "ok" or not ref_has_criteria(case["cli"]):
            return False
        total = sum(1 for _ in walk_tests(case["suites"]))
        return 0 < len(obs["tests"]) < total

    def features(self, case, obs):
        return selection_features(case, obs)

    def shrink(self, case):
        yield from shrink_selection(case)


# ----------------------------------------------------------------------------------------------
# C12.dirload (fifth seeded round): the project is WRITTEN as a suites directory — a module per suite (`SUITE = {description,
# tags, properties, links, rank}` + test functions), its sub-suites either as modules of the companion directory `<suite>/` or as
# nested classes — loaded by the real `Project(dir).load_suites()` (= `load_suites_from_directory`) and filtered by the real
# `load_suites_from_project(project, filter)`.  What a test inherits from its enclosing suites therefore comes through the
# loader: a module that only carries the metadata of its suite (no test of its own, all tests in `<suite>/*.py`) included.
# ----------------------------------------------------------------------------------------------

def _deco_meta(n, ind):
    out = []
    if n["tags"]:
        out.append(ind + "@lcc.tags(%s)" % ", ".join(repr(t) for t in n["tags"]))
    for k, v in n["props"]:
        out.append(ind + "@lcc.prop(%r, %r)" % (k, v))
    for u, nm in n["links"]:
        out.append(ind + "@lcc.link(%r, %r)" % (u, nm))
    if n["disabled"]:
        out.append(ind + ("@lcc.disabled()" if n["disabled"] is True else "@lcc.disabled(%r)" % n["disabled"]))
    return out


def _tests_src(tests, ind, method):
    out = []
    for i, n in enumerate(tests):
        out.append(ind + "@lcc.test(%r, name=%r)" % (n["desc"], n["name"]))
        out += _deco_meta(n, ind)
        out += [ind + "def t%d(%s):" % (i, "self" if method else ""), ind + "    pass", ""]
    return out


def _class_src(t, ind, i):
    n = t["node"]
    out = [ind + "@lcc.suite(%r, name=%r)" % (n["desc"], n["name"])] + _deco_meta(n, ind) + [ind + "class S%d:" % i]
    body = _tests_src(t["tests"], ind + "    ", True)
    for j, sub in enumerate(t["subs"]):
        body += _class_src(sub, ind + "    ", j)
    return out + (body or [ind + "    pass"]) + [""]


def render_dir_project(trees, root):
    """root/<name>.py per tree (+ root/<name>/ for sub-suites written as modules)"""
    os.makedirs(root, exist_ok=True)
    for rank, t in enumerate(trees):
        n = t["node"]
        ents = ["'description': %r" % n["desc"], "'rank': %d" % rank]
        if n["tags"]:
            ents.append("'tags': %r" % list(n["tags"]))
        if n["props"]:
            ents.append("'properties': {%s}" % ", ".join("%r: %r" % (k, v) for k, v in n["props"]))
        if n["links"]:
            ents.append("'links': [%s]" % ", ".join(repr(u) if nm is None else repr((u, nm)) for u, nm in n["links"]))
        lines = ["# -*- coding: utf-8 -*-", "import lemoncheesecake.api as lcc", "", "SUITE = {%s}" % ", ".join(ents), ""]
        lines += _tests_src(t["tests"], "", False)
        if t.get("how", "dir") == "class":
            for j, sub in enumerate(t["subs"]):
                lines += _class_src(sub, "", j)
        elif t["subs"]:
            render_dir_project(t["subs"], os.path.join(root, n["name"]))
        with open(os.path.join(root, n["name"] + ".py"), "w", encoding="utf-8") as fh:
            fh.write("\n".join(lines) + "\n")


def normalise_for_directory(t, module=True, rng=None, p_class=0.35):
    """the same tree in the form a suites directory can declare: a module suite cannot be disabled, an empty description is
    replaced by the decorators' default, sub-suites are written as modules of the companion directory or as nested classes"""
    def node(n, mod):
        n = dict(n, desc=n["desc"] if n["desc"] != "" else "no description")
        if mod:
            n["disabled"] = False
        return n
    how = "dir" if module and (rng is None or rng.random() >= p_class) else "class"
    if not module:
        how = "class"
    subs = [normalise_for_directory(s, how == "dir", rng, p_class) for s in t["subs"]]
    if how == "dir":
        # a module / directory suite without any test below is not part of the loaded project (the loader drops it)
        subs = [s for s in subs if _has_tests(s)]
    return {"node": node(t["node"], module), "tests": [node(x, False) for x in t["tests"]], "how": how, "subs": subs}


def _has_tests(t):
    return bool(t["tests"]) or any(_has_tests(s) for s in t["subs"])


def dir_features(trees, out, depth=0):
    for t in trees:
        if t.get("how", "dir") == "dir" and t["subs"]:
            out.add("module+companion-directory")
            if not t["tests"]:
                out.add("metadata-only-module+companion-directory")
                n = t["node"]
                if n["tags"] or n["props"] or n["links"]:
                    out.add("metadata-only-module-with-inheritable-metadata")
        if t.get("how") == "class" and t["subs"]:
            out.add("nested-classes")
        dir_features(t["subs"], out, depth + 1)


class DirLoad(Filter):
    name = "C12.dirload"
    quick_cases = 500
    thorough_cases = 6000
    quick_seconds = 14
    thorough_seconds = 100
    chunk = 50
    corpus = [
        # minimised failing input of the seeded change C12-11: api.py holds only SUITE metadata, the tests live in api/users.py
        {"mode": "cli", "cli": dict(empty_cli(), tags=[["api"]]), "suites": [
            _s("api", [], [dict(_s("users", [_t("create"), _t("delete", tags=["slow"])]), how="dir")], tags=["api"], how="dir"),
            dict(_s("tools", [_t("noop")]), how="dir")]},
        {"mode": "cli", "cli": dict(empty_cli(), tags=[["^api"]]), "suites": [
            _s("api", [], [dict(_s("users", [_t("create")]), how="dir")], tags=["api"], how="dir"), dict(_s("tools", [_t("noop")]), how="dir")]},
        {"mode": "api", "cli": dict(empty_cli(), props=[[["layer", "rest"]]], links=[["bug*"]], descs=[["The API"]]), "suites": [
            _s("api", [], [dict(_s("v1", [], [dict(_s("users", [_t("create", tags=["slow"])]), how="dir")], how="dir"))],
               desc="The API", props=[["layer", "rest"]], links=[["http://x/1", "bug 1"]], how="dir"),
            dict(_s("tools", [_t("noop", props=[["layer", "rest"]])]), how="dir")]},
        {"mode": "cli", "cli": dict(empty_cli(), tags=[["db"], ["^slow"]]), "suites": [
            _s("s", [_t("a", tags=["slow"])], [_s("u", [_t("c")], [_s("w", [_t("d", tags=["slow"])], how="class")], tags=["db"], how="class")],
               tags=["ui"], how="class")]},
    ]

    def gen(self, rng, i):
        n = rng.randint(1, 3)
        names, descs = rng.sample(NAMES, len(NAMES)), rng.sample(DESCS, len(DESCS))
        trees = [normalise_for_directory(gen_tree(rng, rng.randint(1, 3), 3, 2, names, descs, False), True, rng) for _ in range(n)]
        trees = [t for t in trees if _has_tests(t)]
        if trees and rng.random() < 0.5:
            # a suite whose module only carries metadata: its tests move into a sub-suite of the companion directory
            t = rng.choice(trees)
            if t["tests"] and t["how"] == "dir":
                free = [x for x in NAMES if x not in [s["node"]["name"] for s in t["subs"]]]
                t["subs"].append({"node": gen_node(rng, rng.choice(free), "moved %d" % i, disabled_p=0), "tests": t["tests"], "subs": [], "how": "dir"})
                t["subs"][-1]["node"]["disabled"] = False
                t["tests"] = []
        cli = empty_cli() if rng.random() < 0.04 else gen_filter(rng, trees)
        mode = "cli" if rng.random() < 0.6 else "api"
        if mode == "cli" and (cli_argv(cli) is None or has_colon(cli)) and rng.random() < 0.9:
            mode = "api"
        return {"mode": mode, "cli": cli, "suites": trees}

    def impl(self, case):
        F, T, SC, U, Project, UserError, R = _lcc()
        from lemoncheesecake.suite import builder
        flt, rej = self._filter(case)
        if flt is None:
            return {"outcome": rej}
        top = os.path.realpath(tempfile.mkdtemp(prefix="lccverif-c12dir-"))
        old_dwb = sys.dont_write_bytecode
        sys.dont_write_bytecode = True
        try:
            render_dir_project(case["suites"], os.path.join(top, "suites"))
            builder._objects_with_metadata.clear()
            try:
                kept = U.load_suites_from_project(Project(top), flt)
            except UserError as e:
                return {"outcome": classify_user_error(e)}
            except Exception as e:
                return {"outcome": "raised:" + type(e).__name__, "message": str(e)[:300]}
            return {"outcome": "ok", "tests": [t.path for t in T.flatten_tests(kept)],
                    "suites": [s.path for s in T.flatten_suites(kept)],
                    "empty_suites": [s.path for s in T.flatten_suites(kept) if s.is_empty()],
                    "inherited": [[t.path, sorted(t.hierarchy_tags), sorted(map(list, t.hierarchy_properties.items()))]
                                  for t in T.flatten_tests(kept)]}
        finally:
            sys.dont_write_bytecode = old_dwb
            for k in [k for k in sys.modules if isinstance(k, str) and k.startswith(top)]:
                del sys.modules[k]
            builder._objects_with_metadata.clear()
            shutil.rmtree(top, ignore_errors=True)

    def oracle(self, case, obs):
        out = obs.get("outcome", "")
        if out in ("cli-cannot-express", "cli-rejected", "cli-parsed-differently"):
            return []
        return oracle_selection(case, obs, prefix="C12/dirload")

    def nontrivial(self, case, obs):
        feats = set()
        dir_features(case["suites"], feats)
        return Filter.nontrivial(self, case, obs) and "module+companion-directory" in feats

    def features(self, case, obs):
        feats = set()
        dir_features(case["suites"], feats)
        return sorted(set(selection_features(case, obs)) | {"dir:" + f for f in feats})


def compare_selection(obs, ans):
    if "error" in ans:
        return "model error: " + str(ans["error"])
    if ans["outcome"] != obs.get("outcome"):
        return "outcome: model %s vs real %s" % (ans["outcome"], obs.get("outcome"))
    if ans["outcome"] != "ok":
        return None
    mt, ms = [dec(p) for p in ans["tests"]], [dec(p) for p in ans["suites"]]
    if mt != obs["tests"]:
        return "selected tests: model %s vs real %s" % (mt, obs["tests"])
    if ms != obs["suites"]:
        return "kept suites: model %s vs real %s" % (ms, obs["suites"])
    return None


def selection_features(case, obs):
    cli = case["cli"]
    f = ["mode=" + case["mode"], "outcome=" + str(obs.get("outcome", "")).split(":")[0]]
    for k in ("paths", "descs", "tags", "props", "links"):
        if cli[k]:
            f.append("crit=" + k)
            occs = [cli[k]] if k == "paths" else cli[k]
            if len(occs) > 1:
                f.append("repeated-option")
            if any(len(o) > 1 for o in occs):
                f.append("multi-valued-option")
            pats = [(v[1] if k == "props" else v) for o in occs for v in o]
            if any(p[:1] in NEG_FLAGS and p for p in pats):
                f.append("negated")
            if any("[" in p for p in pats):
                f.append("bracket")
            if any(p == "" for p in pats):
                f.append("empty-pattern")
    for k in ("enabled", "disabled", "passed", "failed", "skipped", "non_passed", "from_report"):
        if cli.get(k):
            f.append("flag=" + k)
    if grep_pattern(cli):
        f.append("flag=grep")
    depth = max([len(h) for h, _ in walk_suites(case["suites"])] or [0])
    f.append("depth=%d" % depth)
    ntests = sum(1 for _ in walk_tests(case["suites"]))
    f.append("tests<=3" if ntests <= 3 else "tests<=8" if ntests <= 8 else "tests>8")
    if any(not t["tests"] and not t["subs"] for _, t in walk_suites(case["suites"])):
        f.append("has-empty-suite")
    if obs.get("outcome") == "ok" and len(obs["suites"]) < sum(1 for _ in walk_suites(case["suites"])):
        f.append("suite-dropped")
    return sorted(set(f))


def _shrink_trees(trees):
    for i in range(len(trees)):
        yield trees[:i] + trees[i + 1:]
    for i, t in enumerate(trees):
        for j in range(len(t["tests"])):
            yield trees[:i] + [dict(t, tests=t["tests"][:j] + t["tests"][j + 1:])] + trees[i + 1:]
        for sub in _shrink_trees(t["subs"]):
            yield trees[:i] + [dict(t, subs=sub)] + trees[i + 1:]
        n = t["node"]
        for k, empty in (("tags", []), ("props", []), ("links", []), ("disabled", False)):
            if n[k]:
                yield trees[:i] + [dict(t, node=dict(n, **{k: empty}))] + trees[i + 1:]


def shrink_selection(case):
    cli = case["cli"]
    for k in ("paths", "descs", "tags", "props", "links"):
        if cli[k]:
            yield dict(case, cli=dict(cli, **{k: []}))
            for i in range(len(cli[k])):
                yield dict(case, cli=dict(cli, **{k: cli[k][:i] + cli[k][i + 1:]}))
            if k != "paths":
                for i, o in enumerate(cli[k]):
                    for j in range(len(o)):
                        if len(o) > 1:
                            yield dict(case, cli=dict(cli, **{k: cli[k][:i] + [o[:j] + o[j + 1:]] + cli[k][i + 1:]}))
    for k in ("enabled", "disabled", "passed", "failed", "skipped", "non_passed"):
        if cli.get(k):
            yield dict(case, cli=dict(cli, **{k: False}))
    if cli.get("grep") is not None:
        yield dict(case, cli=dict(cli, grep=None))
    if cli.get("grep_re") is not None:
        yield dict(case, cli=dict(cli, grep_re=None))
    for trees in _shrink_trees(case["suites"]):
        yield dict(case, suites=trees)
    if case.get("report"):
        for trees in _shrink_trees(case["report"]):
            yield dict(case, report=trees)
        for trees in _shrink_steps(case["report"]):
            yield dict(case, report=trees)


def _shrink_steps(trees):
    """Smaller report contents: a step removed, a log entry removed (what --grep looks at)."""
    for i, t in enumerate(trees):
        for j, r in enumerate(t["tests"]):
            def put(steps):
                return trees[:i] + [dict(t, tests=t["tests"][:j] + [dict(r, steps=steps)] + t["tests"][j + 1:])] + trees[i + 1:]
            st = r["steps"]
            for k in range(len(st)):
                yield put(st[:k] + st[k + 1:])
            for k, step in enumerate(st):
                for m in range(len(step["logs"])):
                    yield put(st[:k] + [dict(step, logs=step["logs"][:m] + step["logs"][m + 1:])] + st[k + 1:])
        for sub in _shrink_steps(t["subs"]):
            yield trees[:i] + [dict(t, subs=sub)] + trees[i + 1:]


# ----------------------------------------------------------------------------------------------
# stream C12.report
# ----------------------------------------------------------------------------------------------

def gen_steps(rng, status):
    steps = []
    for _ in range(rng.choice([0, 1, 1, 2])):
        logs = []
        for _ in range(rng.randint(0, 3)):
            r = rng.random()
            w = rng.choice(GREP_WORDS)
            txt = rng.choice(["", "got ", "see "]) + (upper_ascii(w) if rng.random() < 0.3 else w) + rng.choice(["", " end", "\nline2"])
            if r < 0.4:
                logs.append({"kind": "log", "level": "error" if status == "failed" and rng.random() < 0.5 else "info", "message": txt})
            elif r < 0.65:
                logs.append({"kind": "check", "description": txt, "ok": status != "failed" or rng.random() < 0.5,
                             "details": rng.choice([None, "", "got 1", rng.choice(GREP_WORDS)])})
            elif r < 0.82:
                logs.append({"kind": "url", "url": rng.choice(URLS[:4]) + rng.choice(["", "/" + w]), "description": rng.choice(["", txt])})
            else:
                logs.append({"kind": "attachment", "filename": "attachments/" + rng.choice(["f.txt", w + ".log"]),
                             "description": rng.choice(["", txt])})
        steps.append({"description": rng.choice(["Step", "step one", rng.choice(GREP_WORDS), ""]), "logs": logs})
    return steps


def derive_report(rng, trees):
    """A report a previous run of (a variant of) the project could have produced: same shape with some tests
    missing (filtered run), some extra (since removed from the project), some metadata changed, any status."""
    def res_of(n):
        node = dict(n, disabled=False)
        if rng.random() < 0.15:
            node = gen_node(rng, n["name"], n["desc"], rich=0.8, disabled_p=0)
        st = rng.choice(["passed", "passed", "failed", "failed", "skipped", "disabled", None if rng.random() < 0.3 else "passed"])
        if n["disabled"] and rng.random() < 0.7:
            st = "disabled"
        return {"node": node, "status": st, "steps": gen_steps(rng, st) if st in ("passed", "failed", None) else []}

    def conv(t):
        tests = [res_of(n) for n in t["tests"] if rng.random() < 0.88]
        if rng.random() < 0.15:
            used = {n["name"] for n in t["tests"]}
            free = [x for x in NAMES if x not in used]
            if free:
                nm = rng.choice(free)
                tests.append(res_of(gen_node(rng, nm, "extra " + nm)))
        node = dict(t["node"], disabled=False)
        if rng.random() < 0.1:
            node = gen_node(rng, node["name"], node["desc"], rich=0.8, disabled_p=0)
        subs = [conv(s) for s in t["subs"] if rng.random() < 0.9]
        return {"node": node, "tests": tests, "subs": subs}

    out = [conv(t) for t in trees if rng.random() < 0.95]
    # the writer never records a suite without any result; keep a few anyway (hand-made reports may have them)
    return out


def build_report(res_trees):
    F, T, SC, U, Project, UserError, R = _lcc()
    from lemoncheesecake.reporting.report import Report, SuiteResult, TestResult, Step, Log, Check, Url, Attachment
    t0 = [1600000000.0]

    def now():
        t0[0] += 0.125
        return t0[0]

    def mk_suite(t):
        s = SuiteResult(t["node"]["name"], t["node"]["desc"])
        _set_meta(s, t["node"])
        s.start_time = now()
        for r in t["tests"]:
            tr = TestResult(r["node"]["name"], r["node"]["desc"])
            _set_meta(tr, r["node"])
            tr.start_time = now()
            for st in r["steps"]:
                step = Step(st["description"])
                step.start_time = now()
                for l in st["logs"]:
                    k = l["kind"]
                    if k == "log":
                        step.add_log(Log(l.get("level", "info"), l["message"], now()))
                    elif k == "check":
                        step.add_log(Check(l["description"], bool(l.get("ok", True)), l["details"], now()))
                    elif k == "url":
                        step.add_log(Url(l["description"], l["url"], now()))
                    else:
                        step.add_log(Attachment(l["description"], l["filename"], False, now()))
                step.end_time = now()
                tr.add_step(step)
            tr.status = r["status"]
            tr.end_time = now() if r["status"] is not None else None
            s.add_test(tr)
        for sub in t["subs"]:
            s.add_suite(mk_suite(sub))
        s.end_time = now()
        return s

    rep = Report()
    rep.start_time = now()
    for t in res_trees:
        rep.add_suite(mk_suite(t))
    rep.end_time = now()
    rep.saving_time = now()
    return rep


def canon_report(report):
    """The loaded (or produced) Report object as the model's result tree."""
    from lemoncheesecake.reporting.report import Log, Check, Url, Attachment

    def node(x):
        # None -> "" exactly where filter.py itself does `value or ""` (descriptions, tags, link urls);
        # link names stay None (the model converts them); property values are never None here (see gen)
        return {"name": x.name, "desc": x.description or "", "tags": [t or "" for t in x.tags],
                "props": [[k, v] for k, v in x.properties.items()],
                "links": [[u or "", nm] for u, nm in x.links], "disabled": False}

    def log(l):
        if isinstance(l, Log):
            return {"kind": "log", "message": l.message}
        if isinstance(l, Check):
            return {"kind": "check", "description": l.description, "details": l.details}
        if isinstance(l, Url):
            return {"kind": "url", "url": l.url, "description": l.description}
        return {"kind": "attachment", "filename": l.filename, "description": l.description}

    def suite(s):
        return {"node": node(s),
                "tests": [{"node": node(t), "status": t.status,
                           "steps": [{"description": st.description, "logs": [log(l) for l in st.get_logs()]}
                                     for st in t.get_steps()]} for t in s.get_tests()],
                "subs": [suite(x) for x in s.get_suites()]}

    return [suite(s) for s in report.get_suites()]


def gen_scripts(rng, trees):
    """Test bodies for a real run: path -> list of acts; plus dependencies (skipped when the dependency fails)."""
    scripts = {}
    prev_failed = None
    for h, t in walk_tests(trees):
        p = hpath(h + (t,))
        acts = []
        for _ in range(rng.randint(0, 3)):
            w = rng.choice(GREP_WORDS)
            w = upper_ascii(w) if rng.random() < 0.3 else w
            acts.append(rng.choice([["step", w], ["info", "got " + w], ["check", w, True, rng.choice([None, "val " + w])],
                                    ["url", "http://x/" + w.replace("\n", ""), rng.choice([None, w])], ["attach", w]]))
        r = rng.random()
        if r < 0.22:
            acts.append(rng.choice([["error", "boom " + rng.choice(GREP_WORDS)], ["check", "bad", False, "nope"], ["raise", "kaboom"]]))
            if prev_failed is None:
                prev_failed = p
        elif r < 0.34 and prev_failed is not None and not t["disabled"]:
            t["deps"] = [prev_failed]
        scripts[p] = acts
    return scripts


def script_items(acts):
    """Roughly what --grep will see of a test that runs `acts` (only used to aim generated patterns)."""
    items = []
    for a in acts:
        k = a[0]
        if k == "step":
            items.append(a[1])
        elif k in ("info", "error"):
            items.append(a[1])
        elif k == "check":
            items.append(a[1])
            if a[3]:
                items.append(a[3])
        elif k == "url":
            items += [a[1], a[2] or a[1]]
        elif k == "attach":
            items += ["attachments/f.txt", a[1]]
    return items


def make_callback(acts):
    import lemoncheesecake.api as lcc

    def body():
        for a in acts:
            k = a[0]
            if k == "step":
                lcc.set_step(a[1])
            elif k == "info":
                lcc.log_info(a[1])
            elif k == "error":
                lcc.log_error(a[1])
            elif k == "check":
                lcc.log_check(a[1], a[2], a[3])
            elif k == "url":
                lcc.log_url(a[1], a[2])
            elif k == "attach":
                lcc.save_attachment_content("content", "f.txt", a[1])
            elif k == "raise":
                raise Exception(a[1])
    return body


def run_for_report(trees, scripts, first_cli, report_dir, backend_name):
    """Really run the (optionally pre-filtered) generated suites, the given backend saving into report_dir."""
    F, T, SC, U, Project, UserError, R = _lcc()
    from lemoncheesecake import runner
    from lemoncheesecake.events import AsyncEventManager
    from lemoncheesecake.session import Session
    from lemoncheesecake.fixture import FixtureRegistry
    from lemoncheesecake.suite import resolve_tests_dependencies
    from lemoncheesecake.reporting.backends.json_ import JsonBackend
    from lemoncheesecake.reporting.backends.xml import XmlBackend
    callbacks = {p: make_callback(a) for p, a in scripts.items()}
    all_suites = [build_suite(t, callbacks) for t in trees]
    suites = all_suites
    if first_cli is not None:
        suites = T.filter_suites(all_suites, api_filter(first_cli))
    suites = [s for s in suites if not s.is_empty()]
    if not suites:
        return False
    try:
        resolve_tests_dependencies(suites, all_suites)
    except Exception:
        return False
    backend = JsonBackend() if backend_name == "json" else XmlBackend()
    session = Session.create(AsyncEventManager.load(), [backend], report_dir, None, nb_threads=1)
    with contextlib.redirect_stdout(io.StringIO()), contextlib.redirect_stderr(io.StringIO()):
        runner.run_suites(suites, FixtureRegistry(), session, nb_threads=1)
    return True


class ReportStream(C.Stream):
    name = "C12.report"
    quick_cases = 800
    thorough_cases = 25000
    quick_seconds = 26
    thorough_seconds = 400
    chunk = 60

    @staticmethod
    def _demo(**kw):
        cli = empty_cli()
        cli.update(kw)
        rep = [{"node": _t("s"), "tests": [
            {"node": _t("a"), "status": "passed", "steps": [{"description": "Step", "logs": [{"kind": "log", "message": "this is Grepable"}]}]},
            {"node": _t("b", tags=["x"]), "status": "failed", "steps": []},
            {"node": _t("gone"), "status": "failed", "steps": []}],
            "subs": [{"node": _t("u", tags=["db"]), "tests": [{"node": _t("c"), "status": "skipped", "steps": []}], "subs": []},
                     {"node": _t("v"), "tests": [{"node": _t("d"), "status": "disabled", "steps": []},
                                                 {"node": _t("p"), "status": None, "steps": []}], "subs": []}]}]
        proj = [_s("s", [_t("a"), _t("b"), _t("n")], [_s("u", [_t("c")]), _s("v", [_t("d", disabled=True), _t("p")])])]
        return {"mode": "cli", "how": "built", "backend": "json", "cli": cli, "suites": proj, "report": rep}

    @staticmethod
    def _demo_grep(pat, **kw):
        """Results whose adjacent grepable items would satisfy a pattern only together, an inner item that satisfies an
        \\A / \\Z pattern on its own, a result without any item."""
        def res(name, *logs):
            return {"node": _t(name), "status": "passed",
                    "steps": [{"description": "Send request", "logs": [{"kind": "log", "message": m} for m in logs]}] if logs else []}
        cli = empty_cli()
        cli.update(grep_re=pat, from_report=True)
        cli.update(kw)
        names = ["server_error", "items_received", "done_early", "never_done", "silent"]
        rep_ = [{"node": _t("jobs"), "subs": [], "tests": [
            res("server_error", "request sent", "server replied with error   42, giving up"),
            res("items_received", "request sent, no error", "42 items received"),
            res("done_early", "done", "cleaning up workspace"),
            res("never_done", "still running", "cleaning up workspace"),
            res("silent")]}]
        proj = [_s("jobs", [_t(n) for n in names])]
        return {"mode": "cli", "how": "built", "backend": "json", "cli": cli, "suites": proj, "report": rep_, "grep_kind": "hand"}

    corpus = []

    def __init__(self):
        d = self._demo
        g = self._demo_grep
        self.corpus = [d(from_report=True), d(failed=True), d(passed=True), d(skipped=True), d(non_passed=True),
                       d(grep="grepable"), d(from_report=True, tags=[["db"]]), d(from_report=True, disabled=True),
                       d(from_report=True, enabled=True), d(failed=True, paths=["s.b"]), d(failed=True, tags=[["^x"]]),
                       d(passed=True, failed=True, skipped=True), d(from_report=True, enabled=True, disabled=True),
                       d(failed=True, from_report=True), dict(d(non_passed=True), backend="xml"),
                       d(grep="nothing-like-this"),
                       # the status flags are OR-ed, --non-passed included
                       d(passed=True, non_passed=True), d(skipped=True, non_passed=True), d(passed=True, failed=True, non_passed=True),
                       d(passed=True, failed=True, skipped=True, non_passed=True, from_report=True),
                       # D9 on the report side (IndexError on the unrepaired tree)
                       d(from_report=True, tags=[[""]]), d(failed=True, paths=[""]),
                       # --grep with regular expressions: every grepable item is searched on its own
                       g(r"error\s+42"), g(r"^done\Z"), g(r"[^a-z]42 "), g(r"request sent$"), g(r"\Adone"), g(r"x*"),
                       g(r"sent\W+server"), g(r"error\n42"), g(r"workspace\Z"), g(r"^send request$\s^request"),
                       g(r"\bDONE\b", passed=True), dict(g(r"running$\s+^cleaning"), backend="xml"),
                       g(r"(?=x)|y")]

    def setup(self, ctx):
        self.dir = tempfile.mkdtemp(prefix="lccverif-c12r-")
        self.cwd = os.getcwd()
        self.n = 0

    def teardown(self, ctx):
        os.chdir(self.cwd)
        shutil.rmtree(self.dir, ignore_errors=True)

    def gen(self, rng, i):
        trees = gen_forest(rng, big=rng.random() < 0.3)
        how = "run" if rng.random() < 0.25 else "built"
        cli = gen_filter(rng, trees, allow_flags=False) if rng.random() < 0.45 else empty_cli()
        r = rng.random()
        if r < 0.2:
            cli["passed"] = True
        elif r < 0.45:
            cli["failed"] = True
        elif r < 0.55:
            cli["skipped"] = True
        elif r < 0.68:
            cli["non_passed"] = True
        elif r < 0.74:
            cli["passed"] = cli["skipped"] = True
        elif r < 0.90:
            # ANY combination of the four status flags (they are OR-ed: --passed --non-passed selects every executed or skipped
            # test); derived from the same draw, the generated stream is otherwise unchanged
            bits = int((r - 0.74) / 0.16 * 16) & 15
            for b, k in enumerate(("passed", "failed", "skipped", "non_passed")):
                if bits >> b & 1:
                    cli[k] = True
        rg = rng.random()
        if rg < 0.16:
            cli["grep"] = rng.choice(GREP_WORDS + ["GOT", "Step", ""])
        want_regex = 0.16 <= rg < 0.42
        if rng.random() < 0.12:
            cli[rng.choice(["enabled", "disabled"])] = True
        if rng.random() < 0.7 or not (ref_report_based(cli) or want_regex):
            cli["from_report"] = True
        case = {"mode": "cli", "how": how, "backend": "json" if rng.random() < 0.75 else "xml",
                "cli": cli, "suites": trees}
        if how == "built":
            case["report"] = derive_report(rng, trees)
            item_lists = [list(ref_grepables(r["steps"])) for _, r in walk_tests(case["report"])]
        else:
            for _, t in walk_tests(trees):
                t["tags"] = [x for x in t["tags"]]
            case["scripts"] = gen_scripts(rng, trees)
            case["first_cli"] = gen_filter(rng, trees) if rng.random() < 0.35 else None
            item_lists = [script_items(a) for a in case["scripts"].values()]
        if want_regex:
            # a regular expression aimed at what the report holds: a match that would need two adjacent items, \A / \Z
            # on an inner item, a pattern matching the empty string (results without steps), line anchors, classes
            for _ in range(8):
                pat, kind = RX.aimed_pattern(rng, item_lists)
                ast = RX.try_ast(pat)
                if ast is not None and not RX.nested_star(ast) and RX.size(ast) <= 60 and "\x00" not in pat:
                    cli["grep_re"] = pat
                    case["grep_kind"] = kind
                    break
            if not ref_report_based(cli):
                cli["from_report"] = True
        if cli_argv(cli, "R") is None or has_colon(cli):
            for k in ("paths", "descs", "tags", "props", "links"):
                cli[k] = []
        if case["backend"] == "xml":
            # the XML format loads an empty property value back as None (C09's finding D8), on which
            # _match_key_values -> fnmatch raises TypeError: a save/load matter, not a selection matter;
            # XML-backed cases carry no empty property value (JSON-backed ones do)
            def fix(n):
                n["props"] = [[k, v or "0"] for k, v in n["props"]]
            for _, s in walk_suites(trees):
                fix(s["node"])
                for n in s["tests"]:
                    fix(n)
            for _, s in walk_suites(case.get("report") or []):
                fix(s["node"])
                for r in s["tests"]:
                    fix(r["node"])
        return case

    def impl(self, case):
        F, T, SC, U, Project, UserError, R = _lcc()
        self.n = getattr(self, "n", 0) + 1
        base = getattr(self, "dir", None) or tempfile.mkdtemp(prefix="lccverif-c12r-")
        top = os.path.join(base, "case%d" % self.n)
        rdir = os.path.join(top, "report")
        os.makedirs(rdir)
        cwd = os.getcwd()
        try:
            with warnings.catch_warnings():
                warnings.simplefilter("ignore")
                # 1. the report of the "previous run"
                if case["how"] == "built":
                    rep = build_report(case["report"])
                    if case["backend"] == "json":
                        from lemoncheesecake.reporting.backends.json_ import JsonBackend
                        JsonBackend().save_report(os.path.join(rdir, "report.js"), rep)
                    else:
                        from lemoncheesecake.reporting.backends.xml import XmlBackend
                        XmlBackend().save_report(os.path.join(rdir, "report.xml"), rep)
                else:
                    if not run_for_report(case["suites"], case["scripts"], case.get("first_cli"), rdir, case["backend"]):
                        return {"outcome": "no-previous-run"}
                loaded = R.load_report(rdir)
                report_tree = canon_report(loaded)
                # 2. the command line
                argv = cli_argv(case["cli"], rdir)
                if argv is None:
                    return {"outcome": "cli-cannot-express"}
                args = parse_cli(argv)
                if args is None:
                    return {"outcome": "cli-rejected"}
                if not case["cli"].get("from_report"):
                    os.chdir(top)       # the implicit ./report of the current directory
                try:
                    flt = F.make_test_filter(args)
                except UserError as e:
                    return {"outcome": classify_user_error(e), "report": report_tree}
                except Exception as e:
                    return {"outcome": "raised:" + type(e).__name__, "report": report_tree}
                finally:
                    os.chdir(cwd)
                obs = observe_selection(case["suites"], flt, top)
                obs["report"] = report_tree
                obs["kind"] = type(flt).__name__
                obs["accepted"] = list(getattr(flt, "_tests", []))
                return obs
        finally:
            os.chdir(cwd)
            shutil.rmtree(top, ignore_errors=True)

    def _with_report(self, case, obs):
        rep = case["report"] if case["how"] == "built" else obs.get("report", [])
        return dict(case, report=rep)

    def oracle(self, case, obs):
        out = obs.get("outcome", "")
        if out in ("cli-cannot-express", "cli-rejected", "no-previous-run"):
            return []
        c = self._with_report(case, obs)
        fails = oracle_selection(c, obs, prefix="C12/report")
        if out == "ok" or "accepted" in obs:
            if obs.get("kind") != "FromTestsFilter":
                fails.append(C.Failure("C12/report/not-report-based", "report-based options built a %s" % obs.get("kind")))
            exp = [hpath(h + (r["node"],)) for h, r in walk_tests(c["report"]) if ref_result_selected(case["cli"], h, r)]
            if sorted(exp) != sorted(obs.get("accepted", [])):
                fails.append(C.Failure("C12/report/accepted-results", "results accepted on the report side %s, reference %s"
                                       % (obs.get("accepted"), exp)))
        if case["how"] == "built" and "report" in obs:
            # the loaded report must carry what was saved, as far as selection can see it
            a = [(hpath(h + (r["node"],)), r["status"]) for h, r in walk_tests(case["report"])]
            b = [(hpath(h + (r["node"],)), r["status"]) for h, r in walk_tests(obs["report"])]
            if a != b:
                fails.append(C.Failure("C12/report/load-changed-paths-or-statuses", "saved %s, loaded %s" % (a, b)))
        return fails

    def request(self, case, obs):
        if obs.get("outcome") in ("cli-cannot-express", "cli-rejected", "no-previous-run"):
            return None
        c = self._with_report(case, obs)
        if not grep_model_ok(case["cli"], c["report"]):
            return None         # pattern outside the modelled fragment / validated alphabet: the oracle decides alone
        return {"op": "select", "mode": "cli", "cli": enc_cli(case["cli"]),
                "report": [enc_tree(t, enc_res) for t in c["report"]],
                "suites": [enc_tree(t, enc_node) for t in case["suites"]]}

    def compare(self, case, obs, ans):
        return compare_selection(obs, ans)

    def nontrivial(self, case, obs):
        if obs.get("outcome") != "ok":
            return False
        total = sum(1 for _ in walk_tests(case["suites"]))
        return 0 < len(obs["tests"]) < total

    def features(self, case, obs):
        f = selection_features(case, obs)
        f += ["how=" + case["how"], "backend=" + case["backend"],
              "explicit-from-report" if case["cli"].get("from_report") else "implicit-report-dir"]
        rep = case["report"] if case["how"] == "built" else obs.get("report", [])
        sts = {str(r["status"]) for _, r in walk_tests(rep)}
        f += ["status=" + s for s in sorted(sts)]
        proj = {hpath(h + (t,)) for h, t in walk_tests(case["suites"])}
        repp = {hpath(h + (r["node"],)) for h, r in walk_tests(rep)}
        if repp - proj:
            f.append("report-has-unknown-tests")
        if proj - repp:
            f.append("project-tests-missing-from-report")
        if case.get("first_cli"):
            f.append("previous-run-filtered")
        pat = case["cli"].get("grep_re")
        if pat:
            f.append("grep=regex")
            f.append("grep-aim=" + case.get("grep_kind", "hand"))
            if not grep_model_ok(case["cli"], rep):
                f.append("grep-regex-not-modelled")
            # how many cases tell "some single item matches" from "the joined items match" (measured, not demanded)
            per = [RX.search_items(pat, list(ref_grepables(r["steps"]))) for _, r in walk_tests(rep)]
            joined = [RX.search_joined(pat, list(ref_grepables(r["steps"]))) for _, r in walk_tests(rep)]
            if any(j and not p for p, j in zip(per, joined)):
                f.append("grep-joined-would-accept-more")
            if any(p and not j for p, j in zip(per, joined)):
                f.append("grep-joined-would-accept-less")
            if any(per):
                f.append("grep-regex-some-result-accepted")
            if per and not all(per):
                f.append("grep-regex-some-result-rejected")
        elif case["cli"].get("grep"):
            f.append("grep=word")
        return sorted(set(f))

    def shrink(self, case):
        if case["how"] != "built":
            return
        yield from shrink_selection(case)


def streams(ctx):
    from props import _c12seq
    return [Glob(), Filter(), DirLoad(), ReportStream(), _c12seq.ReportSeq()]


# ----------------------------------------------------------------------------------------------
# decision tables extracted by executing the real functions on finite domains
# ----------------------------------------------------------------------------------------------

def L(s):
    return "[" + ", ".join(str(ord(c)) for c in s) + "]"


def LL(xs, f=L):
    return "[" + ", ".join(f(x) for x in xs) + "]"


def B(b):
    return "true" if b else "false"


def lean_re(a):
    """Lean term (LccModel.Regex.RE) of an AST produced by harness/gen/regexes.py."""
    t = a["t"]
    if t in ("eps", "any", "bol", "eol", "bos", "eos"):
        return "Rx." + t
    if t == "lit":
        return "(Rx.lit %d)" % a["c"]
    if t == "wordb":
        return "(Rx.wordB %s)" % B(a["neg"])
    if t == "set":
        def item(it):
            if it["k"] == "single":
                return "Item.single %d" % it["c"]
            if it["k"] == "range":
                return "Item.range %d %d" % (it["lo"], it["hi"])
            return "Item.cat Cat.%s %s" % (it["cat"], B(it["neg"]))
        return "(Rx.set ⟨%s, [%s]⟩)" % (B(a["neg"]), ", ".join(item(i) for i in a["items"]))
    if t == "star":
        return "(Rx.star %s)" % lean_re(a["a"])
    return "(Rx.%s %s %s)" % (t, lean_re(a["a"]), lean_re(a["b"]))


def lean_log(l):
    k = l["kind"]
    if k == "log":
        return "LogEntry.log %s" % L(l["message"])
    if k == "check":
        return "LogEntry.check %s %s" % (L(l["description"]), "none" if l["details"] is None else "(some %s)" % L(l["details"]))
    if k == "attachment":
        return "LogEntry.attachment %s %s" % (L(l["filename"]), L(l["description"]))
    return "LogEntry.url %s %s" % (L(l["url"]), L(l["description"]))


def lean_steps(steps):
    return "[" + ", ".join("{ description := %s, logs := [%s] }" % (L(st["description"]), ", ".join(lean_log(l) for l in st["logs"]))
                           for st in steps) + "]"


GREP_TABLE_PATTERNS = [r"r\s+4", r"r\s4", r"^ok\Z", r"\Aup", r"[^a-z]4", r"r\W+4", r"r\n4", r"a*", r"^", r"\Z", r"ok$", r"^up", "OK", r"k$\s^u",
                       r"\bup\b", r"o.\Z", r"\A$", r"x|4", r"[\s,]u", r"\d\d"]


def grep_table_steps():
    log = lambda m: {"kind": "log", "message": m}
    return [
        [],
        [{"description": "", "logs": []}],
        [{"description": "er", "logs": [log("42")]}],
        [{"description": "S", "logs": [log("er"), log("42")]}],
        [{"description": "S", "logs": [log("er 42")]}],
        [{"description": "S", "logs": [log("er\n42")]}],
        [{"description": "ok", "logs": [log("up")]}],
        [{"description": "S", "logs": [log("up"), log("ok")]}],
        [{"description": "S", "logs": [log("ok")]}, {"description": "up", "logs": []}],
        [{"description": "S", "logs": [{"kind": "check", "description": "ok", "details": "up"}]}],
        [{"description": "S", "logs": [{"kind": "check", "description": "ok", "details": ""}, log("up")]}],
        [{"description": "S", "logs": [{"kind": "check", "description": "er", "details": None}, log("42")]}],
        [{"description": "S", "logs": [{"kind": "url", "url": "er", "description": "42"}]}],
        [{"description": "S", "logs": [{"kind": "attachment", "filename": "ok", "description": "up"}]}],
        [{"description": "S", "logs": [{"kind": "attachment", "filename": "f", "description": ""}]}],
    ]


def tables(ctx):
    F, T, SC, U, Project, UserError, R = _lcc()
    from lemoncheesecake.reporting.report import Report, TestResult
    tabs = []
    imports = ("LccModel.Model.Filter",)

    def opt(f):
        try:
            return "some " + B(bool(f()))
        except UserError:
            return "none"
        except Exception:
            return "none"

    # T1 _match_values: polarity x "does any value match" x OR over the patterns of one option
    values = [[], ["a"], ["b"], ["a", "b"], [None], ["", "ab"]]
    pats = ["a", "^a", "-b", "~*", "*", "b", "", "^", "a?"]
    plists = [[]] + [[p] for p in pats] + [[p, q] for p in pats[:7] for q in pats[:7]]
    rows = []
    for vs in values:
        for ps in plists:
            out = opt(lambda: F.BaseTreeNodeFilter._match_values(list(vs), list(ps)))
            rows.append(("(%s, %s)" % (LL([v or "" for v in vs]), LL(ps)), out, "_match_values(%r, %r) = %s" % (vs, ps, out)))
    tabs.append(C.Table("matchValuesTable", "List ((List Str × List Str) × Option Bool)", rows, imports))

    # T2 _match_key_values: key presence x polarity
    kvs = [{}, {"k": "a"}, {"k": "b"}, {"j": "a"}, {"k": "a", "j": "b"}, {"k": ""}]
    kpats = [("k", "a"), ("k", "^a"), ("k", "-*"), ("j", "a"), ("k", "~b"), ("k", ""), ("j", "^")]
    kplists = [[]] + [[p] for p in kpats] + [[p, q] for p in kpats[:5] for q in kpats[:5]]
    rows = []
    pair = lambda kv: "(%s, %s)" % (L(kv[0]), L(kv[1]))
    for d in kvs:
        for ps in kplists:
            out = opt(lambda: F.BaseTreeNodeFilter._match_key_values(dict(d), list(ps)))
            rows.append(("(%s, %s)" % (LL(list(d.items()), pair), LL(ps, pair)), out,
                         "_match_key_values(%r, %r) = %s" % (d, ps, out)))
    tabs.append(C.Table("matchKeyValuesTable", "List ((List (Str × Str) × List (Str × Str)) × Option Bool)", rows, imports))

    # T3 make_result_filter through the real parser: status flags x enabled/disabled x result status
    rows = []
    flags = ["passed", "failed", "skipped", "non_passed", "enabled", "disabled"]
    st_lean = {"passed": "some Status.passed", "failed": "some Status.failed", "skipped": "some Status.skipped",
               "disabled": "some Status.disabled", None: "none"}
    for bits in itertools.product([False, True], repeat=6):
        argv = ["--" + f.replace("_", "-") for f, b in zip(flags, bits) if b]
        args = parse_cli(argv)
        for st in ["passed", "failed", "skipped", "disabled", None]:
            def f():
                rf = F.make_result_filter(args)
                r = TestResult("t", "t")
                r.status = st
                return rf._apply_result_criteria(r)
            out = opt(f)
            rows.append(("((%s), %s)" % (", ".join(B(b) for b in bits), st_lean[st]), out, "%s status=%s -> %s" % (argv, st, out)))
    tabs.append(C.Table("resultCriteriaTable", "List (((Bool × Bool × Bool × Bool × Bool × Bool) × Option Status) × Option Bool)",
                        rows, imports))

    # T4 TestFilter enabled/disabled switches x disabled attribute of the suite and of the test
    rows = []
    for en, dis in itertools.product([False, True], repeat=2):
        for sd, td in itertools.product([False, True, "reason"], repeat=2):
            s = SC.Suite(None, "s", "s")
            s.disabled = sd
            t = SC.Test("t", "t", lambda: None)
            t.disabled = td
            s.add_test(t)
            out = B(bool(F.TestFilter(enabled=en, disabled=dis)._apply_test_criteria(t)))
            rows.append(("(%s, %s, %s, %s)" % (B(en), B(dis), B(bool(sd)), B(bool(td))), out, "en=%s dis=%s suite=%r test=%r -> %s" % (en, dis, sd, td, out)))
    tabs.append(C.Table("testSwitchTable", "List ((Bool × Bool × Bool × Bool) × Bool)", rows, imports))

    # T5 make_test_filter: which options make the selection report-based
    rows = []
    real_load = F.load_report
    F.load_report = lambda path: Report()
    try:
        for bits in itertools.product([False, True], repeat=5):
            for grep in (None, "", "x"):
                argv = []
                if bits[0]:
                    argv += ["--from-report", "somewhere"]
                argv += ["--" + f.replace("_", "-") for f, b in zip(["passed", "failed", "skipped", "non_passed"], bits[1:]) if b]
                if grep is not None:
                    argv += ["--grep=" + grep]
                flt = F.make_test_filter(parse_cli(argv))
                out = B(isinstance(flt, F.FromTestsFilter))
                g = "none" if grep is None else "some " + L(grep)
                rows.append(("(%s, %s)" % (", ".join(B(b) for b in bits), g), out, "%s -> report-based %s" % (argv, out)))
        # an empty --from-report path is falsy
        flt = F.make_test_filter(parse_cli(["--from-report", ""]))
        empty_from_report = isinstance(flt, F.FromTestsFilter)
    finally:
        F.load_report = real_load
    rows.append(("(false, false, false, false, false, none)", B(empty_from_report), "--from-report '' -> %s" % empty_from_report))
    tabs.append(C.Table("filterKindTable", "List ((Bool × Bool × Bool × Bool × Bool × Option Str) × Bool)", rows, imports))

    # T6 bool(TestFilter): which criteria make the filter non-empty
    rows = []
    for bits in itertools.product([False, True], repeat=7):
        kw = {}
        if bits[0]:
            kw["paths"] = ["a"]
        if bits[1]:
            kw["descriptions"] = [["a"]]
        if bits[2]:
            kw["tags"] = [["a"]]
        if bits[3]:
            kw["properties"] = [[("k", "v")]]
        if bits[4]:
            kw["links"] = [["a"]]
        out = B(bool(F.TestFilter(enabled=bits[5], disabled=bits[6], **kw)))
        rows.append(("(%s)" % ", ".join(B(b) for b in bits), out, "%s -> %s" % (bits, out)))
    tabs.append(C.Table("truthyTable", "List ((Bool × Bool × Bool × Bool × Bool × Bool × Bool) × Bool)", rows, imports))

    # T7 _grep / ResultFilter._do_grep: the criterion compiled by _make_grep_criterion applied to real Step objects;
    # which items are looked at, and that each is searched on its own (patterns whose match would need two items,
    # string anchors on inner items, patterns matching the empty string on results without any item)
    from lemoncheesecake.reporting.report import Step, Log, Check, Url, Attachment
    rows = []
    for pat in GREP_TABLE_PATTERNS:
        ast = RX.to_ast(pat)
        rx = F._make_grep_criterion(pat)
        for steps in grep_table_steps():
            real = []
            for st in steps:
                step = Step(st["description"])
                for l in st["logs"]:
                    k = l["kind"]
                    step.add_log(Log("info", l["message"], 0.0) if k == "log" else
                                 Check(l["description"], True, l["details"], 0.0) if k == "check" else
                                 Url(l["description"], l["url"], 0.0) if k == "url" else
                                 Attachment(l["description"], l["filename"], False, 0.0))
                real.append(step)

            def f():
                rf = F.ResultFilter(grep=rx)
                r = TestResult("t", "t")
                for step in real:
                    r.add_step(step)
                return rf._do_grep(r)
            out = opt(f)
            rows.append(("(%s, %s)" % (lean_re(ast), lean_steps(steps)), out, "grep %r on %r -> %s" % (pat, steps, out)))
    tabs.append(C.Table("grepTable", "List ((RE × List Step) × Option Bool)", rows, ("LccModel.Model.Filter",)))
    return tabs

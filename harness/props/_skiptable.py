"""Decision table of the REAL RunContext.is_task_to_be_skipped, obtained by executing it on the complete
finite domain of the facts it reads (used by C08 and C11)."""
import itertools

import common as C


def skip_table():
    from lemoncheesecake.exceptions import AbortAllTests, AbortSuite
    from lemoncheesecake.runner import RunContext, SuiteBeginningTask, TestTask
    from lemoncheesecake.suite.core import Suite, Test

    class EM:
        def __init__(self, pending, message="backend-boom"):
            self.pending = pending
            self.message = message

        def get_pending_failure(self):
            return (RuntimeError(self.message), "serialized") if self.pending else (None, None)

    class Sess:
        def __init__(self, pending, failed, message="backend-boom"):
            self.event_manager = EM(pending, message)
            self.failed = failed
            self.aborted = False

        def is_successful(self, location=None):
            return not self.failed

        def log_error(self, msg):
            pass

    names = {
        None: "none", "tests have been manually stopped": "interrupted", "backend-boom": "backendFailure",
        "tests have been aborted": "abortedSession", "the tests of this test suite have been aborted": "abortedSuite",
        "tests have been aborted on --stop-on-failure": "stopOnFailure",
    }
    rows = []
    # every combination is evaluated with a backend exception that has a message and with one that has none
    # (`str(exception) == ""`: a bare assert, KeyError() …): both must give the same decision
    for (interrupted, pending, abort_all, suite_aborted, stop, failed, is_test), message in itertools.product(
            itertools.product([False, True], repeat=7), ["backend-boom", ""]):
        suite = Suite(None, "s", "s")
        test = Test("t", "t", lambda: None)
        suite.add_test(test)
        sess = Sess(pending, failed, message)
        ctx = RunContext(sess, None, False, stop)
        if abort_all:
            ctx.handle_exception(AbortAllTests("x"))
        if suite_aborted:
            ctx.handle_exception(AbortSuite("x"), suite)
        if interrupted:
            ctx.enable_task_abort()
        task = TestTask(test, None) if is_test else SuiteBeginningTask(suite, [])
        r = ctx.is_task_to_be_skipped(task)
        if pending and message == "" and r == "RuntimeError":
            r = "backend-boom"        # the class name stands in for the missing message
        kind = names.get(r, "other:" + repr(r))
        if r is not None and not r:
            kind = "falsy-reason:" + repr(r)     # handle_task would take it for "do not skip"
        flags = (interrupted, pending, abort_all, suite_aborted, stop, failed, is_test)
        lean_in = "(" + ", ".join("true" if b else "false" for b in flags) + ")"
        rows.append((lean_in, '"%s"' % kind, dict(zip("interrupted pending abort_all suite_aborted stop failed is_test".split(), flags), message=message, out=kind)))
    return C.Table("skipTable", "List ((Bool × Bool × Bool × Bool × Bool × Bool × Bool) × String)", rows)

"""Decision table of the REAL RunContext.is_task_to_be_skipped, obtained by executing it on the complete
finite domain of the facts it reads (used by C08 and C11)."""
import itertools

import common as C


def skip_table():
    from lemoncheesecake.exceptions import AbortAllTests, AbortSuite
    from lemoncheesecake.runner import RunContext, SuiteBeginningTask, TestTask
    from lemoncheesecake.suite.core import Suite, Test

    class EM:
        def __init__(self, pending, message="backend-boom"):
            self.pending = pending
            self.message = message

        def get_pending_failure(self):
            return (RuntimeError(self.message), "serialized") if self.pending else (None, None)

    class Sess:
        def __init__(self, pending, failed, message="backend-boom"):
            self.event_manager = EM(pending, message)
            self.failed = failed
            self.aborted = False

        def is_successful(self, location=None):
            return not self.failed

        def log_error(self, msg):
            pass

    names = {
        None: "none", "tests have been manually stopped": "interrupted", "backend-boom": "backendFailure",
        "tests have been aborted": "abortedSession", "the tests of this test suite have been aborted": "abortedSuite",
        "tests have been aborted on --stop-on-failure": "stopOnFailure",
    }
    rows = []
    # every combination is evaluated with a backend exception that has a message and with one that has none
    # (`str(exception) == ""`: a bare assert, KeyError() …): both must give the same decision
    for (interrupted, pending, abort_all, suite_aborted, stop, failed, is_test), message in itertools.product(
            itertools.product([False, True], repeat=7), ["backend-boom", ""]):
        suite = Suite(None, "s", "s")
        test = Test("t", "t", lambda: None)
        suite.add_test(test)
        sess = Sess(pending, failed, message)
        ctx = RunContext(sess, None, False, stop)
        if abort_all:
            ctx.handle_exception(AbortAllTests("x"))
        if suite_aborted:
            ctx.handle_exception(AbortSuite("x"), suite)
        if interrupted:
            ctx.enable_task_abort()
        task = TestTask(test, None) if is_test else SuiteBeginningTask(suite, [])
        r = ctx.is_task_to_be_skipped(task)
        if pending and message == "" and r == "RuntimeError":
            r = "backend-boom"        # the class name stands in for the missing message
        kind = names.get(r, "other:" + repr(r))
        if r is not None and not r:
            kind = "falsy-reason:" + repr(r)     # handle_task would take it for "do not skip"
        flags = (interrupted, pending, abort_all, suite_aborted, stop, failed, is_test)
        lean_in = "(" + ", ".join("true" if b else "false" for b in flags) + ")"
        rows.append((lean_in, '"%s"' % kind, dict(zip("interrupted pending abort_all suite_aborted stop failed is_test".split(), flags), message=message, out=kind)))
    return C.Table("skipTable", "List ((Bool × Bool × Bool × Bool × Bool × Bool × Bool) × String)", rows)


def handle_exception_table():
    """Decision table of the REAL `RunContext.handle_exception(excp, suite)`, obtained by executing it on an instance
    of every exception class user code can raise — a plain exception, the three Abort* classes of the framework and a
    project-defined SUBCLASS of each — with and without the `suite` argument.  What it did is read back through the
    public interface: the error logs the (fake) session received and what `is_task_to_be_skipped` answers afterwards
    for a test of that suite, a test of a sub-suite and a test of another suite."""
    import lemoncheesecake.api as lcc
    from lemoncheesecake.runner import RunContext, TestTask
    from lemoncheesecake.suite.core import Suite, Test

    class TestGivesUp(lcc.AbortTest):
        pass

    class SuiteUnusable(lcc.AbortSuite):
        pass

    class EnvironmentDown(lcc.AbortAllTests):
        pass

    class EM:
        def get_pending_failure(self):
            return None, None

    class Sess:
        def __init__(self):
            self.event_manager = EM()
            self.aborted = False
            self.errors = []

        def is_successful(self, location=None):
            return True          # --stop-on-failure is off anyway

        def log_error(self, msg):
            self.errors.append(msg)

    classes = [("exc", False, Exception), ("AbortTest", False, lcc.AbortTest), ("AbortSuite", False, lcc.AbortSuite),
               ("AbortAllTests", False, lcc.AbortAllTests), ("AbortTest", True, TestGivesUp),
               ("AbortSuite", True, SuiteUnusable), ("AbortAllTests", True, EnvironmentDown)]
    # what the exception object is constructed with: one message string (what the framework's own tests do), nothing, the
    # exception that was caught (`raise lcc.AbortTest(e)`), a number, a message and a code, two strings — the decision and the
    # number of error logs must not depend on it (the model reads the class only), and handle_exception itself must not raise
    shapes = [("str", lambda: ("boom",)), ("none", lambda: ()), ("exc", lambda: (ValueError("caught"),)), ("int", lambda: (404,)),
              ("two", lambda: ("boom", 7)), ("twostr", lambda: ("boom", "giving up"))]
    rows = []
    for (kind, sub, cls), (shape, mk_args) in itertools.product(classes, shapes):
        for with_suite in (False, True):
            suite, other = Suite(None, "s", "s"), Suite(None, "o", "o")
            inner = Suite(None, "sub", "sub")
            suite.add_suite(inner)
            t_same, t_sub, t_other = Test("t", "t", lambda: None), Test("u", "u", lambda: None), Test("v", "v", lambda: None)
            suite.add_test(t_same)
            inner.add_test(t_sub)
            other.add_test(t_other)
            sess = Sess()
            ctx = RunContext(sess, None, False, False)
            raised = None
            try:
                raise cls(*mk_args())
            except Exception as e:          # handle_exception reads the implicit traceback of the handled exception
                try:
                    if with_suite:
                        ctx.handle_exception(e, suite)
                    else:
                        ctx.handle_exception(e)
                except Exception as e2:
                    raised = type(e2).__name__
            skipped = [bool(ctx.is_task_to_be_skipped(TestTask(t, None))) for t in (t_same, t_sub, t_other)]
            effect = {(False, False, False): "none", (True, False, False): "abortSuite", (True, True, True): "abortAll"}.get(
                tuple(skipped), "other:%r" % (skipped,))
            out = "%s+%derr" % (effect, len(sess.errors))
            if raised:
                out = "handle_exception-raised:" + raised
            lean_in = '("%s", %s, %s)' % (kind, "true" if sub else "false", "true" if with_suite else "false")
            rows.append((lean_in, '"%s"' % out, {"class": cls.__name__, "base": kind, "subclass": sub, "suite_given": with_suite, "args": shape, "out": out}))
    return C.Table("handleExcTable", "List ((String × Bool × Bool) × String)", rows)


def run_outcome_table():
    """How a run ends for its caller, obtained by EXECUTING the real `run_suites` (under the run-level recorder) on a
    three-test project for every combination of: a reporting backend that raises (on an early event / on a late one /
    never) x the CLASS of what it raises (a user-defined Exception; StopIteration / StopAsyncIteration — Exceptions the
    iteration protocols give a meaning to; GeneratorExit / SystemExit / KeyboardInterrupt — BaseExceptions that are no
    Exception, recorded like the others since fix D42) x a keyboard interrupt while the caller waits for a completion (early / late / never).
    Row input: the facts of that run (interrupt delivered, backend raised, report successful, class name); output: what
    the caller saw — the returned verdict, or whether the raised error carries the backend's original text and
    whether it is the framework's LemoncheesecakeException or an instance of the failure's own class."""
    from run import observe as O
    from run import oracles as X
    from run.selftest import _p, _s, _t, _LOG
    project = _p([_s("s0", [_t("t0", [], [_LOG]), _t("t1", [], [_LOG], rank=2), _t("t2", [], [_LOG], rank=3)])])
    rows, seen = [], set()
    classes = ["Custom", "StopIteration", "StopAsyncIteration"] + list(O.BASE_FAULT_CLASSES)
    for fault_k, cls in [(None, "Custom")] + [(k, c) for c in classes for k in (1, 9)]:
        for interrupt in (None, ["get", 1], ["get", 3]):
            if interrupt is not None and cls not in ("Custom", "StopIteration", "SystemExit"):
                continue
            fault = None if fault_k is None else {"k": fault_k, "cls": cls, "text": "T"}
            obs = O.run_project(project, strategy="off", interrupt_at=interrupt, backend_fault=fault)
            interrupted = any(r[0] == "interrupt" for r in obs["trace"])
            failed = any(r[0] == "backend-raise" for r in obs["trace"])
            rep = obs.get("report")
            # (the verdict the caller gets is the report's: a report the writer stopped feeding is read as it stands)
            successful = bool(rep) and all(res["status"] in ("passed", "disabled") for _, res in X._all_results(rep))
            oc = obs["outcome"]
            if "returned" in oc:
                out = "returned:%s" % str(oc["returned"]).lower()
            elif oc.get("raised") == "KeyboardInterrupt" and "T" not in oc.get("text", ""):
                out = "raised-KeyboardInterrupt"
            elif "raised" in oc and "T" in oc.get("text", ""):
                # ... and as what: the framework's own exception, or (an instance of) the failure's own class
                out = "raised-backend-error:T:" + ("framework" if oc["raised"] == "LemoncheesecakeException" else "own")
            elif "raised" in oc:
                out = "raised-other:" + oc["raised"]
            else:
                out = "hang"
            key = (interrupted, failed, successful if not failed else False, cls if failed else "Custom")
            if (key, out) in seen:
                continue
            seen.add((key, out))
            lean_in = "(" + ", ".join("true" if b else "false" for b in key[:3]) + ', "%s")' % key[3]
            rows.append((lean_in, '"%s"' % out, {"interrupt_at": interrupt, "fault_at_event": fault_k, "fault_class": cls, "interrupted": interrupted,
                                                 "backend_raised": failed, "successful": key[2], "out": out}))
    return C.Table("runOutcomeTable", "List ((Bool × Bool × Bool × String) × String)", rows)


"""C17 — a check's description says what was actually verified (model M12: `describe` / `describeSt`)."""
import collections
import copy

import common as C
from gen import matchers as G

PROPERTY = "C17"
LEAN_MODULES = ["LccModel.Props.C17", "LccModel.Props.C17Seq", "LccModel.Props.C17Values", "LccModel.Props.C17Keys", "LccModel.Model.MatcherObjJson", "LccModel.Model.MatcherXValJson",
                "LccModel.Proto"]   # the last two: what drivers/C17.lean imports
PROPS_FILES = ["LccModel/Props/C17.lean", "LccModel/Props/C17Seq.lean", "LccModel/Props/C17Values.lean", "LccModel/Props/C17Keys.lean"]
NAMESPACES = {"LccModel/Props/C17.lean": "LccModel.C17", "LccModel/Props/C17Seq.lean": "LccModel.C17Seq",
              "LccModel/Props/C17Values.lean": "LccModel.C17Values", "LccModel/Props/C17Keys.lean": "LccModel.C17Keys"}
DRIVER = "drivers/C17.lean"
TRUSTED_BASE = [
    "Lean 4.33.0 kernel; axioms of the property theorems ⊆ {propext, Classical.choice, Quot.sound}",
    "hand-written model LccModel/Model/Matcher.lean of MatcherDescriptionTransformer, every build_description / "
    "build_short_description, _build_composite_description (single-line versus itemised) and json.dumps of the value domain",
    "correspondence harness harness/props/c17.py + harness/gen/matchers.py: descriptions of generated expressions (all of depth <= 2 "
    "over a leaf alphabet, sampled depth 3-4) are compared character by character with the real build_description",
    "the bounded injectivity theorem is exhaustive over the finite universe LccModel.C17.universe only; the same grouping is re-done on "
    "the real code over a larger universe by the stream C17.inject",
    "hand-written model LccModel/Model/MatcherObj.lean of matcher OBJECTS used over time (store of mutable expected values, objects = "
    "constructor calls holding references, no state of their own); tied to the code by the stream C17.seq (harness/props/_matcherseq.py): "
    "sequences of constructions, in-place mutations, descriptions and check_that/require_that/assert_that in a real session, compared "
    "operation by operation",
]
ASSUMPTIONS = [
    "fixes/D12-D13-not-description-shared-transformer.diff is applied to the code under test (the model mirrors the repaired "
    "Not.build_description; on the unrepaired tree the corpus witnesses fail the oracle)",
    "the leading verb of an overridden description is ASCII (the model's \\w is ASCII-only)",
]
RULE = ("matcher expression over leaf matchers, not_, all_of, any_of, has_entry, has_item, has_all_items, has_length and the type matchers; "
        "non-trivial = nesting depth >= 2 (C17.describe) / a pool or exhaustive range containing expressions of depth >= 2 (C17.inject) / "
        "a sequence of >= 4 operations with an in-place mutation of an expected value or an object passed to another constructor (C17.seq); "
        "distinct = hash of the case")
EXPLANATION = ("Sibling independence, negation-follows-logic and non-mutation of the shared transformer are Lean theorems over all matcher "
               "trees; injectivity of descriptions is proved exhaustively for a finite universe (depth <= 2) under the guard that excludes the "
               "two open findings, which have refutation theorems. The model is tied to the code by exact comparison of description texts; "
               "the oracle groups real descriptions by equality and compares accepted value sets, and compares each child's wording alone "
               "and inside a composite. Matcher objects used over time (built on mutable expected values and on each other, described and "
               "checked several times): history independence and 'sentence and verdict are read from the same value' are Lean theorems "
               "over all operation sequences (LccModel.C17Seq); the stream C17.seq replays generated sequences on the real code and "
               "compares every sentence with brand-new matchers built on every state the expected values went through.")


def _T(tr):
    from lemoncheesecake.matching.matcher import MatcherDescriptionTransformer
    return MatcherDescriptionTransformer(conjugate=tr[0], negative=tr[1])


def _describe(e, tr):
    """(text | {'error': cls}, transformer state afterwards)"""
    t = _T(tr)
    try:
        d = G.to_matcher(e).build_description(t)
    except Exception as ex:  # noqa: BLE001 - classified
        return {"error": type(ex).__name__}, [bool(t.conjugate), bool(t.negative)]
    return d, [bool(t.conjugate), bool(t.negative)]


# --- what a composite must look like given the descriptions of its children ALONE (property statement:
# --- "the wording of a sub-matcher does not depend on its sibling matchers")

def _item(content, prefix):
    lines = content.split("\n")
    return "\n".join(["    " + prefix + lines[0]] + ["      " + ln for ln in lines[1:]])


def composite_renderings(rel, children):
    single = (" %s " % rel).join(children)
    multi = "\n".join([":"] + [_item(d, "- " if i == 0 else "- %s " % rel) for i, d in enumerate(children)])
    return [single, multi]


def in_fragment(e):
    """the constructors the property quantifies over (no overridden descriptions)"""
    return "override" not in G.constructors_of(e)


def _strip_is(e):
    while e[0] == "is_":
        e = e[1]
    return e


def has_empty_composite(e):
    e = _strip_is(e)
    if e[0] in ("all_of", "any_of") and len(e[1]) == 0:
        return True
    return any(has_empty_composite(s) for s in G.sub_exprs(e))


def has_not_over_composite(e):
    e = _strip_is(e)
    if e[0] == "not_":
        inner = _strip_is(e[1])
        while inner[0] == "hide":
            inner = _strip_is(inner[1])
        if inner[0] in ("all_of", "any_of") and len(inner[1]) >= 2:
            return True
    return any(has_not_over_composite(s) for s in G.sub_exprs(e))


def has_unescaped_quote_argument(e):
    """a string matcher whose argument contains a double quote (the argument is put between quotes unescaped)"""
    e = _strip_is(e)
    if e[0] in G.STRING_LEAVES and '"' in e[1]:
        return True
    return any(has_unescaped_quote_argument(s) for s in G.sub_exprs(e))


def has_nonstr_dict_key(e):
    """an expected value that is (or contains) a dict with a key that is not a str: json.dumps writes 1, None, True as "1", "null",
    "true", so the rendering no longer tells {1: x} from {"1": x}"""
    return G.key_feature(G.literals_of(e)) is not None


def has_container_nan(e):
    """an expected value that CONTAINS a NaN (a list / dict around it, or the list argument of has_items / has_only_items /
    is_in): Python's own containers compare and search their items with an identity shortcut, so `[x] == [x]` and `x in [x]`
    hold for a NaN object x although `x == x` does not"""
    if G.has_nested_nan(G.literals_of(e)):
        return True
    e = _strip_is(e)
    if e[0] in G.LIST_LEAVES and G.has_nan(e[1]):
        return True
    return any(has_container_nan(s) for s in G.sub_exprs(e))


def has_pattern_flags(e):
    e = _strip_is(e)
    if e[0] == "match_pattern":
        return True
    return any(has_pattern_flags(s) for s in G.sub_exprs(e))


def _unwrapped(e):
    while e[0] in ("is_", "hide", "not_"):
        e = e[1]
    return e


def has_wrapped_composite_in_composite(e):
    """a composite one of whose children is a composite (>= 2 children) behind hide_result_details() / not_(): the code forces the
    itemised rendering only for children that ARE AllOf / AnyOf objects, so the inner composite is written on the parent's line
    and "a or b and c" no longer tells any_of(a, all_of(b, c)) from all_of(any_of(a, b), c)"""
    e = _strip_is(e)
    if e[0] in ("all_of", "any_of"):
        for ch in e[1]:
            ch = _strip_is(ch)
            if ch[0] in ("hide", "not_"):
                inner = _unwrapped(ch)
                if inner[0] in ("all_of", "any_of") and len(inner[1]) >= 2:
                    return True
    return any(has_wrapped_composite_in_composite(s) for s in G.sub_exprs(e))


def has_typed_clause_scope(e):
    """D49: inside a clause ("... that is ...") a typed matcher over a composite, is_type(T, any_of(a, b)), and the composite whose member is
    the typed matcher, any_of(is_type(T, a), b), are both written "a T that is a or is b": the scope of the type is not in the sentence
    (at top level the second reads "... or to be b": the collision needs a clause host such as has_entry / has_item)"""
    e = _strip_is(e)
    if e[0] == "is_type" and len(e) > 2:
        inner = _unwrapped(_strip_is(e[2]))
        if inner[0] in ("all_of", "any_of") and len(inner[1]) >= 2:
            return True
    if e[0] in ("all_of", "any_of") and len(e[1]) >= 2:
        for ch in e[1]:
            ch = _strip_is(ch)
            if ch[0] == "is_type" and len(ch) > 2:
                return True
    return any(has_typed_clause_scope(x) for x in G.sub_exprs(e))


def has_tuple_value(e):
    return any(_has_tuple(v) for v in G.literals_of(e))


def _has_tuple(v):
    if isinstance(v, list) and len(v) == 2 and v[0] == "tuple":
        return True
    return isinstance(v, list) and any(_has_tuple(x) for x in v)


CLAUSE_HOSTS_1 = ("has_item", "has_all_items", "has_length")     # [constructor, sub-matcher]
CLAUSE_HOSTS_2 = ("has_entry", "is_type")                         # [constructor, key path / type, sub-matcher]


def clause_of(e):
    """(host, sub-matcher) if e — looked at through is_(), not_() and hide_result_details() — is a matcher whose sentence
    embeds the sentence of a sub-matcher as a clause ("… that <clause>", "… whose value <clause>"); else None"""
    while e[0] in ("is_", "not_", "hide"):
        e = e[1]
    if e[0] in CLAUSE_HOSTS_1:
        return e, e[1]
    if e[0] in CLAUSE_HOSTS_2 and e[2] != ["val", None]:      # a plain None means "no value matcher"
        return e, e[2]
    return None


def is_clause_over_composite(e):
    c = clause_of(e)
    if c is None:
        return False
    inner = _strip_is(c[1])
    while inner[0] == "hide":
        inner = _strip_is(inner[1])
    return inner[0] in ("all_of", "any_of") and len(inner[1]) >= 1


SIG_EMPTY = "C17/empty-all_of-any_of-same-description"
SIG_CLAUSE = "C17/sub-matcher-clause-wording-depends-on-parent"
SIG_CLAUSE_COLLISION = "C17/composite-sub-matchers-same-clause-description"
SIG_QUOTE = "C17/string-argument-not-escaped-forges-wording"
SIG_KEYTYPE = "C17/dict-key-type-lost-in-wording"
SIG_NOTCOMP = "C17/not-over-composite-equals-composite-of-nots"
SIG_COLLISION = "C17/same-description-different-accepted-values"
SIG_NAN_NESTED = "C17/nan-inside-container-identity-shortcut"
SIG_TUPLE = "C17/tuple-worded-like-list"
SIG_FLAGS = "C17/pattern-flags-lost-in-wording"
SIG_WRAPPED = "C17/wrapped-composite-on-one-line-ambiguous"
SIG_TYPED_SCOPE = "C17/typed-matcher-scope-lost-inside-clause"
SIG_SIBLING = "C17/sibling-dependent-wording"
SIG_NEG_INVISIBLE = "C17/negation-invisible-in-wording"
SIG_NEG_TOGGLE = "C17/not-does-not-toggle-wording"


class Describe(C.Stream):
    """expression × transformer state → description text, state of the transformer object afterwards"""
    name = "C17.describe"
    quick_cases = 8000
    thorough_cases = 120000
    quick_seconds = 30
    thorough_seconds = 300
    chunk = 250
    _a, _b = ["equal_to", ["i", 1]], ["greater_than", ["i", 0]]
    corpus = [
        # D12 (fixed by fixes/D12-D13-…diff): negation leaks to the later siblings through the shared transformer
        {"expr": ["all_of", [["is_not_none"], ["greater_than", ["i", 0]]]], "tr": [False, False]},
        {"expr": ["any_of", [["not_", _a], _b, ["is_none"]]], "tr": [False, False]},
        # … and, when the single-line attempt is abandoned, to the EARLIER siblings too (second pass)
        {"expr": ["all_of", [["equal_to", ["s", "A" * 60]], ["not_", ["equal_to", ["s", "B" * 60]]]]], "tr": [False, False]},
        {"expr": ["has_item", ["all_of", [["not_", _a], _b]]], "tr": [False, False]},
        # D13 (fixed with D12): double negation worded like single negation
        {"expr": ["not_", ["not_", _a]], "tr": [False, False]},
        {"expr": ["not_", ["is_not_none"]], "tr": [False, False]},
        {"expr": ["not_", _a], "tr": [False, True]},
        # D15 (open): empty composites have no wording at all, negated or not
        {"expr": ["not_", ["all_of", []]], "tr": [False, False]},
        # rendering thresholds
        {"expr": ["all_of", [["starts_with", "A" * 37], ["ends_with", "B" * 37]]], "tr": [False, False]},       # 100 chars: single line
        {"expr": ["all_of", [["starts_with", "A" * 38], ["ends_with", "B" * 37]]], "tr": [False, False]},       # 101 chars: itemised
        {"expr": ["any_of", [["equal_to", ["s", "li\nne"]], _a]], "tr": [False, False]},
        {"expr": ["any_of", [["override", "to be\nsplit", _a], _b]], "tr": [False, False]},
        {"expr": ["all_of", [_a, ["any_of", [_b, ["all_of", [_a, ["is_none"]]]]]]], "tr": [False, False]},
        {"expr": ["all_of", [["hide", ["any_of", [_a, _b]]], _a]], "tr": [False, False]},                       # a wrapped composite is not "composite of composite"
        {"expr": ["all_of", [["override", "", _a]]], "tr": [False, False]},
        # the clause of a sub-matcher reads the same whether its parent is negated or not, and is never abbreviated
        {"expr": ["not_", ["has_entry", ["k"], _a]], "tr": [False, False]},
        {"expr": ["not_", ["has_entry", ["k"], ["not_", _a]]], "tr": [False, False]},
        {"expr": ["not_", ["has_item", _b]], "tr": [False, False]},
        {"expr": ["not_", ["has_all_items", ["is_none"]]], "tr": [False, False]},
        {"expr": ["not_", ["has_length", ["val", ["i", 2]]]], "tr": [False, False]},
        {"expr": ["not_", ["is_type", "dict", ["has_key", ["k"]]]], "tr": [False, False]},
        {"expr": ["has_item", ["all_of", [_a, _b]]], "tr": [False, False]},
        {"expr": ["has_item", ["any_of", [_a, _b]]], "tr": [False, False]},
        {"expr": ["has_all_items", ["any_of", [_a, ["is_none"]]]], "tr": [False, False]},
        {"expr": ["has_entry", ["k"], ["all_of", [_a, ["any_of", [_b, ["is_none"]]]]]], "tr": [False, False]},
        {"expr": ["has_length", ["any_of", [_a, _b]]], "tr": [True, False]},
        # verb transformation
        {"expr": ["has_item", ["not_", ["existing"]]], "tr": [False, False]},
        {"expr": ["not_", ["has_entry", ["a", 0], ["val", ["s", "x"]]]], "tr": [True, False]},
        {"expr": ["override", "can do", _a], "tr": [False, True]},
        {"expr": ["override", "to be", _a], "tr": [True, True]},
        {"expr": ["override", "to look_good now", _a], "tr": [True, False]},
        {"expr": ["is_between", ["i", 1], ["f", 5]], "tr": [True, True]},
        {"expr": ["is_true"], "tr": [False, False]},
    ]

    def gen(self, rng, i):
        depth = rng.choice([1, 2, 2, 3, 3, 3, 4, 4])
        tr = [False, False] if rng.random() < 0.55 else [rng.random() < 0.5, rng.random() < 0.5]
        return {"expr": G.gen_expr(rng, depth), "tr": tr}

    def impl(self, case):
        e, tr = case["expr"], case["tr"]
        desc, after = _describe(e, tr)
        obs = {"desc": desc, "tr_after": after, "children": None, "inner": None, "inner_toggled": None}
        top = _strip_is(e)
        if top[0] in ("all_of", "any_of"):
            # every child ALONE, under a transformer of its own with the same settings
            obs["children"] = [_describe(c, tr)[0] for c in top[1]]
        if top[0] == "not_":
            obs["inner"] = _describe(top[1], tr)[0]
            obs["inner_toggled"] = _describe(top[1], [tr[0], not tr[1]])[0]
        cl = clause_of(e)
        obs["clause"] = None
        if cl is not None:
            host, sub = cl
            obs["clause"] = {
                # the sub-matcher ALONE, the way a clause reads ("… that is equal to 1"): conjugated, its own polarity
                "alone": _describe(sub, [True, False])[0],
                # the host under both polarities of the parent (positive wording / wording under a not_())
                "host_positive": _describe(host, [tr[0], False])[0],
                "host_negated": _describe(host, [tr[0], True])[0],
            }
        return obs

    def oracle(self, case, obs):
        e = case["expr"]
        fails = []
        if not isinstance(obs["desc"], str):
            return [C.Failure("C17/build_description-raises", f"build_description raised {obs['desc']}")]
        top = _strip_is(e)
        if obs["children"] is not None and all(isinstance(d, str) for d in obs["children"]):
            rel = "and" if top[0] == "all_of" else "or"
            if obs["desc"] not in composite_renderings(rel, obs["children"]):
                fails.append(C.Failure(
                    SIG_SIBLING,
                    f"{top[0]}: the composite's text is not made of its children's own descriptions {obs['children']!r}: {obs['desc']!r}"))
        if top[0] == "not_" and isinstance(obs["inner"], str) and in_fragment(e):
            if obs["desc"] == obs["inner"]:
                sig = SIG_EMPTY if has_empty_composite(top[1]) else SIG_NEG_INVISIBLE
                fails.append(C.Failure(sig, f"not_(m) and m have the same description {obs['desc']!r}"))
            elif obs["desc"] != obs["inner_toggled"]:
                fails.append(C.Failure(
                    SIG_NEG_TOGGLE,
                    f"not_(m) is described {obs['desc']!r}; m with the polarity toggled is {obs['inner_toggled']!r}"))
        cl = obs.get("clause")
        if cl and all(isinstance(cl[k], str) for k in ("alone", "host_positive", "host_negated")) and in_fragment(e):
            # "negation in the wording follows negation in the logic": negating the PARENT does not change what is required
            # of the sub-matcher, so the clause must read exactly like the sub-matcher's own (unabbreviated) sentence,
            # under a negated parent as well as under a positive one
            host = clause_of(e)[0]
            for which in ("host_positive", "host_negated"):
                if not cl[which].endswith(cl["alone"]):
                    fails.append(C.Failure(
                        SIG_CLAUSE,
                        f"{host[0]}: the sub-matcher alone reads {cl['alone']!r}, but the sentence of its parent "
                        f"({'under not_()' if which == 'host_negated' else 'not negated'}) is {cl[which]!r}"))
                    break
        return fails

    def request(self, case, obs):
        return {"expr": case["expr"], "tr": {"conjugate": case["tr"][0], "negative": case["tr"][1]}}

    def compare(self, case, obs, ans):
        if "desc" not in ans:
            return "model error: " + str(ans.get("error"))
        if ans["desc"] != obs["desc"]:
            return f"description: model {ans['desc']!r} vs implementation {obs['desc']!r}"
        if ans["desc_pure"] != ans["desc"]:
            return f"model: threaded and pure description differ: {ans['desc']!r} / {ans['desc_pure']!r}"
        after = [ans["tr_after"]["conjugate"], ans["tr_after"]["negative"]]
        if after != obs["tr_after"]:
            return f"state of the shared transformer after build_description: model {after} vs implementation {obs['tr_after']}"
        return None

    def nontrivial(self, case, obs):
        return G.depth_of(case["expr"]) >= 2

    def features(self, case, obs):
        f = ["depth=%d" % G.depth_of(case["expr"]), "tr=%d%d" % tuple(case["tr"])]
        d = obs["desc"]
        if isinstance(d, str):
            f.append("itemised" if d.startswith(":") else "single-line")
            if "\n" in d:
                f.append("multi-line-text")
            if 90 <= len(d) <= 110:
                f.append("near-100-chars")
        cs = G.constructors_of(case["expr"])
        f += ["c:" + c for c in sorted(cs)]
        if G.has_nan(case["expr"]):
            f.append("nan-value")
            if G.has_nested_nan(G.literals_of(case["expr"])):
                f.append("nan-inside-container")
        return f

    def shrink(self, case):
        for e in G.shrink_expr(case["expr"]):
            yield {"expr": e, "tr": case["tr"]}
        if case["tr"] != [False, False]:
            yield {"expr": case["expr"], "tr": [False, False]}


# ------------------------------------------------------------------------------------------------
# injectivity: descriptions grouped by equality versus accepted value sets
# ------------------------------------------------------------------------------------------------

ALPHABETS = {
    # small: exhaustive depth <= 2 in the quick tier (3613 expressions)
    "S": {
        "leaves": [["equal_to", ["i", 1]], ["greater_than", ["i", 0]], ["is_none"]],
        "unary": [["not_"], ["has_item"], ["has_length"], ["has_entry", ["k"]]],
    },
    # large: exhaustive depth <= 2 in the thorough tier (37126 expressions)
    "L": {
        "leaves": [["equal_to", ["i", 1]], ["equal_to", ["s", "a"]], ["greater_than", ["i", 0]], ["is_none"], ["starts_with", "a"],
                   ["is_type_any", "int"]],
        "unary": [["not_"], ["has_item"], ["has_all_items"], ["has_length"], ["has_entry", ["k"]], ["is_type", "int"], ["is_type", "list"]],
    },
}
_NAN_LEAVES = [["equal_to", ["nan", src]] for src in G.NAN_SOURCES]
# values that are not equal to themselves, taken from every source (shared objects and new ones): "identity must not matter"
ALPHABETS["N"] = {
    "leaves": _NAN_LEAVES + [["not_equal_to", ["nan", "math"]], ["not_equal_to", ["nan", "new"]], ["equal_to", ["f", 3]], ["greater_than", ["i", 0]],
                             ["less_than", ["nan", "math"]], ["less_than", ["nan", "calc"]]],
    "unary": [["not_"], ["has_item"], ["has_all_items"], ["has_entry", ["k"]], ["is_type", "float"]],
}
# the same with NaNs INSIDE containers (open finding D46: Python's containers take an identity shortcut)
ALPHABETS["NC"] = {
    "leaves": _NAN_LEAVES[:2] + [["equal_to", ["l", [["nan", "math"]]]], ["equal_to", ["l", [["nan", "new"]]]], ["equal_to", ["d", [["r", ["nan", "json"]]]]],
                                 ["equal_to", ["d", [["r", ["nan", "calc"]]]]], ["is_in", [["nan", "math"]]], ["is_in", [["nan", "new"]]], ["equal_to", ["f", 3]]],
    "unary": [["not_"], ["has_item"], ["has_entry", ["k"]]],
}
# expected values of classes json.dumps cannot write natively, next to the matchers built on their str() text and on look-alikes:
# outside the model's value universe (oracle only)
ALPHABETS["X"] = {
    "leaves": [["equal_to", ["x", n]] for n in G.FOREIGN] + [["equal_to", ["s", G.foreign_text(n)]] for n in G.FOREIGN] +
              [["equal_to", ["l", [["x", "date"]]]], ["equal_to", ["l", [["s", G.foreign_text("date")]]]], ["equal_to", ["d", [["r", ["x", "uuid"]]]]],
               ["equal_to", ["d", [["r", ["s", G.foreign_text("uuid")]]]]], ["equal_to", ["f", 3]], ["equal_to", ["i", 1]], ["not_equal_to", ["x", "decimal"]],
               ["not_equal_to", ["s", G.foreign_text("decimal")]], ["greater_than", ["x", "date"]], ["greater_than", ["s", G.foreign_text("date")]],
               ["is_in", [["x", "bytes"]]], ["is_in", [["s", G.foreign_text("bytes")]]],
               ["equal_to", ["tuple", [["i", 1], ["i", 2]]]], ["equal_to", ["l", [["i", 1], ["i", 2]]]]],
    "unary": [["not_"], ["has_item"], ["has_entry", ["k"]], ["has_all_items"]],
}
# key paths whose keys hold the wording's own separators (", " / " -> " / quotes / brackets), next to the real multi-level paths they
# could be mistaken for; the documents that hold an entry at exactly one of these paths join the separating domain (path_witnesses)
_KP = [[k] for k in G.SEP_KEYS] + [["a"], ["b"], ["a", "b"], ["a", "b, c"], ["a, b", "c"], ["a", "b", "c"], ["a -> b", "c"], ["a", "b -> c"],
                                   [1], [1, "a"], ["1", "a"], [0, 1], ["0, 1"], []]
ALPHABETS["K"] = {
    "leaves": [["has_key", p] for p in _KP] + [["has_entry", p, ["equal_to", ["i", 1]]] for p in _KP[:8] + [["a", "b"], ["a"]]],
    "unary": [["not_"], ["has_item"], ["has_entry", ["k"]], ["has_entry", ["a, b"]], ["has_entry", ["a", "b"]]],
}


def _paths_of(e, out):
    if isinstance(e, list) and e and e[0] in ("has_entry", "has_key") and len(e) >= 2 and isinstance(e[1], list):
        out.append(list(e[1]))
    if isinstance(e, list):
        for x in e[1:] if e and isinstance(e[0], str) else e:
            if isinstance(x, list):
                _paths_of(x, out)


def path_witnesses(exprs, cap=40):
    """for every key path a has_entry of the pool looks up: a document that holds an entry (the value 1, and the value None) at
    exactly that path — the values that tell two key paths apart"""
    paths, seen, docs = [], set(), []
    for e in exprs:
        _paths_of(e, paths)
    for p in paths:
        key = repr(p)
        if key in seen or not p:
            continue
        seen.add(key)
        for leaf in (1, None):
            doc = leaf
            for k in reversed(p):
                doc = {k: doc}
            docs.append(doc)
        if len(docs) >= cap:
            break
    return docs


# separates the leaves of both alphabets and what the unary constructors make of them
DOMAIN = [None, True, ["i", 0], ["i", 1], ["i", 2], ["f", 3], ["s", "a"], ["s", "ab"], ["s", "b"], ["l", []], ["l", [["i", 1]]],
          ["l", [["i", 1], ["s", "a"]]], ["l", [["s", "a"]]], ["l", [None]], ["l", [["l", [["i", 1]]]]], ["l", [["i", 0], ["i", 2]]],
          ["d", [["k", ["i", 1]]]], ["d", [["k", ["s", "a"]]]], ["d", [["k", None]]], ["d", [["k", ["l", [["i", 1]]]]]], ["d", []],
          ["d", [["k", ["i", 0]]]], ["l", [["d", [["k", ["i", 1]]]]]], ["d", [[["i", 1], ["s", "a"]]]], ["d", [["1", ["s", "a"]]]],
          ["nan", "new"], ["l", [["nan", "new"]]], ["d", [["k", ["nan", "new"]]]]]


def _apply_unary(u, e):
    return [u[0], e] if len(u) == 1 else [u[0], u[1], e]


def enumerate_level(alpha, prev):
    out = [list(x) for x in alpha["leaves"]]
    for u in alpha["unary"]:
        out += [_apply_unary(u, e) for e in prev]
    for c in ("all_of", "any_of"):
        out.append([c, []])
        out += [[c, [e]] for e in prev]
        out += [[c, [a, b]] for a in prev for b in prev]
    return out


_ENUM_CACHE = {}


def enumerate_exprs(alphabet, depth):
    key = (alphabet, depth)
    if key not in _ENUM_CACHE:
        alpha = ALPHABETS[alphabet]
        cur = [list(x) for x in alpha["leaves"]]
        for _ in range(depth):
            cur = enumerate_level(alpha, cur)
        _ENUM_CACHE[key] = cur
    return _ENUM_CACHE[key]


_PYDOMAIN = None


_PRIMITIVES = (type(None), bool, int, float, str)
IDENTITY_CAP = 90


def identity_domain(made):
    """The OBJECTS the matchers of a pool were built on, as actual values: a matcher must not behave differently because the value
    it is given happens to be the very object it was built with (same sentence => same accepted values, whichever objects).
    Every object handed to a constructor of the pool; self-equal primitives once per (type, value); containers also as a shallow
    copy (another container around the SAME items); every object also inside a new list and under the key "k" (for has_item /
    has_all_items / has_entry hosts)"""
    out, seen = [], set()
    for x in made:
        if isinstance(x, _PRIMITIVES) and x == x:
            key = (type(x).__name__, x)
            if key in seen:
                continue
            seen.add(key)
        out.append(x)
        if isinstance(x, (list, dict)):
            out.append(copy.copy(x))
        if len(out) >= IDENTITY_CAP:
            break
    return out + [[x] for x in out[:IDENTITY_CAP // 3]] + [{"k": x} for x in out[:IDENTITY_CAP // 3]]


def accepted_set(m, extra=()):
    """which values of DOMAIN (then of `extra`, the identity domain of the pool) the real matcher accepts (an exception is not an
    acceptance)"""
    global _PYDOMAIN
    if _PYDOMAIN is None:
        _PYDOMAIN = [G.to_py(v) for v in DOMAIN]
    bits = []
    for v in list(_PYDOMAIN) + list(extra):
        try:
            bits.append("1" if m.matches(v).is_successful is True else "0")
        except Exception:  # noqa: BLE001 - an exception is not an acceptance
            bits.append("0")
    return "".join(bits)


def gen_pool_expr(rng, alpha, depth):
    if depth <= 0 or rng.random() < 0.25:
        return list(rng.choice(alpha["leaves"]))
    r = rng.random()
    if r < 0.45:
        return _apply_unary(rng.choice(alpha["unary"]), gen_pool_expr(rng, alpha, depth - 1))
    n = rng.choice([0, 1, 2, 2, 2, 3])
    return [rng.choice(["all_of", "any_of"]), [gen_pool_expr(rng, alpha, depth - 1) for _ in range(n)]]


def variants(e):
    """expressions whose wording is likely to be close to e's: negation moved, relationship swapped, children swapped"""
    out = []
    if e[0] in ("all_of", "any_of"):
        other = "any_of" if e[0] == "all_of" else "all_of"
        out.append([other, e[1]])
        out.append(["not_", e])
        out.append([e[0], [["not_", c] for c in e[1]]])
        out.append([other, [["not_", c] for c in e[1]]])
        out.append([e[0], list(reversed(e[1]))])
        if len(e[1]) >= 2:
            out.append([e[0], [e[1][0], [e[0], e[1][1:]]]])
        if len(e[1]) >= 3:
            # the two groupings of "x <rel> y <other> z" with the inner composite behind hide_result_details()
            out.append([e[0], [e[1][0], ["hide", [other, e[1][1:]]]]])
            out.append([other, [["hide", [e[0], e[1][:-1]]], e[1][-1]]])
    elif e[0] == "not_":
        out.append(e[1])
        out.append(["not_", e])
    else:
        out.append(["not_", e])
    return out


_A, _B = ["equal_to", ["i", 1]], ["greater_than", ["i", 0]]
_CLAUSE_SUBS = (["all_of", [_A, _B]], ["any_of", [_A, _B]], ["all_of", [_B, ["any_of", [_A, ["is_none"]]]]], ["any_of", [_A, ["is_none"]]],
                ["all_of", [_A]], _A)
CLAUSE_POOL = [[h, c] for h in ("has_item", "has_all_items", "has_length") for c in _CLAUSE_SUBS] + \
              [[h, k, c] for h, k in (("has_entry", ["k"]), ("is_type", "list"), ("is_type", "int")) for c in _CLAUSE_SUBS]


class Inject(C.Stream):
    """pools / exhaustive ranges of expressions: same description ⇒ same accepted set (real code); texts compared with the model"""
    name = "C17.inject"
    quick_cases = 150
    thorough_cases = 3000
    quick_seconds = 25
    thorough_seconds = 300
    chunk = 10
    _a, _b = ["equal_to", ["i", 1]], ["greater_than", ["i", 0]]
    base_corpus = [
        # D14 (open): not_ over a composite reads like the composite of the negations
        {"mode": "pool", "exprs": [["not_", ["all_of", [_a, _b]]], ["all_of", [["not_", _a], ["not_", _b]]]]},
        # D15 (open): all_of() and any_of() are both ":"
        {"mode": "pool", "exprs": [["all_of", []], ["any_of", []]]},
        # sub-matcher clauses over composites: has_item / has_all_items / has_length / has_entry / typed, each over composites with
        # different accepted sets (a collision here has its own signature)
        {"mode": "pool", "exprs": CLAUSE_POOL},
        # D18 (open): a string argument containing a double quote reads like a composite of two string matchers
        {"mode": "pool", "exprs": [["any_of", [["starts_with", "a"], ["starts_with", "b"]]], ["starts_with", 'a" or to start with "b']]},
        # D33 (open): a dict key that is not a str is written like the str of its JSON rendering: {1: "a"} reads like {"1": "a"}
        {"mode": "pool", "exprs": [["equal_to", ["d", [[["i", 1], ["s", "a"]]]]], ["equal_to", ["d", [["1", ["s", "a"]]]]]]},
        # values that are not equal to themselves, from every source (shared object / new object), positive and negated: whichever
        # NaN OBJECT a matcher was built on, it accepts the same values — the objects themselves are in the identity domain
        {"mode": "pool", "exprs": [["equal_to", ["nan", src]] for src in G.NAN_SOURCES] + [["not_", ["equal_to", ["nan", src]]] for src in G.NAN_SOURCES] +
                                  [["has_item", ["equal_to", ["nan", "math"]]], ["has_item", ["equal_to", ["nan", "new"]]],
                                   ["has_entry", ["k"], ["val", ["nan", "json"]]], ["has_entry", ["k"], ["val", ["nan", "calc"]]]]},
        # D46 (open): a NaN INSIDE an expected container: Python's containers compare identical items without asking ==
        {"mode": "pool", "exprs": [["equal_to", ["d", [["r", ["nan", "math"]]]]], ["equal_to", ["d", [["r", ["nan", "new"]]]]]]},
        # D43 (open): a tuple is worded like the list, which is not equal to it
        {"mode": "pool", "exprs": [["equal_to", ["tuple", [["i", 1], ["i", 2]]]], ["equal_to", ["l", [["i", 1], ["i", 2]]]]]},
        # expected values json.dumps cannot write: no sentence at all (TypeError) — never the sentence of the matcher built on str(value)
        {"mode": "pool", "exprs": [x for n in G.FOREIGN for x in (["equal_to", ["x", n]], ["equal_to", ["s", G.foreign_text(n)]])] +
                                  [["not_", ["equal_to", ["x", "date"]]], ["not_", ["equal_to", ["s", G.foreign_text("date")]]],
                                   ["has_entry", ["k"], ["val", ["x", "uuid"]]], ["has_entry", ["k"], ["val", ["s", G.foreign_text("uuid")]]]]},
        # D44 (open): the flags of a compiled pattern are not in the sentence
        {"mode": "pool", "exprs": [["match_pattern", "ab", None], ["match_pattern", "ab", 0], ["match_pattern", "ab", 2], ["match_pattern", "ab$", 8],
                                  ["match_pattern", "ab$", None]]},
        # D45 (open): a composite behind hide_result_details() is written on its parent's line: "a or b and c" is ambiguous
        {"mode": "pool", "exprs": [["any_of", [_a, ["hide", ["all_of", [_b, ["is_none"]]]]]], ["all_of", [["hide", ["any_of", [_a, _b]]], ["is_none"]]],
                                  ["any_of", [_a, ["all_of", [_b, ["is_none"]]]]]]},
        # D49 (open): inside a clause the scope of a typed matcher is not in the sentence: "a float that is a or is b"
        {"mode": "pool", "exprs": [["has_entry", ["k"], ["any_of", [["is_type", "float", ["equal_to", ["nan", "math"]]], ["not_", ["equal_to", ["nan", "math"]]]]]],
                                  ["has_entry", ["k"], ["is_type", "float", ["any_of", [["equal_to", ["nan", "math"]], ["not_equal_to", ["nan", "math"]]]]]]]},
        # a key that holds the wording's own separators is not a multi-level path (minimised failing inputs of seeded/C17-11)
        {"mode": "pool", "exprs": [["has_key", ["a, b"]], ["has_key", ["a -> b"]]]},
        {"mode": "pool", "exprs": [["has_key", p] for p in _KP] + [["not_", ["has_key", p]] for p in _KP[:6]] +
                                  [["has_entry", p, ["equal_to", ["i", 1]]] for p in (["a, b"], ["a -> b"], ["a", "b"], ['a", "b'], ['a" -> "b'])] +
                                  [["has_entry", ["k"], ["has_key", p]] for p in (["a, b"], ["a -> b"], ["a", "b"])]},
        # D12 / D13 (fixed)
        {"mode": "pool", "exprs": [["all_of", [["not_", _a], _b]], ["all_of", [["not_", _a], ["not_", _b]]]]},
        {"mode": "pool", "exprs": [["not_", ["not_", _a]], ["not_", _a]]},
    ]

    def __init__(self, tier):
        self.tier = tier
        exh = [("S", 2)] if tier == "quick" else [("S", 2), ("L", 2)]
        self.corpus = list(self.base_corpus)
        for alphabet, depth in exh:
            n = len(enumerate_exprs(alphabet, depth))
            self.corpus.append({"mode": "exh-all", "alphabet": alphabet, "depth": depth})
            step = 2000
            for lo in range(0, n, step):
                self.corpus.append({"mode": "exh-range", "alphabet": alphabet, "depth": depth, "lo": lo, "hi": min(n, lo + step)})

    def _exprs(self, case):
        if case["mode"] == "pool":
            return case["exprs"]
        es = enumerate_exprs(case["alphabet"], case["depth"])
        return es if case["mode"] == "exh-all" else es[case["lo"]:case["hi"]]

    def gen(self, rng, i):
        alpha = ALPHABETS[rng.choice(["S", "L", "L", "N", "N", "NC", "X", "K"])]
        pool = []
        for _ in range(rng.choice([15, 25, 40])):
            e = gen_pool_expr(rng, alpha, rng.choice([1, 2, 2, 3]))
            pool.append(e)
            vs = variants(e)
            rng.shuffle(vs)
            pool.extend(vs[:rng.choice([1, 2, 3])])
            if e[0] in ("all_of", "any_of") and len(e[1]) >= 1 and rng.random() < 0.5:
                # the same clause host over this composite and over its dual: their sentences must differ
                other = [("any_of" if e[0] == "all_of" else "all_of"), e[1]]
                h = rng.choice([["has_item"], ["has_all_items"], ["has_length"], ["has_entry", ["k"]], ["is_type", "list"]])
                pool.extend([h + [e], h + [other]])
                if rng.random() < 0.5:
                    pool.extend([["not_", h + [e]], ["not_", h + [["not_", e]]]])
        return {"mode": "pool", "exprs": pool}

    def impl(self, case):
        from lemoncheesecake.matching.matcher import MatcherDescriptionTransformer

        exprs = self._exprs(case)
        groups = collections.OrderedDict()
        descs = []
        env = G.Env([], made=([] if case["mode"] == "pool" else None))
        matchers = [G.to_matcher(e, env=env) for e in exprs]
        extra = identity_domain(env.made) if env.made else []
        if case["mode"] == "pool":
            extra = extra + path_witnesses(exprs)
        n_raise = 0
        for k, (e, m) in enumerate(zip(exprs, matchers)):
            try:
                d = m.build_description(MatcherDescriptionTransformer())
            except Exception as ex:  # noqa: BLE001 - no sentence at all: nothing is said, so nothing wrong is said
                descs.append({"error": type(ex).__name__})
                n_raise += 1
                continue
            descs.append(d)
            groups.setdefault(d, []).append((k, accepted_set(m, extra)))
        collisions = []
        for d, members in groups.items():
            if len({a for _, a in members}) > 1:
                collisions.append({"description": d, "members": [{"expr": exprs[k], "accepts": a} for k, a in members[:12]]})
        obs = {"n": len(exprs), "distinct_descriptions": len(groups), "collisions": collisions[:200], "n_collisions": len(collisions),
               "identity_domain": len(extra), "no_sentence": n_raise}
        if case["mode"] != "exh-all":
            obs["descs"] = descs
        return obs

    def oracle(self, case, obs):
        fails, seen = [], set()
        for col in obs["collisions"]:
            clean = [m for m in col["members"] if not has_empty_composite(m["expr"]) and not has_not_over_composite(m["expr"])]
            plain = [m for m in clean if not has_unescaped_quote_argument(m["expr"])]
            strkeys = [m for m in plain if not has_nonstr_dict_key(m["expr"])]
            unwrapped = [m for m in strkeys if not has_wrapped_composite_in_composite(m["expr"]) and not has_pattern_flags(m["expr"])]
            noflags = [m for m in strkeys if not has_pattern_flags(m["expr"])]
            lists = [m for m in unwrapped if not has_tuple_value(m["expr"])]
            flat = [m for m in lists if not has_container_nan(m["expr"])]
            untyped = [m for m in flat if not (clause_of(m["expr"]) is not None and has_typed_clause_scope(m["expr"]))]
            hosts = [m for m in untyped if is_clause_over_composite(m["expr"])]
            if len({m["accepts"] for m in hosts}) > 1:
                sig, members = SIG_CLAUSE_COLLISION, hosts
            elif len({m["accepts"] for m in untyped}) > 1:
                sig, members = SIG_COLLISION, untyped
            elif len({m["accepts"] for m in flat}) > 1:
                sig, members = SIG_TYPED_SCOPE, flat
            elif len({m["accepts"] for m in lists}) > 1:
                sig, members = SIG_NAN_NESTED, lists
            elif len({m["accepts"] for m in unwrapped}) > 1:
                sig, members = SIG_TUPLE, unwrapped
            elif len({m["accepts"] for m in noflags}) > 1:
                sig, members = SIG_WRAPPED, noflags
            elif len({m["accepts"] for m in strkeys}) > 1:
                sig, members = SIG_FLAGS, strkeys
            elif len({m["accepts"] for m in plain}) > 1:
                sig, members = SIG_KEYTYPE, plain
            elif len({m["accepts"] for m in clean}) > 1:
                sig, members = SIG_QUOTE, clean
            elif any(has_not_over_composite(m["expr"]) for m in col["members"]):
                sig, members = SIG_NOTCOMP, col["members"]
            else:
                sig, members = SIG_EMPTY, col["members"]
            if sig in seen:
                continue
            seen.add(sig)
            a = members[0]
            b = next(m for m in members if m["accepts"] != a["accepts"]) if sig in (SIG_COLLISION, SIG_QUOTE, SIG_CLAUSE_COLLISION, SIG_KEYTYPE,
                                                                                    SIG_NAN_NESTED, SIG_TUPLE, SIG_WRAPPED, SIG_FLAGS, SIG_TYPED_SCOPE) else \
                next(m for m in col["members"] if m["accepts"] != a["accepts"])
            fails.append(C.Failure(sig, f"{a['expr']} and {b['expr']} are both described as {col['description']!r} but accept "
                                        f"different values of the separating domain ({a['accepts']} / {b['accepts']})",
                                   {"description": col["description"]}))
        return fails

    def request(self, case, obs):
        if case["mode"] == "exh-all" or G.has_foreign(self._exprs(case)):
            return None            # values outside the model's universe: the oracle alone decides
        return {"exprs": self._exprs(case)}

    def compare(self, case, obs, ans):
        if "descs" not in ans:
            return "model error: " + str(ans.get("error"))
        for k, (m, o) in enumerate(zip(ans["descs"], obs["descs"])):
            if m != o:
                return f"expression {self._exprs(case)[k]}: model {m!r} vs implementation {o!r}"
        if len(ans["descs"]) != len(obs["descs"]):
            return "number of descriptions differs"
        return None

    def nontrivial(self, case, obs):
        return any(G.depth_of(e) >= 2 for e in self._exprs(case)[:50])

    def features(self, case, obs):
        f = [case["mode"], "collisions" if obs["n_collisions"] else "no-collision"]
        if case["mode"] == "pool":
            es = case["exprs"]
            srcs = {v[1] for e in es for v in G.literals_of(e) if G.is_nan_val(v)}
            if srcs:
                f.append("nan-expected")
                if len(srcs) >= 2:
                    f.append("nan-from-several-sources")
                if srcs & set(G.NAN_SHARED):
                    f.append("nan-shared-object")
            if any(has_container_nan(e) for e in es):
                f.append("nan-inside-container")
            if G.has_foreign(es):
                f.append("non-json-expected-value")
            if obs.get("no_sentence"):
                f.append("description-raises")
            if obs.get("identity_domain"):
                f.append("identity-domain")
            ps = []
            for e in es:
                _paths_of(e, ps)
            if any(isinstance(k, str) and (", " in k or " -> " in k) for p in ps for k in p):
                f.append("key-holds-wording-separator")
            if any(len(p) >= 2 for p in ps) and any(len(p) == 1 for p in ps):
                f.append("one-level-and-multi-level-paths")
        if case["mode"] != "pool":
            f.append("exhaustive:%s/depth<=%d" % (case["alphabet"], case["depth"]))
        n = obs["n"]
        f.append("n<=10" if n <= 10 else "n<=100" if n <= 100 else "n<=2000" if n <= 2000 else "n>2000")
        return f

    def shrink(self, case):
        if case["mode"] != "pool":
            # an exhaustive case shrinks to the pools made of the members of its collisions
            obs = self.impl(case)
            for col in obs["collisions"][:40]:
                yield {"mode": "pool", "exprs": [m["expr"] for m in col["members"]]}
            return
        es = case["exprs"]
        if len(es) > 2:
            half = len(es) // 2
            yield {"mode": "pool", "exprs": es[:half]}
            yield {"mode": "pool", "exprs": es[half:]}
            for i in range(len(es)):
                yield {"mode": "pool", "exprs": es[:i] + es[i + 1:]}
        for i, e in enumerate(es):
            for t in G.shrink_expr(e):
                yield {"mode": "pool", "exprs": es[:i] + [t] + es[i + 1:]}


# ------------------------------------------------------------------------------------------------
# the expected value in the sentence: helpers/text.py:jsonify on values of ANY class
# ------------------------------------------------------------------------------------------------

SIG_WRITTEN_ALIKE = "C17/expected-values-written-alike-but-not-interchangeable"
LOOKALIKES = ["NaN", "null", "true", "1", "1.5", "[1, 2]", "{}", '{"r": 1}', "nan"]
_OPS = {None: "equal_to", "ne": "not_equal_to", "lt": "less_than", "le": "less_than_or_equal_to", "gt": "greater_than",
        "ge": "greater_than_or_equal_to"}


def _to_model_val(v):
    """harness syntax -> the syntax drivers/C17.lean parses: a foreign value travels as (class number, str() text)"""
    if isinstance(v, list) and len(v) == 2 and v[0] == "x":
        return ["x", G.FOREIGN.index(v[1]), G.foreign_text(v[1])]
    if isinstance(v, list) and len(v) == 2 and v[0] == "l":
        return ["l", [_to_model_val(x) for x in v[1]]]
    if isinstance(v, list) and len(v) == 2 and v[0] == "d":
        return ["d", [[k, _to_model_val(x)] for k, x in v[1]]]
    return v


def gen_xval(rng, depth=2):
    r = rng.random()
    if r < 0.3:
        return ["x", rng.choice(G.FOREIGN)]
    if r < 0.45:
        return ["s", G.foreign_text(rng.choice(G.FOREIGN)) if rng.random() < 0.7 else rng.choice(LOOKALIKES)]
    if r < 0.55:
        return ["nan", rng.choice(G.NAN_SOURCES)]
    if depth <= 0 or r < 0.7:
        return G.gen_scalar(rng)
    if r < 0.85:
        return ["l", [G.fresh_nans(gen_xval(rng, depth - 1)) for _ in range(rng.choice([0, 1, 1, 2, 3]))]]
    keys = G.gen_keys(rng, rng.choice([1, 1, 2]))
    return ["d", [[k, G.fresh_nans(gen_xval(rng, depth - 1))] for k in keys]]


def _str_twin(v):
    """the value with every foreign object replaced by the str of its str() text (what `default=str` would write)"""
    if isinstance(v, list) and len(v) == 2 and v[0] == "x":
        return ["s", G.foreign_text(v[1])]
    if isinstance(v, list) and len(v) == 2 and v[0] == "l":
        return ["l", [_str_twin(x) for x in v[1]]]
    if isinstance(v, list) and len(v) == 2 and v[0] == "d":
        return ["d", [[k, _str_twin(x)] for k, x in v[1]]]
    return v


class Jsonify(C.Stream):
    """expected values of any class (JSON-native, NaN, foreign objects, nested) -> the text `jsonify` writes into the sentence (or
    the exception), the sentence of equal_to / a comparator built on them; values written alike must be interchangeable"""
    name = "C17.jsonify"
    quick_cases = 1500
    thorough_cases = 20000
    quick_seconds = 12
    thorough_seconds = 120
    chunk = 100
    corpus = [
        {"vals": [["x", "date"], ["s", "2020-01-02"]], "op": None, "tr": [False, False]},
        {"vals": [["x", n] for n in G.FOREIGN] + [["s", G.foreign_text(n)] for n in G.FOREIGN], "op": None, "tr": [False, False]},
        {"vals": [["l", [["x", "uuid"]]], ["l", [["s", G.foreign_text("uuid")]]], ["d", [["r", ["x", "decimal"]]]], ["d", [["r", ["s", "1.50"]]]]],
         "op": "ne", "tr": [True, True]},
        {"vals": [["nan", "math"], ["nan", "new"], ["nan", "json"], ["nan", "calc"], ["s", "NaN"]], "op": None, "tr": [False, False]},
        {"vals": [["l", [["nan", "math"]]], ["l", [["nan", "new"]]]], "op": None, "tr": [False, False]},                # D46
        {"vals": [["d", [[["i", 1], ["s", "a"]]]], ["d", [["1", ["s", "a"]]]]], "op": None, "tr": [False, False]},   # D33
    ]

    def gen(self, rng, i):
        vals = []
        for _ in range(rng.choice([1, 2, 2, 3])):
            v = gen_xval(rng, rng.choice([0, 1, 2]))
            vals.append(v)
            if G.has_foreign(v) and rng.random() < 0.7:
                vals.append(_str_twin(v))
            if G.has_nan(v) and rng.random() < 0.5:
                vals.append(v if G.has_nested_nan(v) or v[1] in G.NAN_SHARED else ["nan", rng.choice(G.NAN_SOURCES)])
        tr = [False, False] if rng.random() < 0.5 else [rng.random() < 0.5, rng.random() < 0.5]
        return {"vals": vals, "op": rng.choice([None, None, "ne", "lt", "le", "gt", "ge"]), "tr": tr}

    def impl(self, case):
        import lemoncheesecake.matching as M
        from lemoncheesecake.helpers.text import jsonify

        objs = [G.to_py(v) for v in case["vals"]]
        out, sentences = [], []
        for x in objs:
            try:
                out.append(jsonify(x))
            except Exception as ex:  # noqa: BLE001 - classified
                out.append({"error": type(ex).__name__})
            try:
                sentences.append(getattr(M, _OPS[case["op"]])(x).build_description(_T(case["tr"])))
            except Exception as ex:  # noqa: BLE001 - classified
                sentences.append({"error": type(ex).__name__})
        # which values are == to each expected value (Python's operator only), over the objects of the case themselves, a copy of
        # each made of new objects, and the separating domain of C17.inject
        global _PYDOMAIN
        if _PYDOMAIN is None:
            _PYDOMAIN = [G.to_py(v) for v in DOMAIN]
        dom = list(objs) + [G.to_py(v) for v in case["vals"]] + list(_PYDOMAIN)

        def eq_set(x):
            bits = []
            for d in dom:
                try:
                    bits.append("1" if d == x else "0")
                except Exception:  # noqa: BLE001
                    bits.append("0")
            return "".join(bits)

        return {"out": out, "sentences": sentences, "equal_to": [eq_set(x) for x in objs]}

    def oracle(self, case, obs):
        fails, seen = [], set()
        vals = case["vals"]
        for i in range(len(vals)):
            for j in range(i + 1, len(vals)):
                a, b = obs["sentences"][i], obs["sentences"][j]
                if not (isinstance(a, str) and a == b) or obs["equal_to"][i] == obs["equal_to"][j]:
                    continue
                pair = [vals[i], vals[j]]
                if G.key_feature(pair) is not None and G.key_feature([_strkeys(vals[i])]) is None and _strkeys(vals[i]) == _strkeys(vals[j]):
                    sig = SIG_KEYTYPE
                elif G.has_nested_nan(pair) and G.without_nans(vals[i]) == G.without_nans(vals[j]):
                    sig = SIG_NAN_NESTED
                else:
                    sig = SIG_WRITTEN_ALIKE
                if sig in seen:
                    continue
                seen.add(sig)
                fails.append(C.Failure(sig, f"the expected values {vals[i]} and {vals[j]} are both written {a!r}, but they are not equal to the "
                                            f"same values ({obs['equal_to'][i]} / {obs['equal_to'][j]})"))
        return fails

    def request(self, case, obs):
        return {"xvals": [_to_model_val(v) for v in case["vals"]], "op": case["op"],
                "tr": {"conjugate": case["tr"][0], "negative": case["tr"][1]}}

    def compare(self, case, obs, ans):
        if "out" not in ans:
            return "model error: " + str(ans.get("error"))
        for what, key in (("out", "jsonify"), ("sentences", "sentence")):
            for k, (m, o) in enumerate(zip(ans[what], obs[what])):
                mm = m["json"] if "json" in m else {"error": m["error"]}
                if mm != o:
                    return f"{key} of {case['vals'][k]}: model {mm!r} vs implementation {o!r}"
        return None

    def nontrivial(self, case, obs):
        return len(case["vals"]) >= 2

    def features(self, case, obs):
        f = ["op=%s" % case["op"], "tr=%d%d" % tuple(case["tr"])]
        vs = case["vals"]
        if any(G.has_foreign(v) for v in vs):
            f.append("foreign-class")
            if any(G.has_foreign(v) and v[0] in ("l", "d") for v in vs):
                f.append("foreign-nested")
            f += ["x:" + n for n in G.FOREIGN if any(_mentions(v, n) for v in vs)]
        if any(G.has_nan(v) for v in vs):
            f.append("nan")
        if any(isinstance(o, dict) for o in obs["out"]):
            f.append("jsonify-raises")
        ss = [s for s in obs["sentences"] if isinstance(s, str)]
        if len(ss) != len(set(ss)):
            f.append("two-values-one-sentence")
        return f

    def shrink(self, case):
        vs = case["vals"]
        for i in range(len(vs)):
            if len(vs) > 1:
                yield dict(case, vals=vs[:i] + vs[i + 1:])
        for i, v in enumerate(vs):
            if isinstance(v, list) and len(v) == 2 and v[0] in ("l", "d"):
                items = v[1] if v[0] == "l" else [x for _, x in v[1]]
                for x in items:
                    yield dict(case, vals=vs[:i] + [x] + vs[i + 1:])
        if case["op"] is not None:
            yield dict(case, op=None)
        if case["tr"] != [False, False]:
            yield dict(case, tr=[False, False])


def _mentions(v, name):
    if isinstance(v, list) and len(v) == 2 and v[0] == "x":
        return v[1] == name
    return isinstance(v, list) and any(_mentions(x, name) for x in v)


def _strkeys(v):
    """the value with every dict key replaced by the text json.dumps writes for it"""
    import json as _json
    if isinstance(v, list) and len(v) == 2 and v[0] == "d":
        return ["d", [[k if isinstance(k, str) else _json.dumps(G.key_to_py(k)), _strkeys(x)] for k, x in v[1]]]
    if isinstance(v, list) and len(v) == 2 and v[0] == "l":
        return ["l", [_strkeys(x) for x in v[1]]]
    return v


def streams(ctx):
    from props._matcherseq import Seq
    return [Describe(), Inject(ctx.tier), Seq(), Jsonify()]

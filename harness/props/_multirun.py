"""
Stream `again`: ONE built project — the same Suite / Test / fixture-registry OBJECTS, as a long-lived runner or an IDE integration
keeps them (`PreparedProject.create(project)` once, `.run()` several times) — is run 2..3 times in ONE process through the real
`run_suites` under the run-level recorder.  What happens in a run differs from run to run through interpreter state only: failing
acts (raises of the Abort* classes above all) carry a guard `only_in_run: r` (harness/run/gen.py `effective_act`).

Every run is judged ON ITS OWN: all the oracles of the owning property are evaluated on each run's observation against the project
that run really executed (`gen.project_for_run`), and the last run is replayed on the run-level acceptor, which starts from
`G.init` (fresh flags): `Props/C08Again.lean` — consecutive runs of a process are independent runs; nothing of a run's context
(abort flag, aborted suites, failure flag, interrupt) is an input of the next one.  Table `freshContextTable`: the REAL
`RunContext` created after another one has handled an Abort* over the same suite objects skips nothing.
"""
import copy
import itertools

import common as C
from props._runcommon import PropRunStream
from run import gen as G
from run import observe as O
from run import oracles as X
from run import build as B

ABORTS = ("AbortSuite", "AbortAllTests")


class Reuse:
    """builder for observe.run_project: builds the objects for the first run and hands the SAME objects to the later runs; the
    interpreter behind the built functions is re-pointed at the recorder of the current run"""

    def __init__(self):
        self.built, self.interp, self.run_index = None, None, 1

    def __call__(self, project, interp):
        if self.built is None:
            self.interp = interp
            self.built = B.build_project(project, interp)
        else:
            self.interp.__dict__.update(interp.__dict__)     # same dict / list objects: what run_project reads back afterwards
        self.interp.run_index = self.run_index
        return self.built


def _slots(project):
    """scripts a guarded abort may be put into: (script list, description)"""
    for _, s, _ in G.iter_suites(project):
        for t in s["tests"]:
            yield t["script"]
        for h in ("setup_test", "teardown_test", "teardown_suite"):
            if s[h] is not None:
                yield s[h]
        if s["setup_suite"]:
            yield s["setup_suite"]["script"]


def guard_project(project, rng, nruns):
    """guards on the failing acts of the project (in place); makes sure most projects abort something in an early run only"""
    pre_run = {fx["name"] for fx in project["fixtures"] if fx["scope"] == "pre_run"}
    have_abort = False
    for unit, sc in G.scripts_of(project):
        if unit[0] == "fx" and unit[1] in pre_run:
            continue                        # (the pre_run phase may only raise: nothing to replace the act with)
        inner_of_api_call = [id(b) for a in G.iter_acts(sc) if a.get("via") for b in a["script"]]
        for a in G.iter_acts(sc):
            if id(a) in inner_of_api_call:
                continue                    # (the raise inside `save_attachment_file`: guarded with the call, not by itself)
            if G.act_fails(a) and rng.random() < 0.75:
                a["only_in_run"] = rng.choice([1, 1] + list(range(1, nruns + 1)))
                if a["a"] == "raise" and a["kind"] in ABORTS and a["only_in_run"] < nruns:
                    have_abort = True
    slots = list(_slots(project))
    if not have_abort and slots and rng.random() < 0.75:
        sc = rng.choice(slots)
        act = {"a": "raise", "kind": rng.choice(["AbortSuite", "AbortSuite", "AbortAllTests"]),
               "only_in_run": rng.randint(1, nruns - 1)}
        if rng.random() < 0.3:
            act["sub"] = True
        sc.insert(rng.randint(0, len(sc)), act)
    return project


class MultiRunStream(PropRunStream):
    name = "run.again"
    nruns = (2, 2, 2, 3)
    quick_cases = 120
    quick_seconds = 25
    thorough_cases = 1500
    thorough_seconds = 300
    chunk = 10

    def gen(self, rng, i):
        case = super().gen(rng, i)
        k = rng.choice(list(self.nruns))
        case["runs"] = k
        case["event_run"] = rng.randint(1, k)          # the run the case's keyboard interrupt / backend fault belongs to
        guarded = guard_project(copy.deepcopy(case["project"]), rng, k)
        if all(G.is_valid(G.project_for_run(guarded, r)) for r in range(1, k + 1)):
            case["project"] = guarded
        return case

    # ---- the r-th run seen as an ordinary single-run case -----------------------------------------
    def run_case(self, case, r):
        ev = r == case.get("event_run", 1)
        return dict(case, project=G.project_for_run(case["project"], r), interrupt=case["interrupt"] if ev else None,
                    fault=case["fault"] if ev else None)

    def impl(self, case):
        reuse = Reuse()
        runs = []
        for r in range(1, case["runs"] + 1):
            reuse.run_index = r
            rc = self.run_case(case, r)
            o = O.run_project(case["project"], strategy=case["strategy"], gate_seed=case["gseed"] + r - 1,
                              interrupt_at=rc["interrupt"], backend_fault=rc["fault"],
                              start_gates=bool(case.get("start_gates")), builder=reuse)
            o["run_index"] = r
            runs.append(o)
            if o["outcome"].get("hang") or o["outcome"].get("invalid"):
                break                   # (threads of a hung run may linger: later runs would not be observations of anything)
        obs = dict(runs[-1])
        obs["earlier"] = runs[:-1]
        return obs

    def all_runs(self, obs):
        return list(obs.get("earlier") or []) + [{k: v for k, v in obs.items() if k != "earlier"}]

    def oracle(self, case, obs):
        out = []
        for o in self.all_runs(obs):
            r = o["run_index"]
            for f in PropRunStream.oracle(self, self.run_case(case, r), o):
                f.message = "run %d of %d over the same built project: %s" % (r, case["runs"], f.message)
                out.append(f)
        return out

    def request(self, case, obs):
        return PropRunStream.request(self, self.run_case(case, obs["run_index"]), obs)

    def compare(self, case, obs, ans):
        return PropRunStream.compare(self, self.run_case(case, obs["run_index"]), obs, ans)

    def nontrivial(self, case, obs):
        return len(self.all_runs(obs)) >= 2 and PropRunStream.nontrivial(self, self.run_case(case, obs["run_index"]), obs)

    def features(self, case, obs):
        f = PropRunStream.features(self, self.run_case(case, obs["run_index"]), obs)
        runs = self.all_runs(obs)
        f.append("runs-of-one-built-project=%d" % len(runs))
        guards = [a for _, sc in G.scripts_of(case["project"]) for a in G.iter_acts(sc) if "only_in_run" in a]
        f.append("guarded-acts=%s" % ("0" if not guards else "1" if len(guards) == 1 else "2+"))
        if any(a["a"] == "raise" and a["kind"] in ABORTS and a["only_in_run"] < case["runs"] for a in guards):
            f.append("abort-raised-in-an-earlier-run-only")
        kinds = [set(r[3].split(":", 1)[1] for r in o["trace"] if r[0] == "user" and str(r[3]).startswith("raise:")) for o in runs]
        if len(kinds) >= 2 and (kinds[0] & set(ABORTS)) and not (kinds[-1] & set(ABORTS)):
            f.append("first-run-aborted,last-run-did-not")
        if len({str(sorted(o["outcome"].items())) for o in runs}) > 1:
            f.append("runs-end-differently")
        return f

    def shrink(self, case):
        for q in G.shrink_project(case["project"]):
            if all(G.is_valid(G.project_for_run(q, r)) for r in range(1, case["runs"] + 1)):
                yield dict(case, project=q)
        if case["runs"] > 2:
            yield dict(case, runs=2, event_run=min(case.get("event_run", 1), 2))
        for key in ("interrupt", "fault"):
            if case[key]:
                yield dict(case, **{key: None})
        if case["strategy"] != "off":
            yield dict(case, strategy="off", start_gates=False)


def fresh_context_table():
    """What a NEW `RunContext` answers after ANOTHER one (an earlier run of the same process) has handled an exception of every
    class user code can raise, over the SAME suite / test objects: `is_task_to_be_skipped` for a test of the suite the exception
    was handled for, a test of a sub-suite and a test of another suite.  Row: ((class, subclass, suite given), effect on the NEW
    context) — the model: the next run starts from `Flags.none` (RunAgain.nextFlags), where `ctxWouldSkip` is false."""
    import lemoncheesecake.api as lcc
    from lemoncheesecake.runner import RunContext, TestTask
    from lemoncheesecake.suite.core import Suite, Test

    class TestGivesUp(lcc.AbortTest):
        pass

    class SuiteUnusable(lcc.AbortSuite):
        pass

    class EnvironmentDown(lcc.AbortAllTests):
        pass

    class EM:
        def get_pending_failure(self):
            return None, None

    class Sess:
        def __init__(self):
            self.event_manager = EM()
            self.aborted = False
            self.errors = []

        def is_successful(self, location=None):
            return True

        def log_error(self, msg):
            self.errors.append(msg)

    classes = [("exc", False, Exception), ("AbortTest", False, lcc.AbortTest), ("AbortSuite", False, lcc.AbortSuite),
               ("AbortAllTests", False, lcc.AbortAllTests), ("AbortTest", True, TestGivesUp),
               ("AbortSuite", True, SuiteUnusable), ("AbortAllTests", True, EnvironmentDown)]
    rows = []
    for (kind, sub, cls), with_suite in itertools.product(classes, (False, True)):
        suite, other, inner = Suite(None, "s", "s"), Suite(None, "o", "o"), Suite(None, "sub", "sub")
        suite.add_suite(inner)
        t_same, t_sub, t_other = Test("t", "t", lambda: None), Test("u", "u", lambda: None), Test("v", "v", lambda: None)
        suite.add_test(t_same)
        inner.add_test(t_sub)
        other.add_test(t_other)
        first = RunContext(Sess(), None, False, False)
        try:
            raise cls("boom")
        except Exception as e:
            try:
                first.handle_exception(e, suite) if with_suite else first.handle_exception(e)
            except Exception:
                pass
        try:
            first.enable_task_abort()           # … and the earlier run was interrupted on top of it
        except Exception:
            pass
        new = RunContext(Sess(), None, False, False)            # what `_run_suites` does at every call
        skipped = [bool(new.is_task_to_be_skipped(TestTask(t, None))) for t in (t_same, t_sub, t_other)]
        effect = {(False, False, False): "none", (True, False, False): "abortSuite", (True, True, True): "abortAll"}.get(
            tuple(skipped), "other:%r" % (skipped,))
        lean_in = '("%s", %s, %s)' % (kind, "true" if sub else "false", "true" if with_suite else "false")
        rows.append((lean_in, '"%s"' % effect, {"class": cls.__name__, "suite_given": with_suite, "new_context": effect}))
    return C.Table("freshContextTable", "List ((String × Bool × Bool) × String)", rows)

"""
C01.locale — "a run terminates and its report contains every scheduled test exactly once …" when the process that runs the tests
has a locale whose encoding is NOT UTF-8, and the texts of the project are not ASCII.

What the other C01 streams never vary: the ENVIRONMENT of the run (the locale decides how `open(path, "w")` encodes the report
files) and the file backends attached to it.  Here a generated project — nested suites, disabled tests, dependency-skipped tests,
setup / teardown hooks, 1..4 worker threads — whose texts (suite / test names and descriptions, tags, properties, links, disabled
reasons, step descriptions, log messages, check descriptions and details, url names, attachment descriptions, report title and info)
hold Latin-1, other BMP, astral characters and lone surrogates in ~70 % of the cases is run

  * through the REAL `lcc run` glue: arguments parsed by the real argparse definitions of `RunCommand`, a real
    `lemoncheesecake.project.Project` (title / info through `build_report_title` / `build_report_info`),
    `run_suites_from_project(project, cli_args)`: filter → PreparedProject → backends (`--reporting`) → saving strategy
    (`--save-report`) → report dir → `Session.create` → `run_suites` on the worker pool → the event thread → the real file backends;
  * in a CHILD PROCESS whose locale the case chooses: `LC_ALL=C` without locale coercion and without UTF-8 mode (the locale
    encoding is ASCII: 'ANSI_X3.4-1968') or `C.UTF-8` (this host has no ISO-8859-x locale compiled: `locale -a` = C, C.utf8, POSIX);
    several runs per child (a child costs ~0.6 s to start), the two locales side by side;
  * with the file backends of the case: json alone (what `lcc run` saves by default) in most cases, json + html, and json / xml /
    junit combinations in any order.

Oracle (C01's statement on what a user can observe; never calls the model): the run came back within the time-out
(`C01/locale/hang`) without raising to the caller (`C01/locale/run-raised/<Class>`), a report file is in the report directory and
loads — in the locale of the run AND under UTF-8 — (`C01/locale/no-report-on-disk`), and the loaded report as well as the report
object of the run list every scheduled test exactly once at its declared path with one terminal status and every scheduled suite
once with a start and an end (`…/test-missing-from-report`, `…/test-twice`, `…/test-without-terminal-status`,
`…/suite-missing-from-report`, `…/suite-not-closed`, `…/unscheduled-test-in-report`).

What belongs to C10 stays C10's: a run killed by a raising save of the XML or JUnit backend on a text their file cannot carry (a
lone surrogate under any locale, any non-ASCII character under the ASCII locale — `c10.save_raised_signature` → the open findings
`C10/xml-text-limit/…`) is counted (`known:C10/xml-text-limit/…`) and not judged; every other raising save (the JSON backend's in
particular) is.

Model side: the events recorded by a backend subscribed last go to `drivers/C10.lean` (`snap`): the writer model folds them into a
report, which must be the report loaded from report.js (suites, tests, statuses, steps, logs: everything but title / info, which do
not travel by events); the theorems that quantify over the new input class are in `Props/C01Locale.lean`.
"""
import json
import os
import shutil
import subprocess
import sys
import tempfile
import threading

sys.path.insert(0, os.path.dirname(os.path.dirname(os.path.abspath(__file__))))

import common as C
from gen import reports as R

HERE = os.path.abspath(__file__)
TERMINAL = ("passed", "failed", "skipped", "disabled")
FILE_OF = {"json": "report.js", "xml": "report.xml", "junit": "report-junit.xml"}
RECORDER = "zz-lccverif-recorder"

LOCALES = {
    "utf8": {"LC_ALL": "C.UTF-8", "PYTHONUTF8": "0"},
    # no locale coercion, no UTF-8 mode: the locale encoding is ASCII ('ANSI_X3.4-1968'), errors are strict
    "ascii": {"LC_ALL": "C", "LANG": "C", "PYTHONCOERCECLOCALE": "0", "PYTHONUTF8": "0"},
}
WANT_ENCODING = {"ascii": ("ansi_x3.4-1968", "ascii", "us-ascii", "646"), "utf8": ("utf-8", "utf8")}

# ------------------------------------------------------------------------------------------------
# generator
# ------------------------------------------------------------------------------------------------

TEXT_POOLS = {
    "latin1": ["café", "ü", "naïve", " ", "éèà", "ÿ", "\u0085", "crème brûlée", "× 2"],
    "bmp": ["日本語", "Ελληνικά", "€ 5", "503 → retry", " ", "﻿", "�",
            "Ж", "​", "עברית"],
    "astral": ["\U0001F600", "\U00010000", "a\U0001F4A9b", "\U0002000B", "\U000E0001", "\U0001F9EA ok"],
    "surrogate": ["caf\udce9", "\ud800", "x\udfffy", "\udc80\udc81", "\ud83d!"],
}
PROFILES = ["ascii"] * 6 + ["latin1"] * 4 + ["bmp"] * 4 + ["astral"] * 2 + ["surrogate"] * 2 + ["mixed"] * 2
WORDS = ["alpha", "beta", "gamma", "omega", "value", "order", "bill", "x"]
IDENTS = ["alpha", "beta", "gamma", "order", "menu", "bill", "a", "b"]


def gen_backends(rng):
    r = rng.random()
    if r < 0.50:
        return ["json"]                     # what `lcc run` saves by default
    if r < 0.62:
        return rng.choice([["json", "html"], ["html", "json"]])
    if r < 0.70:
        return rng.choice([["console", "json", "html"], ["console", "json"]])       # the default of `lcc run`
    if r < 0.95:
        kinds = list(rng.choice([["json", "xml"], ["json", "junit"], ["json", "xml", "junit"], ["json", "xml"]]))
        rng.shuffle(kinds)
        return kinds
    return rng.choice([["xml"], ["xml", "junit"], ["junit"]])


def gen_spec(rng, profile):
    """profile: "ascii" (no non-ASCII character anywhere) or the pool(s) the non-ASCII texts are drawn from; in a non-ASCII case
    every text position holds one with probability 0.3, and at least one does"""
    pools = [] if profile == "ascii" else list(TEXT_POOLS) if profile == "mixed" else [profile]
    used = []

    def text(plain, position, p=0.3, alone=True):
        if pools and rng.random() < p:
            used.append(position)
            s = rng.choice(TEXT_POOLS[rng.choice(pools)])
            return rng.choice(([s] if alone else []) + [s + " " + plain, plain + " " + s])
        return plain

    def md(kind, ident):
        # (the loader refuses two tests / two sub-suites of a suite with the same description: the identifier stays in it)
        d = {"desc": text("desc of " + ident, kind + "-description", alone=False), "tags": [], "props": [], "links": []}
        if rng.random() < 0.3:
            d["tags"] = [text(rng.choice(WORDS), "tag", 0.5) for _ in range(rng.randint(1, 2))]
        if rng.random() < 0.25:
            d["props"] = [[rng.choice(["priority", "area"]) if rng.random() < 0.7 else text("key", "property-name", 0.8),
                           text(rng.choice(WORDS), "property-value", 0.5)]]
        if rng.random() < 0.2:
            d["links"] = [["http://bugs/%d" % rng.randint(1, 99), rng.choice([None, text("ticket", "link-name", 0.6)])]]
        return d

    def acts(where):
        out = []
        for _ in range(rng.randint(0, 4)):
            r = rng.random()
            if r < 0.2:
                out.append(["step", text("step %d" % rng.randint(0, 5), "step-description")])
            elif r < 0.55:
                out.append(["log", rng.choice(["debug", "info", "warn", "error", "info", "info"]), text("m%d" % rng.randint(0, 99), "log-message", 0.45)])
            elif r < 0.78:
                out.append(["check", rng.random() < 0.75, text("value is right", "check-description"),
                            rng.choice([None, text("got 2", "check-details", 0.5)])])
            elif r < 0.86:
                out.append(["url", "http://x/%d" % rng.randint(0, 9), rng.choice([None, text("a url", "url-name", 0.5)])])
            elif r < 0.92:
                out.append(["attach", "data%d.txt" % rng.randint(0, 9), rng.choice([None, text("some data", "attachment-description", 0.5)]),
                            text("content", "attachment-content", 0.3)])
            elif r < 0.96 and where == "test":
                out.append(["info", text("build", "info-name", 0.4), text("1.2", "info-value", 0.5)])
            else:
                out.append(["raise", text("generated failure", "exception-message", 0.4)])
        return out

    def suite(ident, depth):
        tests = []
        n_tests = rng.choice([1, 2, 2, 3, 4]) if depth > 1 or rng.random() < 0.85 else 0
        for i in range(n_tests):
            mode = rng.choice(["run"] * 6 + ["disabled", "dep"])
            if mode == "dep" and not (tests and tests[-1]["mode"] == "run"):
                mode = "run"
            t = dict(md("test", "%s_t%d" % (ident, i)), name="%s_t%d" % (ident, i), acts=acts("test"), mode=mode)
            if mode == "disabled":
                t["reason"] = rng.choice([None, text("not ready", "disabled-reason", 0.5)])
            tests.append(t)
        # declared names (`@lcc.test(name=…)`): never on a test another one depends on (depends_on takes a dotted PATH)
        for i, t in enumerate(tests):
            nxt = tests[i + 1]["mode"] if i + 1 < len(tests) else None
            if nxt != "dep" and rng.random() < (0.45 if pools else 0.15):
                t["dname"] = "%s %d" % (text(rng.choice(IDENTS), "test-name", 0.8), i)
        n_subs = (rng.choice([0, 0, 1, 2]) if depth < 3 else 0) if n_tests else rng.choice([1, 2])
        subs = [suite("%s_s%d" % (ident, i), depth + 1) for i in range(n_subs)]
        out = dict(md("suite", ident), name=ident, tests=tests, subs=subs, setup=rng.choice([None, None, None, acts("hook")]),
                   teardown=rng.choice([None, None, None, acts("hook")]))

        def has_dep(x):
            return any(t["mode"] == "dep" for t in x["tests"]) or any(has_dep(y) for y in x["subs"])
        if rng.random() < (0.4 if pools else 0.1) and not has_dep(out):
            out["dname"] = "%s %s" % (text(rng.choice(IDENTS), "suite-name", 0.8), ident[-1])
        return out

    for _ in range(50):
        del used[:]
        spec = {"suites": [suite("top%d" % i, 1) for i in range(rng.choice([1, 1, 2, 3]))], "nb_threads": rng.choice([1, 1, 2, 3, 4]),
                "title": rng.choice([None, None, text("Test report", "report-title", 0.6)]),
                "info": [[text("build", "info-name", 0.4), text("1.2", "info-value", 0.5)]] if rng.random() < 0.3 else []}
        if not pools or used:
            return spec
    return spec


def strings_of(spec):
    """(position, string) for every text of the project"""
    out = [("report-title", spec.get("title"))]
    for k, v in spec.get("info", []):
        out.extend([("info-name", k), ("info-value", v)])

    def of_md(kind, x):
        out.append((kind + "-name", x.get("dname")))
        out.append((kind + "-description", x.get("desc")))
        out.extend(("tag", t) for t in x.get("tags", []))
        for k, v in x.get("props", []):
            out.extend([("property-name", k), ("property-value", v)])
        out.extend(("link-name", n) for _, n in x.get("links", []))

    def of_acts(acts):
        for a in acts or []:
            if a[0] == "step":
                out.append(("step-description", a[1]))
            elif a[0] == "log":
                out.append(("log-message", a[2]))
            elif a[0] == "check":
                out.extend([("check-description", a[2]), ("check-details", a[3])])
            elif a[0] == "url":
                out.append(("url-name", a[2]))
            elif a[0] == "attach":
                out.extend([("attachment-description", a[2]), ("attachment-content", a[3])])
            elif a[0] == "info":
                out.extend([("info-name", a[1]), ("info-value", a[2])])
            elif a[0] == "raise":
                out.append(("exception-message", a[1]))

    def of_suite(s):
        of_md("suite", s)
        of_acts(s.get("setup"))
        of_acts(s.get("teardown"))
        for t in s["tests"]:
            of_md("test", t)
            out.append(("disabled-reason", t.get("reason")))
            of_acts(t["acts"])
        for x in s["subs"]:
            of_suite(x)
    for s in spec["suites"]:
        of_suite(s)
    return [(p, s) for p, s in out if isinstance(s, str)]


def char_classes(s):
    out = set()
    for ch in s:
        c = ord(ch)
        if 0xD800 <= c <= 0xDFFF:
            out.add("lone-surrogate")
        elif c > 0xFFFF:
            out.add("astral")
        elif c > 0xFF:
            out.add("bmp")
        elif c > 0x7F:
            out.add("latin1")
    return out


def text_profile(spec):
    """the classes `c10.text_profile` knows (what decides whether the XML / JUnit files can carry the report)"""
    out = set()
    for _, s in strings_of(spec):
        cl = char_classes(s)
        if "lone-surrogate" in cl:
            out.add("lone-surrogate")
        if cl - {"lone-surrogate"}:
            out.add("non-ascii")
    return sorted(out)


def scheduled(spec):
    """the harness' own enumeration of what the project schedules: ([(path, mode)], [suite path])"""
    tests, suites = [], []

    def walk(s, prefix):
        path = prefix + [s.get("dname") or s["name"]]
        suites.append(path)
        for t in s["tests"]:
            tests.append((path + [t.get("dname") or t["name"]], t["mode"]))
        for x in s["subs"]:
            walk(x, path)
    for s in spec["suites"]:
        walk(s, [])
    return tests, suites


# ------------------------------------------------------------------------------------------------
# the real run (child process)
# ------------------------------------------------------------------------------------------------

def build_suites(spec):
    import lemoncheesecake.api as lcc
    from lemoncheesecake.suite.loader import load_suites_from_classes

    def body(acts):
        def run():
            for a in acts:
                if a[0] == "step":
                    lcc.set_step(a[1])
                elif a[0] == "log":
                    getattr(lcc, "log_" + ("warning" if a[1] == "warn" else a[1]))(a[2])
                elif a[0] == "check":
                    lcc.log_check(a[2], a[1], a[3])
                elif a[0] == "url":
                    lcc.log_url(a[1], a[2])
                elif a[0] == "attach":
                    lcc.save_attachment_content(a[3], a[1], a[2])
                elif a[0] == "info":
                    lcc.add_report_info(a[1], a[2])
                elif a[0] == "raise":
                    raise RuntimeError(a[1])
        return run

    def decorate(f, x):
        if x.get("tags"):
            f = lcc.tags(*x["tags"])(f)
        for k, v in x.get("props", []):
            f = lcc.prop(k, v)(f)
        for url, name in x.get("links", []):
            f = lcc.link(url, name)(f)
        return f

    def cls(s, prefix):
        ns = {}
        path = prefix + [s.get("dname") or s["name"]]
        prev = None
        for t in s["tests"]:
            f = (lambda b: (lambda self: b()))(body(t["acts"]))
            f.__name__ = t["name"]
            f = lcc.test(t["desc"], name=t.get("dname"))(f)
            f = decorate(f, t)
            if t["mode"] == "disabled":
                f = lcc.disabled(t.get("reason"))(f)
            elif t["mode"] == "dep" and prev is not None:
                f = lcc.depends_on(".".join(path + [prev]))(f)     # skipped when the previous test failed
            ns[t["name"]] = f
            prev = t["name"]
        if s["setup"] is not None:
            ns["setup_suite"] = (lambda b: (lambda self: b()))(body(s["setup"]))
        if s["teardown"] is not None:
            ns["teardown_suite"] = (lambda b: (lambda self: b()))(body(s["teardown"]))
        for sub in s["subs"]:
            ns[sub["name"]] = cls(sub, path)
        c = type(s["name"], (object,), ns)
        return decorate(lcc.suite(s["desc"], name=s.get("dname"))(c), s)
    return load_suites_from_classes([cls(s, []) for s in spec["suites"]])


def account(report, own_walk):
    """what a report lists: tests (path, status) and suites (path, opened, closed).  `own_walk`: along the private lists of the
    live report object (every entry, duplicates included); otherwise through the accessors a reader uses"""
    tests, suites = [], []

    def walk(s, prefix):
        path = prefix + [s.name]
        suites.append([path, s.start_time is not None, s.end_time is not None])
        for t in (list(s._tests.values()) if own_walk else s.get_tests()):
            tests.append([path + [t.name], t.status])
        for x in (s._suites if own_walk else s.get_suites()):
            walk(x, path)
    for s in (report._suites if own_walk else report.get_suites()):
        walk(s, [])
    return {"tests": tests, "suites": suites, "title": report.title, "info": [[i[0], i[1]] for i in report.info]}


def load_file(path):
    """real loader → {"nf", "account"} or a classified failure"""
    from lemoncheesecake.reporting.loader import load_report
    try:
        rep = load_report(path)
    except Exception as e:  # classified: a report that does not load is what the oracle looks for
        return {"error": type(e).__name__, "msg": str(e)[:200]}
    try:
        return {"nf": R.nf_report(rep), "account": account(rep, False)}
    except Exception as e:
        return {"error": "nf:" + type(e).__name__, "msg": str(e)[:200]}


def run_one(case, top, watchdog=20.0):
    """ONE real `lcc run` of the case's project in THIS process (whose locale the parent chose) → observation"""
    from props import c10
    from props._cli import real_parser
    import lemoncheesecake.project as LP
    from lemoncheesecake.cli.commands.run import run_suites_from_project
    from lemoncheesecake.reporting.backend import ReportingBackend, ReportingSessionBuilderMixin
    from lemoncheesecake.reporting.backends.html import HtmlBackend
    from lemoncheesecake.reporting.backends.console import ConsoleBackend
    from lemoncheesecake.reporting.report import format_time_as_iso8601, parse_iso8601_time
    from lemoncheesecake.session import Session

    spec = case["spec"]
    os.makedirs(top)
    report_dir = os.path.join(top, "report")
    side = {"recorded": [], "report": None}
    attached = list(case["backends"])
    backends = {}
    handler_errors = []      # [backend, handler, exception class, text] of the handlers of the backends that save no report file

    class Watched(ReportingBackend, ReportingSessionBuilderMixin):
        """the real console / html backend; every handler of the session it creates is observed (what it raises is re-raised)"""

        def __init__(self, inner):
            self.inner = inner

        def get_name(self):
            return self.inner.get_name()

        def create_reporting_session(self, *a, **kw):
            return WatchedSession(self.inner.create_reporting_session(*a, **kw), self.inner.get_name())

    class WatchedSession:
        def __init__(self, sess, kind):
            self._sess, self._kind = sess, kind

        def __getattr__(self, name):
            h = getattr(self._sess, name)
            if not (name.startswith("on_") and callable(h)):
                return h

            def handler(event):
                try:
                    return h(event)
                except BaseException as e:
                    handler_errors.append([self._kind, name, type(e).__name__, str(e)[:160]])
                    raise
            return handler
    for k in attached:
        backends[k] = Watched(HtmlBackend()) if k == "html" else Watched(ConsoleBackend()) if k == "console" \
            else c10.make_backend(k, case.get("variant", 0))

    class Recorder:
        def __init__(self, report):
            side["report"] = report

        def __getattr__(self, name):
            if name.startswith("on_"):
                return self._after
            raise AttributeError(name)

        def _after(self, event):
            ce = R.canon_event(event)
            # the value the serialiser writes (millisecond text): float rounding is C09.time's subject
            ce["t"] = R._ms(parse_iso8601_time(format_time_as_iso8601(event.time)))
            side["recorded"].append(ce)

    class RecorderBackend(ReportingBackend, ReportingSessionBuilderMixin):
        def get_name(self):
            return RECORDER

        def create_reporting_session(self, report_dir, report, parallel, report_saving_strategy):
            return Recorder(report)

    class GeneratedProject(LP.Project):
        def __init__(self):
            LP.Project.__init__(self, top)
            self.reporting_backends = dict(backends)
            self.reporting_backends[RECORDER] = RecorderBackend()
            self.show_command_line_in_report = False

        def load_suites(self):
            return build_suites(spec)

        def load_fixtures(self):
            return []

        def build_report_title(self):
            return spec.get("title")

        def build_report_info(self):
            return [tuple(x) for x in spec.get("info", [])]

    argv = ["--report-dir", report_dir, "--threads", str(spec["nb_threads"]), "--reporting"] + attached + [RECORDER]
    if case.get("save"):
        argv += ["--save-report", case["save"]]
    old_instance = Session._instance
    out = {}

    def body():
        try:
            cli_args = real_parser().parse_args(argv)
            out["exit"] = run_suites_from_project(GeneratedProject(), cli_args)
        except SystemExit as e:
            out["raised"] = ["SystemExit", str(e.code)]
        except BaseException as e:        # classified, never propagated
            out["raised"] = [type(e).__name__, str(e)[-400:]]

    th = threading.Thread(target=body, daemon=True, name="lccverif-c01loc")
    th.start()
    th.join(watchdog)
    if th.is_alive():
        return {"outcome": {"hang": watchdog}}
    Session._instance = old_instance
    obs = {"outcome": {"raised": out["raised"][0], "text": out["raised"][1].replace(top, "<tmp>")} if "raised" in out else {"exit": out["exit"]},
           "events": side["recorded"],
           "save_errors": {k: be.save_errors for k, be in backends.items() if hasattr(be, "save_errors") and be.save_errors},
           "handler_errors": handler_errors,
           "files": sorted(os.listdir(report_dir)) if os.path.isdir(report_dir) else None,
           "memory": account(side["report"], True) if side["report"] is not None else None,
           "loaded": {}}
    for k in attached:
        if k in ("json", "xml"):
            p = os.path.join(report_dir, FILE_OF[k])
            obs["loaded"][k] = load_file(p) if os.path.exists(p) else None
    return obs


def child_main(batchfile, out):
    """`python _c01loc.py --child batch.json out.jsonl`: the runs of the batch one after the other in THIS process; one JSON line
    per finished run (flushed), so that a run that hangs only loses itself"""
    import locale
    batch = json.load(open(batchfile))
    with open(out, "w") as fh:
        fh.write(json.dumps({"encoding": locale.getpreferredencoding(False)}) + "\n")
        fh.flush()
        for i, case in enumerate(batch["cases"]):
            obs = run_one(case, os.path.join(batch["top"], "c%d" % i), watchdog=float(batch.get("watchdog", 20.0)))
            fh.write(json.dumps({"i": i, "obs": obs}) + "\n")
            fh.flush()
            if "hang" in obs["outcome"]:
                fh.close()
                os._exit(3)         # the stuck run still holds the session singleton and worker threads: start afresh
    return 0


# ------------------------------------------------------------------------------------------------
# parent side
# ------------------------------------------------------------------------------------------------

def child_env(locale_name):
    env = {k: v for k, v in os.environ.items() if k not in ("LC_ALL", "LC_CTYPE", "LANG", "LANGUAGE", "PYTHONUTF8", "PYTHONCOERCECLOCALE",
                                                             "PYTHONIOENCODING")}
    env.update(LOCALES[locale_name], PYTHONDONTWRITEBYTECODE="1", LCC_REPO=str(C.REPO))
    return env


def run_batch(cases, timeout=180, per_child=10, watchdog=20.0):
    """cases (any locales) → observations in the same order; child processes of at most `per_child` runs under one locale each, side
    by side; a child that stopped at a hanging run is restarted on the cases it did not reach"""
    top = tempfile.mkdtemp(prefix="lccverif-c01loc-")
    results = [None] * len(cases)
    try:
        by_locale = {}
        for n, c in enumerate(cases):
            by_locale.setdefault(c["locale"], []).append(n)
        todo = [(loc, idx[k:k + per_child]) for loc, idx in by_locale.items() for k in range(0, len(idx), per_child)]
        rnd = 0
        while todo:
            procs = []
            for j, (loc, idx) in enumerate(todo):
                d = os.path.join(top, "%s-%d-%d" % (loc, rnd, j))
                os.makedirs(d)
                bf, of = os.path.join(d, "batch.json"), os.path.join(d, "out.jsonl")
                with open(bf, "w") as fh:
                    json.dump({"top": os.path.join(d, "runs"), "cases": [cases[n] for n in idx], "watchdog": watchdog}, fh)
                p = subprocess.Popen([sys.executable, HERE, "--child", bf, of], env=child_env(loc), stdout=subprocess.DEVNULL,
                                     stderr=subprocess.PIPE)
                procs.append((loc, idx, d, of, p))
            todo = []
            for loc, idx, d, of, p in procs:
                try:
                    _, err = p.communicate(timeout=timeout)
                except subprocess.TimeoutExpired:
                    p.kill()
                    _, err = p.communicate()
                lines = [json.loads(l) for l in open(of)] if os.path.exists(of) else []
                if not lines:
                    raise RuntimeError("locale child (%s) produced nothing, rc=%s: %s" % (loc, p.returncode, err[-800:].decode("utf-8", "replace")))
                enc = lines[0]["encoding"]
                done = 0
                for l in lines[1:]:
                    n = idx[l["i"]]
                    obs = l["obs"]
                    obs["encoding"] = enc
                    # what a reader in the PARENT's (UTF-8) locale finds
                    obs["parent_loaded"] = {}
                    for k in (obs.get("loaded") or {}):
                        path = os.path.join(d, "runs", "c%d" % l["i"], "report", FILE_OF[k])
                        obs["parent_loaded"][k] = load_file(path) if os.path.exists(path) else None
                    results[n] = obs
                    done += 1
                rest = idx[done:]
                if rest:
                    # only a run that hung makes the child stop early (exit 3): the cases it did not reach go to a new child
                    if done == 0 or "hang" not in results[idx[done - 1]]["outcome"]:
                        raise RuntimeError("locale child (%s) died rc=%s after %d/%d runs: %s" % (
                            loc, p.returncode, done, len(idx), err[-800:].decode("utf-8", "replace")))
                    todo.append((loc, rest))
            rnd += 1
        return results
    finally:
        shutil.rmtree(top, ignore_errors=True)


def _compact(obs):
    """the loaded normal forms are large and mostly identical: keep one copy"""
    table = []

    def put(load):
        if load and "nf" in load:
            if load["nf"] not in table:
                table.append(load["nf"])
            return dict(load, nf=table.index(load["nf"]))
        return load
    for key in ("loaded", "parent_loaded"):
        obs[key] = {k: put(v) for k, v in (obs.get(key) or {}).items()}
    obs["nfs"] = table
    return obs


class Locale(C.Stream):
    name = "C01.locale"
    prop = "C01"
    driver = "drivers/C10.lean"
    quick_cases = 139
    thorough_cases = 1400
    quick_seconds = 10
    thorough_seconds = 150
    chunk = 48
    corpus = []

    def __init__(self):
        self._pending = []
        self._cache = {}
        self._corpus_done = False

    # -- input ---------------------------------------------------------------------------------
    def gen(self, rng, i):
        profile = rng.choice(PROFILES)
        case = {"locale": rng.choice(["ascii", "ascii", "ascii", "utf8", "utf8"]), "backends": gen_backends(rng), "variant": rng.randint(0, 3),
                "save": rng.choice([None, None, None, "at_each_test", "at_each_log", "at_end_of_tests", "at_each_suite", "at_each_failed_test"]),
                "texts": profile, "spec": gen_spec(rng, profile)}
        self._pending.append(case)       # run together with the other cases of the chunk (see impl)
        return case

    # -- real code -----------------------------------------------------------------------------
    def impl(self, case):
        key = C.case_hash(case)
        if key not in self._cache:
            batch = [case] + [c for c in self._pending if C.case_hash(c) != key]
            if self._pending and not self._corpus_done:
                # a stream run (not a replay): the corpus cases that follow join the first batch
                batch += [c for c in self.corpus if C.case_hash(c) != key]
            self._corpus_done = True
            self._pending = []
            for c, obs in zip(batch, run_batch(batch)):
                self._cache[C.case_hash(c)] = obs
        else:
            self._pending = [c for c in self._pending if C.case_hash(c) != key]
        return _compact(self._cache.pop(key))

    # -- the property, on observations ------------------------------------------------------------
    def known_limit(self, case, obs):
        """the run was stopped by a raising save that is a registered finding of ANOTHER property (C10: the XML / JUnit files cannot
        carry the text): its signature, else None"""
        from props import c10
        profile = text_profile(case["spec"])
        sigs = [c10.save_raised_signature(kind, e[1], profile, case["locale"]) for kind, errs in (obs.get("save_errors") or {}).items()
                for e in errs]
        known = [s for s in sigs if s.startswith("C10/xml-text-limit/")]
        return known[0] if known and len(known) == len(sigs) else None

    def console_limit(self, case, obs):
        """the run was stopped by the console backend failing to ENCODE a text for the standard output (the only handler that
        raised, and it raised UnicodeEncodeError): the signature of that finding, else None"""
        errs = obs.get("handler_errors") or []
        if errs and all(e[0] == "console" and e[2] == "UnicodeEncodeError" for e in errs) and not obs.get("save_errors"):
            return "C01/locale/console-cannot-print-text"
        return None

    def oracle(self, case, obs):
        F = C.Failure
        where = "locale %s, backends %s, %d thread(s)" % (case["locale"], "+".join(case["backends"]), case["spec"]["nb_threads"])
        out = obs["outcome"]
        if "hang" in out:
            return [F("C01/locale/hang", "the run did not come back within %ss (%s)" % (out["hang"], where))]
        if self.known_limit(case, obs):
            return []
        unprintable = self.console_limit(case, obs)
        if unprintable:
            h = obs["handler_errors"][0]
            return [F(unprintable, "the console backend cannot print a text of the project on its standard output (%s.%s raised %s: %s) on the "
                      "event-handling thread: event handling stops for every backend, the run raised %s, report files left: %s (%s)" % (
                          h[0], h[1], h[2], h[3], out.get("raised"), obs.get("files"), where))]
        fails = []
        if "raised" in out:
            errs = "; ".join("%s save #%d raised %s: %s" % (k, e[0] + 1, e[1], e[2]) for k, v in (obs.get("save_errors") or {}).items() for e in v)
            fails.append(F("C01/locale/run-raised/" + out["raised"], "the run raised %s instead of ending with a report (%s): %s%s" % (
                out["raised"], where, out["text"][-300:], ("; " + errs) if errs else "")))
        tests, suites = scheduled(case["spec"])
        views = []
        if obs.get("memory") is not None:
            views.append(("the report object of the run", obs["memory"]))
        elif "raised" not in out:
            fails.append(F("C01/locale/no-report", "the run ended without ever creating a report (%s)" % where))
        profile = text_profile(case["spec"])
        disk = "json" if "json" in case["backends"] else "xml" if "xml" in case["backends"] else None
        if disk == "xml" and ("lone-surrogate" in profile or case["locale"] != "utf8" and "non-ascii" in profile):
            disk = None             # C09 / C10: what report.xml can carry
        if disk is not None:
            for who, key in (("the locale of the run", "loaded"), ("a UTF-8 locale", "parent_loaded")):
                load = (obs.get(key) or {}).get(disk)
                if load is None:
                    fails.append(F("C01/locale/no-report-on-disk", "no %s is left in the report directory (%s; files: %s)" % (
                        FILE_OF[disk], where, obs.get("files"))))
                    break
                if "account" not in load:
                    fails.append(F("C01/locale/no-report-on-disk", "%s does not load under %s (%s): %s" % (FILE_OF[disk], who, where, load)))
                    continue
                views.append(("%s loaded under %s" % (FILE_OF[disk], who), load["account"]))
        seen_sigs = set()
        for what, acc in views:
            for f in account_failures(tests, suites, acc, what, where):
                if f.signature not in seen_sigs:
                    seen_sigs.add(f.signature)
                    fails.append(f)
        return fails

    # -- model ---------------------------------------------------------------------------------
    def request(self, case, obs):
        if not obs.get("events") or "hang" in obs["outcome"]:
            return None
        return {"op": "snap", "events": R.wire(obs["events"]), "nb_threads": case["spec"]["nb_threads"], "strategies": [], "clock": [0],
                "want": []}

    def compare(self, case, obs, ans):
        if "error" in ans:
            return "model error: " + str(ans["error"])
        if str(obs.get("encoding", "")).lower() not in WANT_ENCODING[case["locale"]]:
            return "the child's locale encoding is %r, expected one of %s" % (obs.get("encoding"), WANT_ENCODING[case["locale"]])
        if self.known_limit(case, obs) or self.console_limit(case, obs):
            return None             # the recorded stream is cut where the XML / JUnit save (C10 compares that) / the console raised
        if not (ans["safe"] and ans["wf"] and ans["fresh"]):
            return "the event stream of the run is not accepted: safe=%s wf=%s fresh=%s" % (ans["safe"], ans["wf"], ans["fresh"])
        if ans["handled"] != len(obs["events"]):
            return "the writer model handled %d of the %d recorded events (%s)" % (ans["handled"], len(obs["events"]), ans["err"])
        load = (obs.get("loaded") or {}).get("json")
        if load is None or "nf" not in load:
            return None if "json" not in case["backends"] else "the model folds the %d events into a report; report.js: %s" % (len(obs["events"]), load)
        strip = lambda nf: {k: v for k, v in nf.items() if k not in ("title", "info")}     # set outside the event stream
        final_m = R.nf_of_desc(R.unwire(ans["final"]))
        got = obs["nfs"][load["nf"]]
        if strip(final_m) != strip(got):
            from props import c10
            return "report.js (loaded in the %s locale) differs from the writer model's report: %s" % (
                case["locale"], c10._first_diff(strip(final_m), strip(got)))
        pl = (obs.get("parent_loaded") or {}).get("json")
        if pl is not None and "nf" in pl and obs["nfs"][pl["nf"]] != got:
            return "report.js written under the %s locale loads as another report under UTF-8" % case["locale"]
        return None

    # -- statistics ----------------------------------------------------------------------------
    def nontrivial(self, case, obs):
        tests, _ = scheduled(case["spec"])
        return len(tests) >= 1 and bool(obs.get("events")) and "hang" not in obs["outcome"]

    def features(self, case, obs):
        f = ["locale=" + case["locale"], "backends=" + "+".join(case["backends"]), "texts=" + case["texts"],
             "threads=%d" % case["spec"]["nb_threads"], "save=" + str(case.get("save")), "outcome=" + sorted(obs["outcome"])[0]]
        strs = strings_of(case["spec"])
        classes = set()
        for pos, s in strs:
            cl = char_classes(s)
            classes |= cl
            if cl:
                f.append("non-ascii-in:" + pos)
        f = sorted(set(f))
        f += ["has:" + c for c in sorted(classes)] or ["has:ascii-only"]
        f.append("non-ascii-text" if classes else "ascii-only-text")
        f.append("%s|%s" % (case["locale"], "non-ascii" if classes else "ascii-only"))
        k = self.known_limit(case, obs) or self.console_limit(case, obs)
        if k:
            f.append("known:" + k)
        tests, suites = scheduled(case["spec"])
        modes = {m for _, m in tests}
        f += ["with-" + m + "-test" for m in sorted(modes - {"run"})]
        if any(len(p) > 1 for p in suites):
            f.append("nested-suites")
        st = [s for _, s in ((obs.get("memory") or {}).get("tests") or [])]
        f += ["status:" + s for s in sorted(set(map(str, st)))]
        return f

    def shrink(self, case):
        spec = case["spec"]

        def with_suites(ss):
            return dict(case, spec=dict(spec, suites=ss))
        ss = spec["suites"]
        for i in range(len(ss)):
            if len(ss) > 1:
                yield with_suites(ss[:i] + ss[i + 1:])
        for i, s in enumerate(ss):
            if s["subs"]:
                yield with_suites(ss[:i] + [dict(s, subs=[])] + ss[i + 1:]) if s["tests"] else with_suites(ss[:i] + s["subs"] + ss[i + 1:])
            for j in range(len(s["tests"])):
                if len(s["tests"]) > 1 and all(t["mode"] != "dep" for t in s["tests"][j + 1:j + 2]):
                    yield with_suites(ss[:i] + [dict(s, tests=s["tests"][:j] + s["tests"][j + 1:])] + ss[i + 1:])
            for j, t in enumerate(s["tests"]):
                if t["acts"]:
                    yield with_suites(ss[:i] + [dict(s, tests=s["tests"][:j] + [dict(t, acts=t["acts"][:-1])] + s["tests"][j + 1:])] + ss[i + 1:])
            if s["setup"] or s["teardown"]:
                yield with_suites(ss[:i] + [dict(s, setup=None, teardown=None)] + ss[i + 1:])
        if len(case["backends"]) > 1:
            for i in range(len(case["backends"])):
                yield dict(case, backends=case["backends"][:i] + case["backends"][i + 1:])
        if spec["nb_threads"] > 1:
            yield dict(case, spec=dict(spec, nb_threads=1))


def account_failures(tests, suites, acc, what, where):
    """C01 on one view of the report: every scheduled test once, at its path, with a terminal status (a disabled test: `disabled`);
    every scheduled suite once, opened and closed; nothing that was not scheduled"""
    F = C.Failure
    fails = []
    listed = {}
    for path, status in acc["tests"]:
        listed.setdefault(json.dumps(path), []).append(status)
    for path, mode in tests:
        got = listed.get(json.dumps(path), [])
        shown = "/".join(ascii(p)[1:-1] for p in path)
        if not got:
            fails.append(F("C01/locale/test-missing-from-report", "%s does not list the scheduled test %s (%s)" % (what, shown, where)))
        elif len(got) > 1:
            fails.append(F("C01/locale/test-twice", "%s lists the test %s %d times (%s)" % (what, shown, len(got), where)))
        elif got[0] not in TERMINAL:
            fails.append(F("C01/locale/test-without-terminal-status", "%s: test %s has status %r (%s)" % (what, shown, got[0], where)))
    sched = {json.dumps(p) for p, _ in tests}
    extra = [p for p in listed if p not in sched]
    if extra:
        fails.append(F("C01/locale/unscheduled-test-in-report", "%s lists tests that were never scheduled: %s (%s)" % (what, extra[:3], where)))
    slisted = {}
    for path, opened, closed in acc["suites"]:
        slisted.setdefault(json.dumps(path), []).append((opened, closed))
    for path in suites:
        got = slisted.get(json.dumps(path), [])
        shown = "/".join(ascii(p)[1:-1] for p in path)
        if not got:
            fails.append(F("C01/locale/suite-missing-from-report", "%s does not list the scheduled suite %s (%s)" % (what, shown, where)))
        elif len(got) > 1:
            fails.append(F("C01/locale/suite-twice", "%s lists the suite %s %d times (%s)" % (what, shown, len(got), where)))
        elif got[0] != (True, True):
            fails.append(F("C01/locale/suite-not-closed", "%s: suite %s opened=%s closed=%s (%s)" % (what, shown, got[0][0], got[0][1], where)))
    return fails


def _one_test(acts, **md):
    t = {"name": "order", "desc": "order a coffee", "tags": [], "props": [], "links": [], "acts": acts, "mode": "run"}
    t.update(md)
    return {"suites": [{"name": "cafe", "desc": "the cafe", "tags": [], "props": [], "links": [], "tests": [t], "subs": [],
                        "setup": None, "teardown": None}], "nb_threads": 1, "title": None, "info": []}


# minimal inputs, replayed first: ONE test under the ASCII locale with the json backend alone (what `lcc run` saves by default) and
# one non-ASCII character — in a log message of a passing test (the save at the end of the run meets it), in the test's description,
# in a failing test (`at_each_failed_test`, the default strategy, saves in the middle of the run)
Locale.corpus = [
    {"locale": "ascii", "backends": ["json"], "variant": 0, "save": None, "texts": "latin1",
     "spec": _one_test([["log", "info", "café"]])},
    {"locale": "ascii", "backends": ["json"], "variant": 0, "save": None, "texts": "latin1",
     "spec": _one_test([], desc="commande d'un café crème")},
    {"locale": "ascii", "backends": ["json"], "variant": 2, "save": None, "texts": "bmp",
     "spec": _one_test([["log", "error", "503 → retry"], ["log", "info", "after"]])},
    {"locale": "utf8", "backends": ["json"], "variant": 0, "save": "at_each_log", "texts": "surrogate",
     "spec": _one_test([["log", "info", "caf\udce9 \U0001F600"]], dname="caf\udce9 0")},
    # open finding D41 (`C01/locale/console-cannot-print-text`): the console backend prints the step description raw
    {"locale": "ascii", "backends": ["console", "json"], "variant": 0, "save": None, "texts": "latin1",
     "spec": _one_test([["step", "\u00e9tape"], ["log", "info", "x"]])},
]


if __name__ == "__main__":
    if len(sys.argv) >= 4 and sys.argv[1] == "--child":
        sys.exit(child_main(sys.argv[2], sys.argv[3]))
    sys.exit("usage: _c01loc.py --child batch.json out.jsonl")

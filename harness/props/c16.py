"""C16 — matchers compute exact boolean logic; check operations keep their contract (model M12)."""
import shutil
import tempfile

import common as C
from gen import matchers as G

PROPERTY = "C16"
LEAN_MODULES = ["LccModel.Props.C16", "LccModel.Props.C16Keys", "LccModel.Props.C16Json"]
PROPS_FILES = ["LccModel/Props/C16.lean", "LccModel/Props/C16Keys.lean", "LccModel/Props/C16Json.lean"]
NAMESPACES = {"LccModel/Props/C16.lean": "LccModel.C16", "LccModel/Props/C16Keys.lean": "LccModel.C16Keys",
              "LccModel/Props/C16Json.lean": "LccModel.C16Json"}
DRIVER = "drivers/C16.lean"
TRUSTED_BASE = [
    "Lean 4.33.0 kernel; axioms of the property theorems ⊆ {propext, Classical.choice, Quot.sound}",
    "hand-written model LccModel/Model/Matcher.lean of lemoncheesecake/matching/* (values, Python ==/ordering/in/len, "
    "matcher classes, public constructors, matches(), operations.py)",
    "correspondence harness harness/props/c16.py + harness/gen/matchers.py: every generated expression is built with the "
    "real public constructors and run on the real matches()/check_that/require_that/assert_that inside a real session",
    "CPython's own operators on the value domain are what the reference evaluator (oracle) and the model's pyEq/pyCmp/pyIn are "
    "compared with; the value domain excludes NaN/inf/-0.0, non-half-integer floats, tuples, dict keys that json.dumps rejects "
    "(dict keys are None / bool / int / float / str, mixed within one dict)",
    "the finite table of how the real helpers.text.jsonify renders dicts with two keys of any two key types is re-extracted on "
    "every run and re-proved against the model (Generated/C16TablesCheck.lean)",
]
ASSUMPTIONS = [
    "fixes/D4-format-result-details-empty.diff and fixes/D12-D13-not-description-shared-transformer.diff are applied to the code "
    "under test (the model mirrors the repaired code; on the unrepaired tree the corpus witnesses fail the oracle)",
    "DISPLAY_DETAILS_WHEN_EQUAL keeps its default (True)",
    "match_pattern / is_text and check_that_in & co. are outside the modelled constructor set; is_json is modelled up to the TEXT "
    "of its failure details (the diff of the two printed documents is a parameter of the model: Props/C16Json.lean)",
]
RULE = ("matcher expression built from the public constructors (depth <= 4) applied to a value of the mixed domain (incl. dicts whose "
        "keys are of mixed types, as actual and as expected value, at any depth); non-trivial = "
        "expression of nesting depth >= 2; distinct = hash of (expression, value[, operation, hint, quiet])")
EXPLANATION = ("Theorems for all matcher trees and all values (LccModel.C16.*) proved in Lean by structural induction; the model is "
               "tied to matching/* by evaluating every generated expression with the real code and comparing success flag, details "
               "text, raised exception class, recorded checks and AbortTest exactly; an independent reference evaluator written "
               "with Python's own operators is the oracle.")


def _result_obs(fn):
    try:
        r = fn()
    except Exception as e:  # noqa: BLE001 - classified: the class is the observation
        return {"error": type(e).__name__}
    ok = r.is_successful
    return {"ok": ok if isinstance(ok, bool) else repr(ok), "details": r.description if r.description is None or isinstance(r.description, str) else repr(r.description)}


# dicts whose keys are of mixed types ({1: "one", "two": 2}, {None: 0, "x": 1}): valid Python / JSON-serialisable data
_MX = ["d", [[["i", 1], ["s", "one"]], ["two", ["i", 2]]]]
_NX = ["d", [[None, ["i", 0]], ["x", ["i", 1]]]]


class Match(C.Stream):
    """expression × value → matches(): success flag, details text, raised class"""
    name = "C16.match"
    quick_cases = 6000
    thorough_cases = 100000
    quick_seconds = 30
    thorough_seconds = 300
    chunk = 250
    corpus = [
        # D4 class: failed any_of over matchers with hidden / empty details -> details == ""
        {"expr": ["any_of", [["hide", ["equal_to", ["i", 2]]], ["hide", ["equal_to", ["i", 3]]]]], "value": ["i", 1]},
        {"expr": ["any_of", []], "value": None},
        {"expr": ["all_of", []], "value": None},
        # bool/int/float coercions of ==, exact type checks
        {"expr": ["all_of", [["val", True], ["equal_to", ["f", 2]], ["is_type_any", "int"]]], "value": ["i", 1]},
        {"expr": ["is_true"], "value": ["i", 1]},
        {"expr": ["is_type", "int", ["greater_than", ["i", 0]]], "value": True},
        # ordering: TypeError propagation and short-circuits
        {"expr": ["all_of", [["equal_to", ["i", 2]], ["greater_than", ["i", 1]]]], "value": ["s", "a"]},
        {"expr": ["all_of", [["greater_than", ["i", 1]], ["equal_to", ["i", 2]]]], "value": ["s", "a"]},
        {"expr": ["any_of", [["anything"], ["greater_than", ["i", 1]]]], "value": None},
        {"expr": ["not_", ["less_than", ["l", [["i", 1], ["s", "a"]]]]], "value": ["l", [["i", 1], ["i", 2]]]},
        {"expr": ["less_than", ["l", [["i", 1], ["i", 2]]]], "value": ["l", [True]]},
        {"expr": ["is_between", ["i", 1], ["f", 5]], "value": ["s", "a"]},
        {"expr": ["is_between", ["i", 3], ["i", 1]], "value": ["i", 0]},
        # containers
        {"expr": ["has_item", ["greater_than", ["i", 1]]], "value": ["l", [["i", 5], ["s", "a"]]]},
        {"expr": ["has_item", ["greater_than", ["i", 1]]], "value": ["l", [["s", "a"], ["i", 5]]]},
        {"expr": ["has_all_items", ["hide", ["equal_to", ["i", 1]]]], "value": ["l", [["i", 1], ["i", 2]]]},
        {"expr": ["has_only_items", [["i", 1], ["i", 1], True]], "value": ["l", [["f", 2], ["i", 1], ["i", 1]]]},
        {"expr": ["has_only_items", [["s", "a"], ["s", "b"]]], "value": ["s", "ba"]},
        {"expr": ["has_items", [["s", "a"], ["i", 1]]], "value": ["s", "abc"]},
        {"expr": ["has_items", [["l", []]]], "value": ["d", [["a", ["i", 1]]]]},
        {"expr": ["has_entry", ["a", -1, "b"], ["val", ["i", 1]]], "value": ["d", [["a", ["l", [["i", 0], ["d", [["b", True]]]]]]]]},
        {"expr": ["has_entry", ["a", 0], ["equal_to", ["s", "x"]]], "value": ["d", [["a", ["s", "xyz"]]]]},
        {"expr": ["has_length", ["is_between", ["i", 1], ["i", 2]]], "value": ["d", [["a", None], ["b", None]]]},
        {"expr": ["has_length", ["val", ["i", 2]]], "value": ["i", 2]},
        {"expr": ["is_in", [["i", 1], ["s", "a"]]], "value": True},
        {"expr": ["equal_to", ["d", [["a", ["i", 1]], ["b", ["l", []]]]]], "value": ["d", [["b", ["l", []]], ["a", True]]]},
        # dict keys of mixed types, as actual and as expected value, through the value / type / composite / collection matchers
        # (minimised failing inputs of seeded/C16-4: a rendering that compares keys raises instead of computing the boolean)
        {"expr": ["equal_to", _MX], "value": _MX},
        {"expr": ["equal_to", _MX], "value": ["d", [["two", ["i", 2]], [True, ["s", "one"]]]]},      # {1: x} == {True: x}
        {"expr": ["equal_to", ["d", [["1", ["s", "one"]], ["two", ["i", 2]]]]], "value": _MX},     # … but 1 is not "1"
        {"expr": ["not_equal_to", _NX], "value": _MX},
        {"expr": ["is_type_any", "dict"], "value": _NX},
        {"expr": ["is_type_any", "list"], "value": _MX},
        {"expr": ["not_", ["val", _MX]], "value": _NX},
        {"expr": ["any_of", [["val", _MX], ["is_none"]]], "value": _NX},
        {"expr": ["all_of", [["is_type_any", "dict"], ["val", _NX]]], "value": _MX},
        {"expr": ["has_entry", ["a", 1], ["val", ["s", "one"]]], "value": ["d", [["a", _MX]]]},      # d["a"][1] through an int key
        {"expr": ["has_key", [1]], "value": ["d", [[True, None], ["k", None]]]},                     # d[1] finds the key True
        {"expr": ["is_in", [_MX, ["i", 1]]], "value": _NX},
        {"expr": ["has_items", [_MX]], "value": ["l", [_NX, _MX]]},
        {"expr": ["has_items", [["i", 1], None, ["s", "1"]]], "value": _MX},                          # `1 in d`, `None in d`, `"1" in d`
        {"expr": ["has_only_items", [["s", "two"], True]], "value": _MX},                             # iteration yields the keys; 1 == True
        {"expr": ["has_item", ["has_key", [1]]], "value": ["l", [_NX, _MX]]},
        {"expr": ["has_length", ["val", ["i", 2]]], "value": _NX},
        {"expr": ["greater_than", _MX], "value": _NX},                                                # dicts are unorderable: TypeError
    ]

    def gen(self, rng, i):
        depth = rng.choice([1, 2, 2, 3, 3, 3, 4, 4])
        e = G.gen_expr(rng, depth)
        return {"expr": e, "value": G.gen_actual(rng, e)}

    def impl(self, case):
        m = G.to_matcher(case["expr"])
        v = G.to_py(case["value"])
        return {"res": _result_obs(lambda: m.matches(v))}

    def oracle(self, case, obs):
        ref = G.ref_eval(case["expr"], G.to_py(case["value"]))
        res = obs["res"]
        top = case["expr"][0]
        if "error" in res:
            if ref != res["error"]:
                what = f"raises-{res['error']}" if isinstance(ref, bool) else f"raises-{res['error']}-instead-of-{ref}"
                return [C.Failure(f"C16/match/{top}/{what}",
                                  f"matches() raised {res['error']} but Python's operators give {ref!r}", {"reference": ref})]
            return []
        if res["ok"] is not True and res["ok"] is not False:
            return [C.Failure(f"C16/match/{top}/non-bool-outcome", f"is_successful is {res['ok']!r}")]
        if isinstance(ref, str):
            return [C.Failure(f"C16/match/{top}/swallows-{ref}",
                              f"Python's operators raise {ref}, matches() returned {res['ok']}", {"reference": ref})]
        if ref != res["ok"]:
            return [C.Failure(f"C16/match/{top}/wrong-truth",
                              f"matches() says {res['ok']}, Python's operators say {ref}", {"reference": ref})]
        return []

    def request(self, case, obs):
        return {"expr": case["expr"], "value": case["value"]}

    def compare(self, case, obs, ans):
        if "error" in ans and "res" not in ans:
            return "model error: " + str(ans["error"])
        if ans["res"] != obs["res"]:
            return f"matches(): model {ans['res']} vs implementation {obs['res']}"
        sem = ans["sem"]
        exp = obs["res"].get("error", obs["res"].get("ok"))
        if sem != exp:
            return f"reference semantics of the model {sem!r} vs implementation {exp!r}"
        return None

    def nontrivial(self, case, obs):
        return G.depth_of(case["expr"]) >= 2

    def features(self, case, obs):
        f = ["depth=%d" % G.depth_of(case["expr"])]
        res = obs["res"]
        f.append("raised:" + res["error"] if "error" in res else ("ok" if res["ok"] else "fail"))
        if "error" not in res:
            f.append("details:" + ("none" if res["details"] is None else "empty" if res["details"] == "" else "text"))
        f += ["c:" + c for c in sorted(G.constructors_of(case["expr"]))]
        v = case["value"]
        f.append("v:" + ("None" if v is None else "bool" if isinstance(v, bool) else v[0]))
        if G.has_nan(v):
            f.append("nan-actual")
        if G.has_nan(case["expr"]):
            f.append("nan-expected")
        if G.has_nan(v) and G.has_nan(case["expr"]):
            f.append("nan-both-sides")
        ka, ke = G.key_feature([v]), G.key_feature(G.literals_of(case["expr"]))
        if ka:
            f.append("actual-dict-keys:" + ka)
        if ke:
            f.append("expected-dict-keys:" + ke)
        return f

    def shrink(self, case):
        for e in G.shrink_expr(case["expr"]):
            yield {"expr": e, "value": case["value"]}
        v = case["value"]
        if isinstance(v, list) and v[0] in ("l", "d"):
            for i in range(len(v[1])):
                yield {"expr": case["expr"], "value": [v[0], v[1][:i] + v[1][i + 1:]]}
            for x in v[1]:
                yield {"expr": case["expr"], "value": x if v[0] == "l" else x[1]}


def run_in_session(body):
    """run `body()` as the only test of a one-suite project in a real session; returns the report"""
    import lemoncheesecake.api as lcc
    from lemoncheesecake import runner
    from lemoncheesecake.events import AsyncEventManager
    from lemoncheesecake.fixture import FixtureRegistry
    from lemoncheesecake.session import Session
    from lemoncheesecake.suite import load_suite_from_class

    @lcc.suite("S")
    class S:
        @lcc.test("t")
        def t(self):
            body()

    suite = load_suite_from_class(S)
    d = tempfile.mkdtemp(prefix="lccverif-c16-")
    try:
        session = Session.create(AsyncEventManager.load(), [], d, None, nb_threads=1)
        runner.run_suites([suite], FixtureRegistry(), session, nb_threads=1)
    finally:
        shutil.rmtree(d, ignore_errors=True)
    return session.report


HINTS = ["value", "x", None, None, "the answer", "", "é"]


class Ops(C.Stream):
    """sequences of check_that / require_that / assert_that inside one real test: recorded checks, exceptions"""
    name = "C16.ops"
    quick_cases = 2000
    thorough_cases = 30000
    quick_seconds = 30
    thorough_seconds = 400
    chunk = 100
    _d4 = ["any_of", [["hide", ["equal_to", ["i", 2]]], ["hide", ["equal_to", ["i", 3]]]]]
    corpus = [
        # D4 (fixed by fixes/D4-format-result-details-empty.diff): failed any_of whose sub-results have no details
        {"ops": [{"op": "check", "expr": _d4, "value": ["i", 1], "hint": "h", "quiet": False}]},
        {"ops": [{"op": "require", "expr": _d4, "value": ["i", 1], "hint": None, "quiet": False}]},
        {"ops": [{"op": "assert", "expr": _d4, "value": ["i", 1], "hint": "h", "quiet": False}]},
        {"ops": [{"op": "check", "expr": ["any_of", []], "value": None, "hint": "h", "quiet": False}]},
        {"ops": [{"op": "check", "expr": _d4, "value": ["i", 1], "hint": "h", "quiet": True}]},
        # the three contracts, success and failure
        {"ops": [{"op": o, "expr": ["equal_to", ["i", 1]], "value": ["i", v], "hint": "x", "quiet": q}
                 for o in ("check", "require", "assert") for v in (1, 2) for q in (False, True)]},
        # exceptions of matches() propagate and record nothing
        {"ops": [{"op": o, "expr": ["greater_than", ["i", 1]], "value": ["s", "a"], "hint": "x", "quiet": False}
                 for o in ("check", "require", "assert")]},
        # hidden details, details of has_all_items (None) …
        {"ops": [{"op": "check", "expr": ["hide", ["equal_to", ["i", 1]]], "value": ["i", 2], "hint": None, "quiet": False},
                 {"op": "check", "expr": ["has_all_items", ["is_type_any", "int"]], "value": ["l", [["i", 1]]], "hint": "l", "quiet": False}]},
        # dicts with keys of mixed types as expected and actual value: one check / AbortTest exactly as for any other operand
        {"ops": [{"op": o, "expr": ["equal_to", _MX], "value": v, "hint": "x", "quiet": False}
                 for o in ("check", "require", "assert") for v in (_MX, _NX)]},
        {"ops": [{"op": o, "expr": ["has_entry", ["k"], ["is_type", "dict", ["not_equal_to", _NX]]], "value": ["d", [["k", v]]],
                  "hint": None, "quiet": q} for o in ("check", "assert") for v in (_MX, _NX) for q in (False, True)]},
    ]

    def gen(self, rng, i):
        ops = []
        for _ in range(rng.choice([1, 1, 2, 3, 4, 6])):
            e = G.gen_expr(rng, rng.choice([1, 2, 2, 3, 3, 4]))
            ops.append({"op": rng.choice(["check", "require", "assert"]), "expr": e, "value": G.gen_actual(rng, e),
                        "hint": rng.choice(HINTS), "quiet": rng.random() < 0.25})
        return {"ops": ops}

    def impl(self, case):
        import lemoncheesecake.api as lcc
        from lemoncheesecake.exceptions import AbortTest
        from lemoncheesecake.matching import assert_that, check_that, require_that
        from lemoncheesecake.matching.matcher import MatcherDescriptionTransformer

        fns = {"check": check_that, "require": require_that, "assert": assert_that}
        prepared = []
        for o in case["ops"]:
            m = G.to_matcher(o["expr"])
            v = G.to_py(o["value"])
            direct = _result_obs(lambda: m.matches(v))
            try:
                desc = m.build_description(MatcherDescriptionTransformer())
            except Exception as e:  # noqa: BLE001
                desc = {"error": type(e).__name__}
            prepared.append((o, m, v, direct, desc))
        outcomes = []

        def body():
            for k, (o, m, v, _, _) in enumerate(prepared):
                lcc.set_step("op %d" % k)
                try:
                    r = fns[o["op"]](o["hint"], v, m, quiet=o["quiet"])
                    outcomes.append({"returned": _result_obs(lambda: r)})
                except AbortTest:
                    outcomes.append({"raised": "AbortTest"})
                except Exception as e:  # noqa: BLE001 - classified
                    outcomes.append({"raised": type(e).__name__})

        report = run_in_session(body)
        tests = list(report.all_tests())
        if len(tests) != 1 or len(outcomes) != len(prepared):
            raise RuntimeError("the session did not run the test body to its end")
        by_step = {}
        for st in tests[0].get_steps():
            logs = []
            for lg in st.get_logs():
                if type(lg).__name__ == "Check":
                    logs.append({"description": lg.description, "ok": lg.is_successful, "details": lg.details})
                else:
                    logs.append({"other": type(lg).__name__, "text": getattr(lg, "message", None)})
            by_step.setdefault(st.description, []).extend(logs)
        steps = []
        for k, (o, m, v, direct, desc) in enumerate(prepared):
            steps.append({"checks": by_step.get("op %d" % k, []), "result": outcomes[k], "direct": direct, "desc": desc})
        return {"steps": steps}

    def oracle(self, case, obs):
        fails = []
        for k, (o, st) in enumerate(zip(case["ops"], obs["steps"])):
            name = o["op"] + "_that"
            direct, checks, result = st["direct"], st["checks"], st["result"]
            raised = result.get("raised")
            if "error" in direct:
                # the matcher itself raised: no match result exists and the contract says nothing — unless Python's own
                # operators compute a truth value for this operand: then the matcher had to return a result
                ref = G.ref_eval(o["expr"], G.to_py(o["value"]))
                if isinstance(ref, bool):
                    fails.append(C.Failure(f"C16/ops/{name}/matcher-raises-{direct['error']}",
                                           f"op {k}: matches() raised {direct['error']} although Python's operators give {ref}"))
                continue
            ok = direct["ok"]
            if raised not in (None, "AbortTest"):
                fails.append(C.Failure(f"C16/ops/{name}/raises-{raised}",
                                       f"op {k}: {name} raised {raised} although matches() returned a result (ok={ok})"))
                continue
            want_checks = 0 if (o["op"] == "assert" and ok) else 1
            want_abort = (o["op"] in ("require", "assert")) and not ok
            if len(checks) != want_checks or any("other" in c for c in checks):
                fails.append(C.Failure(f"C16/ops/{name}/wrong-number-of-checks",
                                       f"op {k}: {name} with match result ok={ok} recorded {len(checks)} checks, expected {want_checks}"))
                continue
            if checks and checks[0]["ok"] is not ok:
                fails.append(C.Failure(f"C16/ops/{name}/check-outcome-differs-from-match-result",
                                       f"op {k}: recorded outcome {checks[0]['ok']} vs match result {ok}"))
            if (raised == "AbortTest") != want_abort:
                fails.append(C.Failure(f"C16/ops/{name}/abort-mismatch",
                                       f"op {k}: {name} with ok={ok}: raised={raised}, expected AbortTest={want_abort}"))
            if raised is None and result["returned"].get("ok") is not ok:
                fails.append(C.Failure(f"C16/ops/{name}/returned-result-differs",
                                       f"op {k}: returned {result['returned']} vs match result ok={ok}"))
            if checks and isinstance(st["desc"], str):
                want = "Expect %s %s" % (o["hint"], st["desc"]) if o["hint"] is not None else "Expect %s" % st["desc"]
                if checks[0]["description"] != want:
                    fails.append(C.Failure(f"C16/ops/{name}/wrong-sentence",
                                           f"op {k}: recorded {checks[0]['description']!r}, expected {want!r}"))
            if checks and o["quiet"] and checks[0]["details"] is not None:
                fails.append(C.Failure(f"C16/ops/{name}/quiet-not-respected", f"op {k}: details recorded with quiet=True"))
        return fails

    def request(self, case, obs):
        return {"ops": case["ops"]}

    def compare(self, case, obs, ans):
        if "steps" not in ans:
            return "model error: " + str(ans.get("error"))
        if len(ans["steps"]) != len(obs["steps"]):
            return "number of steps differs"
        for k, (m, o) in enumerate(zip(ans["steps"], obs["steps"])):
            if not m["prefix_kept"]:
                return f"op {k}: the model altered earlier checks"
            if m["checks"] != o["checks"]:
                return f"op {k} ({case['ops'][k]['op']}): checks: model {m['checks']} vs implementation {o['checks']}"
            mr = m["result"]
            if mr != o["result"]:
                return f"op {k} ({case['ops'][k]['op']}): result: model {mr} vs implementation {o['result']}"
        return None

    def nontrivial(self, case, obs):
        return any(G.depth_of(o["expr"]) >= 2 for o in case["ops"])

    def features(self, case, obs):
        f = ["ops=%d" % len(case["ops"])]
        for o, st in zip(case["ops"], obs["steps"]):
            r = st["result"]
            tag = "raised:" + r["raised"] if "raised" in r else "returned"
            f.append(f"{o['op']}:{tag}")
            if o["quiet"]:
                f.append("quiet")
            f.append("hint" if o["hint"] is not None else "no-hint")
            for c in st["checks"]:
                if "details" in c:
                    f.append("recorded-details:" + ("none" if c["details"] is None else "empty" if c["details"] == "" else "text"))
            k = G.key_feature([o["value"]] + G.literals_of(o["expr"]))
            if k:
                f.append(f"{o['op']}:dict-keys:{k}")
        return sorted(set(f))

    def shrink(self, case):
        ops = case["ops"]
        if len(ops) > 1:
            for i in range(len(ops)):
                yield {"ops": ops[:i] + ops[i + 1:]}
        for i, o in enumerate(ops):
            for e in G.shrink_expr(o["expr"]):
                yield {"ops": ops[:i] + [dict(o, expr=e)] + ops[i + 1:]}


# ----------------------------------------------------------------------------------------------
# is_json(expected): equality of the two DATA STRUCTURES (actual == expected), never of what they look like when printed
# ----------------------------------------------------------------------------------------------

def jm_matcher(e):
    """JM syntax -> real matcher object (public functions only)"""
    import lemoncheesecake.matching as M
    c = e[0]
    if c == "is_json":
        return M.is_json(G.to_py(e[1]))
    if c == "not_":
        return M.not_(jm_matcher(e[1]))
    if c == "all_of":
        return M.all_of(*[jm_matcher(a) for a in e[1]])
    if c == "any_of":
        return M.any_of(*[jm_matcher(a) for a in e[1]])
    if c == "has_entry":
        return M.has_entry(list(e[1]), jm_matcher(e[2]))
    return G.to_matcher(e, top=False)


def jm_truth(e, x):
    """what the expression means, with Python's own operators"""
    c = e[0]
    if c == "is_json":
        return x == G.to_py(e[1])
    if c == "not_":
        return not jm_truth(e[1], x)
    if c == "all_of":
        return all(jm_truth(a, x) for a in e[1])
    if c == "any_of":
        return any(jm_truth(a, x) for a in e[1])
    if c == "has_entry":
        d = x
        for k in e[1]:
            try:
                d = d[k]
            except (KeyError, TypeError, IndexError):
                return False
        return jm_truth(e[2], d)
    return G.ref_truth(e, x)


def _json_doc(rng, depth):
    """a JSON document: scalars, lists, objects with str keys (is_json prints with sort_keys=True: keys of ONE type)"""
    r = rng.random()
    if depth <= 0 or r < 0.4:
        return G.gen_scalar(rng)
    if r < 0.72:
        return ["l", [G.fresh_nans(_json_doc(rng, depth - 1)) for _ in range(rng.choice([0, 1, 1, 2, 3]))]]
    keys = rng.sample(G.KEYS, rng.choice([0, 1, 1, 2, 3]))
    return ["d", [[k, G.fresh_nans(_json_doc(rng, depth - 1))] for k in keys]]


def _perturb(rng, v):
    """a value that differs from v somewhere (one scalar replaced, one element dropped, …)"""
    if isinstance(v, list) and v[0] == "l" and v[1]:
        i = rng.randrange(len(v[1]))
        if rng.random() < 0.3:
            return ["l", v[1][:i] + v[1][i + 1:]]
        return ["l", v[1][:i] + [G.fresh_nans(_perturb(rng, v[1][i]))] + v[1][i + 1:]]
    if isinstance(v, list) and v[0] == "d" and v[1]:
        i = rng.randrange(len(v[1]))
        return ["d", v[1][:i] + [[v[1][i][0], G.fresh_nans(_perturb(rng, v[1][i][1]))]] + v[1][i + 1:]]
    return G.gen_scalar(rng)


class IsJson(C.Stream):
    """is_json(expected), alone and under not_/all_of/any_of/has_entry, on values equal / unequal to expected under =="""
    name = "C16.json"
    quick_cases = 3000
    thorough_cases = 40000
    quick_seconds = 20
    thorough_seconds = 200
    chunk = 250
    _n = [["l", [["i", 1], ["d", [["a", False], ["b", ["l", [["f", 4]]]]]]]], ["l", [True, ["d", [["b", ["l", [["i", 2]]]], ["a", ["f", 0]]]]]]]
    corpus = [
        # equal for Python, printed differently (minimised failing inputs of seeded/C16-11: a decision taken on the printed text)
        {"jm": ["is_json", ["i", 1]], "value": ["f", 2]},
        {"jm": ["is_json", ["f", 0]], "value": ["i", 0]},
        {"jm": ["is_json", ["i", 1]], "value": True},
        {"jm": ["is_json", False], "value": ["i", 0]},
        {"jm": ["is_json", ["l", [["i", 1]]]], "value": ["l", [["f", 2]]]},
        {"jm": ["is_json", ["d", [["a", ["i", 0]]]]], "value": ["d", [["a", False]]]},
        {"jm": ["is_json", _n[0]], "value": _n[1]},
        {"jm": ["not_", ["is_json", ["i", 1]]], "value": ["f", 2]},
        {"jm": ["all_of", [["is_json", ["i", 1]], ["not_", ["is_none"]]]], "value": True},
        {"jm": ["any_of", [["is_none"], ["is_json", ["l", [False]]]]], "value": ["l", [["f", 0]]]},
        {"jm": ["has_entry", ["k", 0], ["is_json", ["f", 2]]], "value": ["d", [["k", ["l", [["i", 1]]]]]]},
        # … and the other way round: printed alike, different for Python; plain equal / unequal documents; NaN equals nothing
        {"jm": ["is_json", ["s", "1"]], "value": ["i", 1]},
        {"jm": ["is_json", ["i", 1]], "value": ["i", 2]},
        {"jm": ["is_json", ["d", [["a", ["i", 1]], ["b", None]]]], "value": ["d", [["b", None], ["a", ["i", 1]]]]},
        {"jm": ["is_json", ["l", [["i", 1], ["i", 2]]]], "value": ["l", [["i", 2], ["i", 1]]]},
        {"jm": ["is_json", ["nan", "new"]], "value": ["nan", "new"]},
        {"jm": ["not_", ["is_json", ["l", [["nan", "new"]]]]], "value": ["l", [["nan", "new"]]]},
        {"jm": ["is_json", ["l", []]], "value": ["d", []]},
    ]

    def gen(self, rng, i):
        exp = _json_doc(rng, rng.choice([0, 1, 1, 2, 2, 3]))
        r = rng.random()
        if r < 0.45:
            act = G.retype(rng, exp)
        elif r < 0.6:
            act = exp
        elif r < 0.8:
            act = _perturb(rng, G.retype(rng, exp, 0.3))
        else:
            act = _json_doc(rng, 2)
        jm = ["is_json", exp]
        for _ in range(rng.choice([0, 0, 0, 1, 1, 2])):
            w = rng.random()
            if w < 0.35:
                jm = ["not_", jm]
            elif w < 0.55:
                jm = ["all_of", [jm, G.gen_leaf(rng)] if rng.random() < 0.5 else [G.gen_leaf(rng), jm]]
            elif w < 0.75:
                jm = ["any_of", [jm, G.gen_leaf(rng)] if rng.random() < 0.5 else [G.gen_leaf(rng), jm]]
            else:
                k = rng.choice(G.KEYS)
                if rng.random() < 0.5:
                    jm, act = ["has_entry", [k], jm], ["d", [[k, G.fresh_nans(act)]] + ([["zz", None]] if rng.random() < 0.3 else [])]
                else:
                    jm, act = ["has_entry", [0], jm], ["l", [G.fresh_nans(act)]]
        return {"jm": jm, "value": act}

    def impl(self, case):
        m = jm_matcher(case["jm"])
        v = G.to_py(case["value"])
        return {"res": _result_obs(lambda: m.matches(v))}

    def oracle(self, case, obs):
        try:
            ref = jm_truth(case["jm"], G.to_py(case["value"]))
        except Exception as ex:  # noqa: BLE001 - the class name IS the reference
            ref = type(ex).__name__
        res, top = obs["res"], case["jm"][0]
        if "error" in res:
            if ref != res["error"]:
                return [C.Failure(f"C16/json/{top}/raises-{res['error']}",
                                  f"matches() raised {res['error']} but Python's operators give {ref!r}", {"reference": ref})]
            return []
        if res["ok"] is not True and res["ok"] is not False:
            return [C.Failure(f"C16/json/{top}/non-bool-outcome", f"is_successful is {res['ok']!r}")]
        if isinstance(ref, str):
            return [C.Failure(f"C16/json/{top}/swallows-{ref}", f"Python's operators raise {ref}, matches() returned {res['ok']}")]
        if ref != res["ok"]:
            return [C.Failure(f"C16/json/{top}/matcher-differs-from-python",
                              f"matches() says {res['ok']}, actual == expected (Python) gives {ref}", {"reference": ref})]
        if top == "is_json" and res["ok"] and res["details"] is not None:
            return [C.Failure("C16/json/is_json/details-on-success", f"a successful is_json carries details {res['details']!r}")]
        return []

    def request(self, case, obs):
        return {"jm": case["jm"], "value": case["value"]}

    def compare(self, case, obs, ans):
        if "ok" not in ans:
            return "model error: " + str(ans.get("error"))
        got = obs["res"].get("error", obs["res"].get("ok"))
        if ans["ok"] != got:
            return f"matches(): model {ans['ok']!r} vs implementation {got!r}"
        if ans["sem"] != got:
            return f"reference semantics of the model {ans['sem']!r} vs implementation {got!r}"
        return None

    def nontrivial(self, case, obs):
        return G.depth_of(case["jm"]) >= 2 or (isinstance(case["value"], list) and case["value"][0] in ("l", "d"))

    def features(self, case, obs):
        res = obs["res"]
        f = ["raised:" + res["error"] if "error" in res else ("ok" if res["ok"] else "fail")]
        f += ["c:" + c for c in sorted(G.constructors_of(case["jm"]))]
        exp = next((l for l in G.literals_of(case["jm"])), None)
        jm, v = case["jm"], case["value"]
        while jm[0] == "has_entry" and isinstance(v, list) and v[0] in ("l", "d") and v[1]:     # look through the wrapping
            jm, v = jm[2], (v[1][0] if v[0] == "l" else v[1][0][1])
        if jm[0] == "is_json":
            e, a = G.to_py(jm[1]), G.to_py(v)
            import json as _json
            same_text = _json.dumps(e, sort_keys=True) == _json.dumps(a, sort_keys=True)
            f.append("bare:%s/%s" % ("equal" if a == e else "unequal", "same-text" if same_text else "other-text"))
            if a == e and not same_text:
                f.append("cross-type-equal:" + ("nested" if isinstance(e, (list, dict)) else "top"))
        return f

    def shrink(self, case):
        jm, v = case["jm"], case["value"]
        for s in G.sub_exprs(jm):
            if s[0] in ("is_json", "not_", "all_of", "any_of", "has_entry"):
                yield {"jm": s, "value": v}
                if jm[0] == "has_entry" and isinstance(v, list) and v[0] in ("l", "d") and v[1]:
                    yield {"jm": s, "value": v[1][0] if v[0] == "l" else v[1][0][1]}
        if jm[0] == "is_json":
            e = jm[1]
            if isinstance(e, list) and e[0] in ("l", "d") and isinstance(v, list) and v[0] == e[0]:
                for i in range(len(e[1])):
                    for j in range(len(v[1])):
                        yield {"jm": ["is_json", [e[0], e[1][:i] + e[1][i + 1:]]], "value": [v[0], v[1][:j] + v[1][j + 1:]]}
                for x in e[1]:
                    for y in v[1]:
                        yield {"jm": ["is_json", x if e[0] == "l" else x[1]], "value": y if v[0] == "l" else y[1]}


def streams(ctx):
    return [Match(), Ops(), IsJson()]


# ----------------------------------------------------------------------------------------------
# decision table extracted by executing the real function on a finite domain: how helpers.text.jsonify (the
# rendering every matcher uses for expected / actual values) writes a dict whose two keys are of any two key types
# ----------------------------------------------------------------------------------------------

TABLE_OPENS = ("LccModel.Matcher",)
TABLE_KEYS = [None, True, False, ["i", 0], ["i", 1], ["i", -1], ["i", 10 ** 20], ["f", 3], ["f", -1], ["f", 2], "a", "1", "", "null",
              'q"k', "é"]


def _lean_key(k):
    if isinstance(k, str):
        return "DKey.str [%s]" % ", ".join("Char.ofNat %d" % ord(c) for c in k)
    if k is None:
        return "DKey.none"
    if isinstance(k, bool):
        return "DKey.bool %s" % ("true" if k else "false")
    n = "Int.ofNat %d" % k[1] if k[1] >= 0 else "Int.negSucc %d" % (-k[1] - 1)     # no `-1` literal: `Neg` instances stall the elaboration of a long list
    return "DKey.%s (%s)" % ("int" if k[0] == "i" else "float", n)


def tables(ctx):
    from lemoncheesecake.helpers.text import jsonify
    rows = []
    for k1 in TABLE_KEYS:
        for k2 in TABLE_KEYS:
            p1, p2 = G.key_to_py(k1), G.key_to_py(k2)
            if p1 == p2 and k1 is not k2:
                continue            # True / 1 / 1.0 are one key of a Python dict
            ks = [k1] if k1 is k2 else [k1, k2]
            d = {G.key_to_py(k): i for i, k in enumerate(ks)}
            try:
                out = jsonify(d)
                lean_out = "some [%s]" % ", ".join(str(ord(c)) for c in out)
            except Exception as e:  # noqa: BLE001 - the table records that the real function raised
                out, lean_out = "raises " + type(e).__name__, "none"
            rows.append(("[%s]" % ", ".join(_lean_key(k) for k in ks), lean_out, "jsonify(%r) = %s" % (d, out)))
    return [C.Table("jsonifyKeysTable", "List (List DKey × Option (List Nat))", rows, ("LccModel.Model.Matcher",)),
            _is_json_table()]


# is_json(expected).matches(actual) on every ordered pair of a universe that holds, for each number, its bool / int / float
# forms — at the top, in a list, in a nested list, below a dict key — next to values that print alike but differ
IS_JSON_UNIVERSE = [None, True, False, ["i", 0], ["i", 1], ["i", 2], ["f", 0], ["f", 2], ["f", 4], ["f", 1], ["s", "1"], ["s", ""],
                    ["nan", "new"], ["l", []], ["l", [["i", 1]]], ["l", [["f", 2]]], ["l", [True]], ["l", [["l", [["i", 0]]]]],
                    ["l", [["l", [False]]]], ["d", []], ["d", [["a", ["i", 1]]]], ["d", [["a", ["f", 2]]]], ["d", [["a", True]]],
                    ["d", [["a", ["l", [["f", 0]]]]]], ["d", [["a", ["l", [False]]]]], ["d", [["b", ["i", 1]]]]]


def _lean_int(n):
    return "Int.ofNat %d" % n if n >= 0 else "Int.negSucc %d" % (-n - 1)


def _lean_val(v):
    if v is None:
        return "Val.none"
    if isinstance(v, bool):
        return "Val.bool %s" % ("true" if v else "false")
    t, x = v
    if t in ("i", "f"):
        return "Val.%s (%s)" % ("int" if t == "i" else "float", _lean_int(x))
    if t == "nan":
        return "Val.nan"
    if t == "s":
        return "Val.str [%s]" % ", ".join("Char.ofNat %d" % ord(c) for c in x)
    if t == "l":
        return "Val.list [%s]" % ", ".join(_lean_val(e) for e in x)
    if t == "d":
        return "Val.dict [%s] [%s]" % (", ".join(_lean_key(k) for k, _ in x), ", ".join(_lean_val(e) for _, e in x))
    raise ValueError(v)


def _is_json_table():
    from lemoncheesecake.matching import is_json
    rows = []
    for e in IS_JSON_UNIVERSE:
        for a in IS_JSON_UNIVERSE:
            try:
                ok = is_json(G.to_py(e)).matches(G.to_py(a)).is_successful
                out = "some %s" % ("true" if ok is True else "false") if isinstance(ok, bool) else "none"
            except Exception as ex:  # noqa: BLE001 - the table records that the real function raised
                ok, out = "raises " + type(ex).__name__, "none"
            rows.append(("(%s, %s)" % (_lean_val(e), _lean_val(a)), out, "is_json(%r).matches(%r) = %s" % (G.to_py(e), G.to_py(a), ok)))
    return C.Table("isJsonTable", "List ((Val × Val) × Option Bool)", rows, ("LccModel.Model.Matcher",))

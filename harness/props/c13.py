"""C13 — suite discovery finds exactly the declared tests at the declared paths (model M9 `Loader`)."""
import copy
import json
import os
import re
import shutil
import sys
import tempfile

import common as C
from gen import c13_layout as L

PROPERTY = "C13"
LEAN_MODULES = ["LccModel.Props.C13", "LccModel.Props.C13Scan", "LccModel.Props.C13Params", "LccModel.Props.C13Reload",
                "LccModel.Props.C13Spelling", "LccModel.Props.C13Attrs", "LccModel.Props.C13Heads"]
PROPS_FILES = ["LccModel/Props/C13.lean", "LccModel/Props/C13Scan.lean", "LccModel/Props/C13Params.lean",
               "LccModel/Props/C13Reload.lean", "LccModel/Props/C13Spelling.lean", "LccModel/Props/C13Attrs.lean",
               "LccModel/Props/C13Heads.lean"]
NAMESPACES = {"LccModel/Props/C13.lean": "LccModel.C13", "LccModel/Props/C13Scan.lean": "LccModel.C13Scan",
              "LccModel/Props/C13Params.lean": "LccModel.C13Params", "LccModel/Props/C13Reload.lean": "LccModel.C13Reload",
              "LccModel/Props/C13Spelling.lean": "LccModel.C13Spelling", "LccModel/Props/C13Attrs.lean": "LccModel.C13Attrs",
              "LccModel/Props/C13Heads.lean": "LccModel.C13Heads"}
DRIVER = "drivers/C13.lean"
TRUSTED_BASE = [
    "Lean 4.33.0 kernel; axioms of the property theorems ⊆ {propext, Classical.choice, Quot.sound}",
    "hand-written model LccModel/Model/Loader.lean of suite/loader.py (+ Suite.add_test/add_suite, builder.py decorators, "
    "moduleimport.get_py_files_from_dir, introspection.get_object_attributes) and the specification LccModel/Model/LoaderSpec.lean",
    "correspondence harness harness/props/c13.py + harness/gen/c13_layout.py: every generated layout is rendered to a real source "
    "tree in a scratch directory and loaded by the real load_suites_from_directory / load_suites_from_files / load_suite_from_file / "
    "load_suite_from_class",
    "represented by the layout, validated by the stream, not proved: dir() (alphabetical attribute listing), glob/os.listdir+sorted, "
    "inspect, the import system, and the values handed out by the global counter Metadata._next_rank (simulated by "
    "c13_layout.with_ranks and compared with the ranks of the loaded tree)",
    "Python's truth protocol on the value a visible_if condition returns: modelled by PyVal.truthy for the generated value shapes "
    "(None, bool, int, float incl. -0.0/nan/inf, str, list/tuple/dict by length, plain instance, instance with __bool__, instance "
    "with __len__); re-validated against the real interpreter and the real loader on every run by the extracted tables "
    "(Generated/C13TablesCheck.lean, 8 obligations over 4 tables of 125 rows); the oracle uses its own table pv_truthy",
    "the directory scan (glob '*.py' + the '__' filter of get_py_files_from_dir; glob + fnmatch exclusion of get_matching_files): "
    "modelled by DirScan.acceptsName (a function of the entry's NAME: ends with '.py', does not start with '.', does not start "
    "with '__') and DirScan.stemOf; re-validated on every run by executing the real functions on real scratch directories over "
    "a name set (prefix x core x suffix) with every name once as a regular file, once as a directory and once as a dangling "
    "symbolic link (scanFilterTable, scanStemTable; obligations scan_filter_agrees, scan_stem_agrees); the oracle uses the "
    "layout's own rule c13_layout.scan_accepts",
]
ASSUMPTIONS = [
    "each case is loaded as in a fresh interpreter: Metadata._next_rank reset to 1, builder._objects_with_metadata cleared, "
    "sys.modules entries of the scratch tree purged",
    "Python identifiers / file stems are ASCII and pairwise distinct within one class/module body; name-mangled identifiers "
    "(__x without trailing underscores) are not generated; files named __*.py, dot-prefixed *.py and everything not ending in .py "
    "are generated as droppings (never suite modules); file stems that are not identifiers (a.b, with space, _private) are generated; "
    "class members named __x__ are generated at a low rate: they are the open finding D18 (skipped by get_object_attributes)",
    "naming schemes: the default one and the (name_fmt, description_fmt) pair restricted to literal text and plain {key} fields over "
    "int/str parameter values; custom callables, add_test_into_suite, inherited test methods and SUITE dicts of wrong type are not generated",
    "duplicate names among the top-level suites returned by load_suites_from_directory are not 'within one suite' and are not checked "
    "by the loader (modelled as accepted)",
    "visible_if conditions do not raise and are pure; what they return is computed at load time from a constant, an environment "
    "variable (set / unset by the harness around the load), an attribute of the object they receive, len() of such an attribute or "
    "the item's own identifier; values of other types (bytes, sets, numpy arrays, objects whose __bool__ raises) are not generated",
]
RULE = ("(droppings and tool directories never make a layout count) a layout counts if its declared tree has >= 2 levels of suites somewhere (a test at depth >= 3 of its path) and contains at "
        "least one of: hidden item, conditional (visible_if) item, parametrized test, directory without module, single-class "
        "collapse; for the malformed stream: the injected defect is present; distinct = hash of (entry point, layout)")
EXPLANATION = ("Theorems over all layouts (LccModel.C13.*) proved in Lean by structural induction; the model is tied to loader.py by "
               "rendering generated layouts to real source trees, loading them with the real loader and comparing the whole tree "
               "(paths, order, names, descriptions, ranks, tags, properties, links, disabled, parameters, or the error class and "
               "kind); the oracle compares the loaded tree with the generator's own declaration list (an item under visible_if is "
               "declared iff the value its condition returns is a true value by the harness's own truth table). The loader's "
               "decision for every value shape is extracted from the real code as tables and re-proved against the model. "
               "The source trees also hold what tools leave behind (hidden drafts that are valid modules, lock files = dangling links, "
               "AppleDouble binaries, backups, __init__.py, tool directories): they declare nothing, must not be imported (each reports "
               "its own import) and must not fail the load; the model receives the directory as it is on disk and its scan "
               "(DirScan.acceptsName, theorems over all names, table extracted from the real scan functions) decides.")


# ---------------------------------------------------------------------------------------------
# the generator's own declaration list (oracle side; never calls the Lean model)
# ---------------------------------------------------------------------------------------------

def pv_truthy(pv):
    """The harness's own truth table for the value shapes a visible_if condition returns (Python's truth protocol:
    None, False, numeric zeros, empty text and empty containers are false; an instance is asked __bool__, else
    __len__, else it is true).  Written from the language rule, not from the loader and not from the Lean model."""
    t = pv["t"]
    if t == "none":
        return False
    if t == "bool":
        return pv["v"] is True
    if t == "int":
        return pv["v"] != 0
    if t == "float":
        return pv["k"] in ("nan", "inf") or (pv["k"] == "fin" and pv["milli"] != 0)
    if t == "str":
        return len(pv["v"]) > 0
    if t in ("list", "tuple", "dict", "objlen"):
        return pv["n"] > 0
    if t == "obj":
        return True
    if t == "objbool":
        return pv["v"] is True
    raise ValueError(pv)


class Flags(set):
    """feature flags collected while the declaration list is computed"""


def _visible(v, attr=None, flags=None):
    """the property's single reading: no condition => visible; hidden() => not; visible_if(c) => visible iff c(obj) is a
    true value (whatever kind of callable c is)"""
    if v is None or v == "always":
        return True
    if v == "hidden":
        return False
    return pv_truthy(L.cond_pv(v, attr))


def _fh(v, attr, flags):
    """hidden by a condition that returns a false value AND is itself a false value (callable instance with __bool__ /
    __len__): the input class of the repaired finding D36 — recorded only to label a regression"""
    r = isinstance(v, dict) and v.get("callable") == "falsy-obj" and not pv_truthy(L.cond_pv(v, attr))
    if r:
        flags.add("falsy-callable-hides")
    return r


def _cond_flags(v, attr, level, flags):
    if v is None:
        return
    if v == "hidden":
        flags.add("hidden")
        return
    flags.add("conditional")
    flags.add("cond-level:" + level)
    pv = L.cond_pv(v, attr)
    tr = pv_truthy(pv)
    flags.add("cond:" + ("bool" if pv["t"] == "bool" else ("truthy" if tr else "falsy") + "-nonbool"))
    flags.add("cond-value:%s:%s" % (pv["t"], "T" if tr else "F"))
    if isinstance(v, dict):
        flags.add("cond-via:" + v["via"])
        if v.get("callable", "lambda") != "lambda":
            flags.add("cond-callable:" + v["callable"])


def _desc_from_name(n):
    return n.capitalize().replace("_", " ")


def _fmt(segs, ps):
    out = ""
    d = dict((k, v) for k, v in ps)
    for s in segs:
        if "lit" in s:
            out += s["lit"]
        else:
            if s["field"] not in d:
                return None
            out += str(d[s["field"]])
    return out


def _meta_of(it):
    return {"tags": list(it.get("tags") or []), "props": sorted([list(p) for p in it.get("props") or []]),
            "links": [list(l) for l in it.get("links") or []]}


def _disabled_of(it):
    d = it.get("disabled")
    return d if d else False


def x_tests(tests, flags, in_class=False):
    """declared tests of one body in declaration (rank) order: list of dicts with 'visible'."""
    out = []
    for t in sorted(tests, key=lambda t: (t["rank"], t["attr"])):
        dunder = in_class and t["attr"].startswith("__")
        if dunder:
            flags.add("dunder-member")
        name = t.get("name") or t["attr"]
        desc = t.get("desc") or _desc_from_name(name)
        base = dict(_meta_of(t), rank=t["rank"], disabled=_disabled_of(t), visible=_visible(t.get("vis"), t["attr"], flags),
                    fh=_fh(t.get("vis"), t["attr"], flags), dunder=dunder)
        _cond_flags(t.get("vis"), t["attr"], "test", flags)
        if t.get("disabled"):
            flags.add("disabled")
        p = t.get("param")
        if p is None:
            out.append(dict(base, name=name, desc=desc, params=[]))
            continue
        flags.add("parametrized")
        flags.add("source:" + p.get("style", "dict"))
        if p.get("style") == "csv":
            for part in L.header_class(p).split("+"):
                flags.add("header:" + part)
        for idx, ps in enumerate(p["sets"], 1):
            if p["naming"] is None:
                n, d = "%s_%d" % (name, idx), "%s #%d" % (desc, idx)
            else:
                flags.add("format-naming")
                n, d = _fmt(p["naming"]["name"], ps), _fmt(p["naming"]["desc"], ps)
                if n is None or d is None:
                    flags.add("INVALID:missing-key")
                    n, d = n or "?", d or "?"
            out.append(dict(base, name=n, desc=d, params=sorted([list(x) for x in ps])))
    return out


def x_cls(c, flags, in_class=False):
    _cond_flags(c.get("vis"), c["attr"], "class", flags)
    # what the class inherits / holds besides its members declares nothing (flags only)
    for label, props, _ in L.mro_of(c)[0 if c.get("own_props") else 1:] if (c.get("bases") or c.get("own_props")) else []:
        for pr in props:
            flags.add("prop:" + ("own" if label == "own" else "grandbase" if ".up" in label else "base" if label == "base0" else "mixin"))
            flags.add("getter:" + pr["getter"])
    if L.inherited_tests(c):
        flags.add("inherited-test")
    if c.get("ctor_fails"):
        flags.add("INVALID:ctor")
    if c.get("xrank") is not None:
        flags.add("explicit-rank")
    name = c.get("name") or c["attr"]
    dunder = in_class and c["attr"].startswith("__")
    if dunder:
        flags.add("dunder-member")
    return {"name": name, "desc": c.get("desc") or _desc_from_name(name), "rank": c["rank"], "visible": _visible(c.get("vis"), c["attr"], flags), "fh": _fh(c.get("vis"), c["attr"], flags),
            "meta": _meta_of(c), "origin": "class", "dunder": dunder, "tests": x_tests(c["tests"] + L.inherited_tests(c), flags, True),
            "subs": [x_cls(s, flags, True) for s in sorted(c["subs"], key=lambda s: (s["rank"], s["attr"]))]}


def x_module(m, flags):
    info = m.get("info")
    if m.get("broken"):
        flags.add("INVALID:broken")
    node = {"origin": "module", "meta": _meta_of(info or {}), "tests": x_tests(m["tests"], flags),
            "subs": [x_cls(c, flags) for c in sorted(m["classes"], key=lambda c: (c["rank"], c["attr"]))]}
    if info is None:
        node.update(name=m["stem"], desc=_desc_from_name(m["stem"]), rank=m["auto_rank"], visible=True)
    else:
        name = info["name"] if info.get("name") is not None else m["stem"]
        node.update(name=name, desc=info["desc"] if info.get("desc") is not None else _desc_from_name(name),
                    rank=info["xrank"] if info.get("xrank") is not None else m["auto_rank"], visible=_visible(info.get("vis"), None, flags),
                    fh=_fh(info.get("vis"), None, flags))
        _cond_flags(info.get("vis"), None, "module", flags)
        if info.get("xrank") is not None:
            flags.add("explicit-rank")
    return node


def x_file(m, flags):
    node = x_module(m, flags)
    vt = [t for t in node["tests"] if t["visible"]]
    vs = [s for s in node["subs"] if s["visible"]]
    if m.get("info") is None and not vt and len(vs) == 1 and vs[0]["name"] == m["stem"]:
        flags.add("collapse")
        col = dict(vs[0])
        # what the collapse leaves behind (hidden items of the module) is analysed for the loose groups only
        col["_shadow"] = node
        return col
    return node


def x_nonempty(node, strict=False):
    """has a visible test somewhere below (through visible suites); strict: not counting what D18 loses"""
    if any(t["visible"] and not (strict and t.get("dunder")) for t in node["tests"]):
        return True
    return any(s["visible"] and not (strict and s.get("dunder")) and x_nonempty(s, strict)
               for s in node["subs"] if s.get("origin") == "class") or \
        any(x_nonempty(s, strict) for s in node["subs"] if s.get("origin") != "class")


def _has_module(d):
    return bool(d["mods"]) or any(_has_module(s) for s in d["dirs"])


def drop_flags(d, flags, level="top"):
    """feature flags of the droppings of a directory tree (they declare nothing)"""
    for dr in d.get("drops") or []:
        flags.add("drop:" + dr["kind"])
        flags.add("drop-body:" + dr["body"])
        flags.add("drop-level:" + level)
        if dr["name"].startswith(".") and dr["name"].endswith(".py"):
            flags.add("drop-dot-py")
    for m in d["mods"]:
        if not m["stem"].isidentifier():
            flags.add("odd-stem")
        if m.get("broken") in ("binary", "dangling", "isdir"):
            flags.add("unimportable-py-entry:" + m["broken"])
    stems = {m["stem"] for m in d["mods"]}
    for s in d["dirs"]:
        if not _has_module(s):
            flags.add("junk-dir")
        elif s["name"].startswith((".", "__")):
            flags.add("hidden-dir-with-modules")
        drop_flags(s, flags, "companion" if s["name"] in stems else "junk-dir" if not _has_module(s) else "dir-without-module")


def drop_names(d, prefix=()):
    """every dropping of the tree: (directory names..., file name)"""
    p = prefix + (d["name"],)
    out = [p + (dr["name"],) for dr in d.get("drops") or []]
    for s in d["dirs"]:
        out += drop_names(s, p)
    return out


def x_dir(d, flags, loose_extra):
    """top-level nodes of a directory, in the order the property/documentation prescribes"""
    table = []      # (key, node)
    for m in sorted(d["mods"], key=lambda m: m["stem"] + ".py"):
        node = x_file(m, flags)
        if node["visible"]:
            table.append([("file", m["stem"]), node])
        else:
            loose_extra.append(node)
    for s in sorted(d["dirs"], key=lambda s: s["name"]):
        subs = x_dir(s, flags, loose_extra)
        target = None
        for k, node in table:
            if k == ("file", s["name"]):
                target = node
        if target is None:
            flags.add("dir-without-module" if _has_module(s) else "junk-dir")
            target = {"name": s["name"], "desc": _desc_from_name(s["name"]), "rank": 0, "visible": True, "origin": "dir",
                      "meta": _meta_of({}), "tests": [], "subs": []}
            table.append([("dir", s["name"]), target])
        else:
            flags.add("module+directory")
        target["subs"] = list(target["subs"]) + [dict(n, origin="file:" + n.get("origin", "")) for n in subs]
    nodes = [n for _, n in table]
    kept = [n for n in nodes if x_nonempty(n)]
    loose_extra.extend(n for n in nodes if not x_nonempty(n))
    kept = sorted(kept, key=lambda n: n["name"])
    kept = sorted(kept, key=lambda n: n["rank"])
    return kept


def _suite_rec(n):
    """what a test inherits from one enclosing suite: the suite's own declared name, description, tags, properties, links"""
    return dict(n.get("meta") or _meta_of({}), name=n["name"], desc=n["desc"])


def x_suite_paths(nodes, prefix=()):
    """paths of the suites of the declared tree (visible ones)"""
    out = []
    for n in nodes:
        p = prefix + (n["name"],)
        out.append(p)
        out += x_suite_paths([s for s in n["subs"] if s["visible"]], p)
    return out


def x_entries(nodes, prefix=(), via=False, chain=()):
    out = []
    for n in nodes:
        p = prefix + (n["name"],)
        v = via or bool(n.get("dunder"))
        ch = chain + (_suite_rec(n),)
        for t in n["tests"]:
            if t["visible"]:
                e = {k: t[k] for k in ("name", "desc", "rank", "tags", "props", "links", "disabled", "params")}
                e["path"] = list(p) + [t["name"]]
                e["via_dunder"] = v or bool(t.get("dunder"))
                e["suites"] = list(ch)
                out.append(e)
        out += x_entries([s for s in n["subs"] if s["visible"]], p, v, ch)
    return out


def x_fh_paths(nodes, prefix=(), via=False):
    """paths of the tests that are hidden only through items of the class `_fh` (where the unrepaired loader showed them)"""
    out = []
    for n in nodes:
        p = prefix + (n["name"],)
        v = via or bool(n.get("fh"))
        for t in n["tests"]:
            if (t["visible"] or t.get("fh")) and (v or t.get("fh")):
                out.append(p + (t["name"],))
        out += x_fh_paths([s for s in n["subs"] if s["visible"] or s.get("fh")], p, v)
    return out


def _dups(xs):
    seen = set()
    for x in xs:
        if x in seen:
            return True
        seen.add(x)
    return False


def x_strict_dup(nodes):
    """a duplicate name/description among *visible, present* siblings of one suite of the declared tree"""
    for n in nodes:
        vt = [t for t in n["tests"] if t["visible"] and not t.get("dunder")]
        vs = [s for s in n["subs"] if s["visible"] and not s.get("dunder") and (s.get("origin") == "class" or x_nonempty(s, True))]
        if _dups([t["name"] for t in vt]) or _dups([t["desc"] for t in vt]) or _dups([s["name"] for s in vs]) or _dups([s["desc"] for s in vs]):
            return True
        if x_strict_dup([s for s in n["subs"] if s["visible"] and not s.get("dunder")]):
            return True
    return False


def x_loose_dup(nodes):
    """a duplicate among *all* siblings (hidden, empty, shadowed ones included) of any suite"""
    for n in nodes:
        if _dups([t["name"] for t in n["tests"]]) or _dups([t["desc"] for t in n["tests"]]) or \
                _dups([s["name"] for s in n["subs"]]) or _dups([s["desc"] for s in n["subs"]]):
            return True
        if x_loose_dup(n["subs"]):
            return True
        if "_shadow" in n and x_loose_dup([n["_shadow"]]):
            return True
    return False


def declared(case):
    """-> dict(entries, strict_dup, loose_dup, flags, invalid)   (entries: the generator's declaration list)"""
    entry, pick = case["entry"], case.get("pick")
    lay = L.with_ranks(case["layout"], entry, pick)
    flags, extra = Flags(), []
    if entry == "dir":
        nodes = x_dir(lay, flags, extra)
        drop_flags(lay, flags)
    elif entry == "files":
        nodes = []
        drop_flags(dict(lay, dirs=[]), flags)
        for m in sorted(lay["mods"], key=lambda m: m["stem"] + ".py"):
            n = x_file(m, flags)
            (nodes if n["visible"] and x_nonempty(n) else extra).append(n)
    elif entry == "file":
        n = x_file([m for m in lay["mods"] if m["stem"] == pick][0], flags)
        nodes = [dict(n, visible=True)]
    else:
        m = [m for m in lay["mods"] if m["stem"] == pick[0]][0]
        if m.get("broken"):
            flags.add("INVALID:broken")
        c = [c for c in m["classes"] if c["attr"] == pick[1]][0]
        nodes = [dict(x_cls(c, flags), visible=True)]
    entries = x_entries(nodes)
    drops = [] if entry not in ("dir", "files") else [list(p) for p in drop_names(lay if entry == "dir" else dict(lay, dirs=[]))]
    return {"drops": drops, "entries": entries, "suite_paths": x_suite_paths(nodes), "falsy_hidden": x_fh_paths(nodes + [n for n in extra if n.get("fh")], (), False) if "falsy-callable-hides" in flags else [],
            "strict_dup": x_strict_dup(nodes), "loose_dup": x_loose_dup(nodes + extra),
            "flags": sorted(flags), "invalid": any(f.startswith("INVALID") for f in flags),
            "depth": max([len(e["path"]) for e in entries] + [0])}


# ---------------------------------------------------------------------------------------------
# observation of the real loader
# ---------------------------------------------------------------------------------------------

def _dump_test(t):
    d = t.disabled
    # the rank of a variant of a parametrized test is `md.rank + idx / (idx + 1)` since fix N5: C13's model speaks of the
    # declaration's rank (its integer part); the order of the variants is their order in the tree (compared as such), the
    # fractional part is modelled by Model/Expand.lean (C01 / C05)
    return {"name": t.name, "desc": t.description, "rank": int(t.rank // 1), "tags": list(t.tags),
            "props": sorted([k, v] for k, v in t.properties.items()), "links": [[u, n] for u, n in t.links],
            "disabled": d if isinstance(d, (bool, str)) else repr(d),
            "params": sorted([k, v] for k, v in t.parameters.items()), "path": [n.name for n in t.hierarchy]}


def _dump_suite(s):
    d = s.disabled
    return {"name": s.name, "desc": s.description, "rank": s.rank, "tags": list(s.tags),
            "props": sorted([k, v] for k, v in s.properties.items()), "links": [[u, n] for u, n in s.links],
            "disabled": d if isinstance(d, (bool, str)) else repr(d), "hidden": bool(s.hidden),
            "tests": [_dump_test(t) for t in s.get_tests()], "subs": [_dump_suite(x) for x in s.get_suites()]}


_ERR_PATTERNS = [
    ("dupTestDesc", re.compile(r"^A test with description '(.*)' is already registered in test suite", re.S)),
    ("dupTestName", re.compile(r"^A test with name '(.*)' is already registered in test suite", re.S)),
    ("dupSuiteDesc", re.compile(r"^A sub test suite with description '(.*)' is already registered in test suite", re.S)),
    ("dupSuiteName", re.compile(r"^A sub test suite with name '(.*)' is already registered in test suite", re.S)),
    ("importError", re.compile(r"^Error while importing file '([^']*)'", re.S)),
    ("ctorError", re.compile(r"^Got an unexpected error while instantiating suite class '([^']*)'", re.S)),
]


def _classify(e):
    cls = type(e).__name__
    if isinstance(e, KeyError):
        return {"class": cls, "kind": "formatKeyError", "arg": e.args[0] if e.args else None}
    msg = str(e)
    for kind, rx in _ERR_PATTERNS:
        m = rx.match(msg)
        if m:
            arg = m.group(1)
            if kind == "importError":
                return {"class": cls, "kind": kind, "arg": os.path.basename(arg)[:-3], "file": os.path.basename(arg)}
            return {"class": cls, "kind": kind, "arg": arg}
    return {"class": cls, "kind": "other", "arg": msg[:200]}


def _dump_chain(t):
    """the enclosing suites of a loaded test, outermost first, each with its OWN metadata (what the test inherits)"""
    return [{"name": s.name, "desc": s.description, "tags": list(s.tags), "props": sorted([k, v] for k, v in s.properties.items()),
             "links": [[u, n] for u, n in s.links]} for s in t.hierarchy if s is not t]


def _flat(suites):
    from lemoncheesecake.testtree import flatten_tests
    return [dict(_dump_test(t), suites=_dump_chain(t)) for t in flatten_tests(suites)]


def _suite_paths(suites):
    from lemoncheesecake.testtree import flatten_suites
    return [[n.name for n in s.hierarchy] for s in flatten_suites(suites)]


# How the caller SPELLS the directory handed to `load_suites_from_directory` (fifth seeded round): the loaded forest is a
# function of the directory's content, not of the spelling of its path.  kind -> (working directory, argument), both relative
# to the scratch directory `top` that holds `suites/`.
SPELLINGS = ["abs", "abs", "rel", "dot-rel", "trailing-sep", "double-sep", "inner-dot", "dotdot", "rel-trailing", "dot-double-sep",
             "symlink", "cwd-dot", "rel-symlink", "triple-sep"]


def spell(kind, top):
    """-> (cwd or None, path string) for the suites directory `top/suites`"""
    sep = os.sep
    root = os.path.join(top, "suites")
    if kind == "rel":
        return top, "suites"
    if kind == "dot-rel":
        return top, "." + sep + "suites"
    if kind == "trailing-sep":
        return None, root + sep
    if kind == "double-sep":
        return None, top + sep + sep + "suites"
    if kind == "triple-sep":
        return top, "." + sep + sep + sep + "suites" + sep + sep
    if kind == "inner-dot":
        return None, top + sep + "." + sep + "suites"
    if kind == "dotdot":
        return top, ".." + sep + os.path.basename(top) + sep + "suites"
    if kind == "rel-trailing":
        return top, "suites" + sep
    if kind == "dot-double-sep":
        return top, "." + sep + sep + "suites"
    if kind == "symlink":
        os.symlink("suites", os.path.join(top, "link"))
        return None, os.path.join(top, "link")
    if kind == "rel-symlink":
        os.symlink("suites", os.path.join(top, "link"))
        return top, "." + sep + "link"
    if kind == "cwd-dot":
        return root, "."
    return None, root


def spell_text(kind):
    """the argument string of a spelling, up to the scratch directory's own name (no file system access)"""
    if kind in ("symlink", "rel-symlink"):
        return {"symlink": os.sep + "T" + os.sep + "link", "rel-symlink": "." + os.sep + "link"}[kind]
    return spell(kind, os.sep + "T")[1]


def observe(case):
    from lemoncheesecake.suite import loader, builder
    from lemoncheesecake.helpers.moduleimport import import_module

    top = os.path.realpath(tempfile.mkdtemp(prefix="lccverif-c13-"))
    root = os.path.join(top, "suites")
    old_cwd = os.getcwd()
    mods_before = set(sys.modules)
    old_dwb = sys.dont_write_bytecode
    sys.dont_write_bytecode = True
    env = L.env_of(case["layout"])      # what the conditions read from the environment at load time
    env["LCCV_IMPORT_LOG"] = os.path.join(top, "import.log")   # every dropping holding Python source reports its own import
    saved_env = {k: os.environ.get(k) for k in env}

    def imported():
        try:
            with open(env["LCCV_IMPORT_LOG"]) as fh:
                return sorted({os.path.relpath(l.strip(), top).replace(os.sep, "/") for l in fh if l.strip()})
        except OSError:
            return []
    try:
        for k, val in env.items():
            if val is None:
                os.environ.pop(k, None)
            else:
                os.environ[k] = val
        L.render(case["layout"], root)
        builder.Metadata._next_rank = 1
        builder._objects_with_metadata.clear()
        entry = case["entry"]
        try:
            if entry == "dir":
                cwd, arg = spell(case.get("spelling") or "abs", top)
                if cwd:
                    os.chdir(cwd)
                suites = loader.load_suites_from_directory(arg)
            elif entry == "files":
                suites = loader.load_suites_from_files(os.path.join(root, "*.py"), excluding=os.path.join(root, "__*.py"))
            elif entry == "file":
                suites = [loader.load_suite_from_file(os.path.join(root, case["pick"] + ".py"))]
            else:
                stem, attr = case["pick"]
                try:
                    mod = import_module(os.path.join(root, stem + ".py"))
                except Exception as e:       # the harness's own import of the module (not the loader)
                    return {"error": {"class": "SuiteLoadingError", "kind": "importError", "arg": stem, "by": "harness-import"}}
                suites = [loader.load_suite_from_class(getattr(mod, attr))]
            return {"ok": [_dump_suite(s) for s in suites], "flat": _flat(suites), "suite_paths": _suite_paths(suites),
                    "imported_drops": imported()}
        except Exception as e:      # classified: the loader's exceptions are part of the observation
            return {"error": _classify(e), "imported_drops": imported()}
    finally:
        for k, val in saved_env.items():
            if val is None:
                os.environ.pop(k, None)
            else:
                os.environ[k] = val
        os.chdir(old_cwd)
        sys.dont_write_bytecode = old_dwb
        # `import_module` registers every suite module under its path STRING (relative spellings included)
        for k in [k for k in sys.modules if isinstance(k, str) and (k.startswith(top) or (k not in mods_before and k.endswith(".py")))]:
            del sys.modules[k]
        builder._objects_with_metadata.clear()
        shutil.rmtree(top, ignore_errors=True)


# ---------------------------------------------------------------------------------------------
# model request
# ---------------------------------------------------------------------------------------------

def _j_meta(it):
    return {"tags": list(it.get("tags") or []), "props": [list(p) for p in it.get("props") or []],
            "links": [list(l) for l in it.get("links") or []]}


def _j_vis(v, attr=None):
    if v is None:
        return "always"
    if v == "hidden" or v is True or v is False:
        return v
    return {"cond": L.cond_pv(v, attr), "self_truthy": v.get("callable") != "falsy-obj"}


def _j_test(t):
    j = dict(_j_meta(t), attr=t["attr"], name=t.get("name"), desc=t.get("desc"), rank=t["rank"], vis=_j_vis(t.get("vis"), t["attr"]),
             disabled=t.get("disabled") or False, param=None)
    if t.get("param"):
        p = t["param"]
        if p.get("style") == "csv":
            # the source as WRITTEN: the header text and the rows; the model's `parseHeader` finds the names
            j["param"] = {"header": L.csv_header(p), "rows": [[v for _, v in s] for s in p["sets"]], "naming": p["naming"]}
        elif p.get("style") == "csvtuple":
            j["param"] = {"names": L.csv_keys(p), "rows": [[v for _, v in s] for s in p["sets"]], "naming": p["naming"]}
        else:
            j["param"] = {"sets": p["sets"], "naming": p["naming"]}
    return j


_GETTER_CLASS = {"raise-attr": "raises", "raise-runtime": "raises", "fixture": "raises", "returns-test": "returns",
                 "returns-suite": "returns", "value": "value"}


def _j_mro(c):
    """the class dicts of the MRO besides the members: properties by what their getter does at load time, plain attributes"""
    if not c.get("bases") and not c.get("own_props"):
        return None
    return [[{"name": p["name"], "kind": "property", "getter": _GETTER_CLASS[p["getter"]], "target": p.get("target") or ""} for p in props] +
            [{"name": a[1:], "kind": "member"} if a.startswith("=") else {"name": a, "kind": "plain"} for a in attrs]
            for _, props, attrs in L.mro_of(c)]


def _j_cls(c):
    return dict(_j_meta(c), attr=c["attr"], name=c.get("name"), desc=c.get("desc"), rank=c["rank"], vis=_j_vis(c.get("vis"), c["attr"]),
                disabled=c.get("disabled") or False, ctor_fails=bool(c.get("ctor_fails")),
                tests=[_j_test(t) for t in c["tests"] + L.inherited_tests(c)], subs=[_j_cls(s) for s in c["subs"]], mro=_j_mro(c))


def _j_module(m):
    info = m.get("info")
    ji = None
    if info is not None:
        ji = dict(_j_meta(info), name=info.get("name"), desc=info.get("desc"), rank=info.get("xrank"), vis=_j_vis(info.get("vis")))
    return {"stem": m["stem"], "info": ji, "auto_rank": m["auto_rank"], "broken": bool(m.get("broken")),
            "tests": [_j_test(t) for t in m["tests"]], "classes": [_j_cls(c) for c in m["classes"]]}


def _j_dir(d):
    return {"name": d["name"], "mods": [_j_module(m) for m in d["mods"]], "dirs": [_j_dir(s) for s in d["dirs"]]}


def _j_files(d):
    """every file entry of a directory as it is on disk: the layout's modules AND its droppings (a dropping holding Python
    source travels with its whole module: the model's scan, not the harness, decides that it is not loaded)"""
    out = [{"name": m["stem"] + ".py", "mod": None if m.get("broken") in ("binary", "dangling", "isdir") else _j_module(m)}
           for m in d["mods"]]
    for dr in d.get("drops") or []:
        out.append({"name": dr["name"], "mod": _j_module(dr["mod"]) if dr["body"] == "module" else None})
    # os.listdir order is arbitrary: interleave deterministically
    return sorted(out, key=lambda e: (sum(map(ord, e["name"])) % 7, e["name"]))


def _j_rawdir(d):
    return {"name": d["name"], "files": _j_files(d), "dirs": [_j_rawdir(s) for s in d["dirs"]]}


def model_request(case):
    entry, pick = case["entry"], case.get("pick")
    lay = L.with_ranks(case["layout"], entry, pick)
    if entry == "dir":
        # the spelling travels as text (the scratch directory's own name abstracted to `T`: the model never reads directory names
        # of the argument, only its separators)
        return {"entry": "rawdir", "dir": _j_rawdir(lay), "spelling": spell_text(case.get("spelling") or "abs")}
    if entry == "files":
        return {"entry": "rawfiles", "files": _j_files(lay)}
    if entry == "file":
        return {"entry": "file", "mod": _j_module([m for m in lay["mods"] if m["stem"] == pick][0])}
    m = [m for m in lay["mods"] if m["stem"] == pick[0]][0]
    return {"entry": "class", "cls": _j_cls([c for c in m["classes"] if c["attr"] == pick[1]][0]), "mod_broken": bool(m.get("broken"))}


def _canon_model_test(t):
    return {"name": t["name"], "desc": t["desc"], "rank": t["rank"], "tags": t["tags"], "props": sorted(t["props"]),
            "links": t["links"], "disabled": t["disabled"], "params": sorted(t["params"])}


def _canon_model_suite(s, prefix=()):
    p = prefix + (s["name"],)
    return {"name": s["name"], "desc": s["desc"], "rank": s["rank"], "tags": s["tags"], "props": sorted(s["props"]),
            "links": s["links"], "disabled": s["disabled"], "hidden": s["hidden"],
            "tests": [dict(_canon_model_test(t), path=list(p) + [t["name"]]) for t in s["tests"]],
            "subs": [_canon_model_suite(x, p) for x in s["subs"]]}


def _first_diff(a, b, where="tree"):
    if type(a) != type(b):
        return f"{where}: {a!r} vs {b!r}"
    if isinstance(a, dict):
        for k in sorted(set(a) | set(b)):
            if k not in a or k not in b:
                return f"{where}.{k}: only on one side"
            d = _first_diff(a[k], b[k], f"{where}.{k}")
            if d:
                return d
        return None
    if isinstance(a, list):
        if len(a) != len(b):
            return f"{where}: lengths {len(a)} vs {len(b)}: {[_nm(x) for x in a]} vs {[_nm(x) for x in b]}"
        for i, (x, y) in enumerate(zip(a, b)):
            d = _first_diff(x, y, f"{where}[{i}]")
            if d:
                return d
        return None
    return None if a == b else f"{where}: {a!r} vs {b!r}"


def _nm(x):
    return x.get("name") if isinstance(x, dict) else x


# ---------------------------------------------------------------------------------------------
# streams
# ---------------------------------------------------------------------------------------------

def _shrink_lists(obj, path=()):
    """yield copies of obj with one element removed from one list of dict-items somewhere inside"""
    if isinstance(obj, dict):
        for k, v in obj.items():
            if k == "drops" and isinstance(v, list):
                for i in range(len(v)):
                    c = copy.deepcopy(obj)
                    del c[k][i]
                    yield c
                for i, it in enumerate(v):
                    if it.get("mod") and (it["mod"]["classes"] or len(it["mod"]["tests"]) > 1):
                        c = copy.deepcopy(obj)
                        c[k][i]["mod"]["classes"] = []
                        c[k][i]["mod"]["tests"] = c[k][i]["mod"]["tests"][:1]
                        yield c
            elif k in ("tests", "subs", "classes", "mods", "dirs") and isinstance(v, list):
                for i in range(len(v)):
                    c = copy.deepcopy(obj)
                    del c[k][i]
                    yield c
                for i, it in enumerate(v):
                    for sub in _shrink_lists(it):
                        c = copy.deepcopy(obj)
                        c[k][i] = sub
                        yield c
            elif k == "param" and v is not None:
                c = copy.deepcopy(obj)
                c["param"] = None
                yield c
                for i in range(len(v["sets"])):
                    c = copy.deepcopy(obj)
                    del c["param"]["sets"][i]
                    yield c
            elif k in ("tags", "props", "links", "bases", "own_props") and v:
                c = copy.deepcopy(obj)
                c[k] = []
                yield c
                if k == "bases":
                    for i, b in enumerate(v):
                        if len(v) > 1:
                            c = copy.deepcopy(obj)
                            del c[k][i]
                            yield c
                        if b["up"] or b["attrs"] or len(b["props"]) > 1:
                            c = copy.deepcopy(obj)
                            c[k][i] = dict(b, up=[], attrs=[], props=b["props"][:1])
                            yield c
            elif k in ("vis", "disabled", "xrank", "info", "name", "desc") and v is not None:
                c = copy.deepcopy(obj)
                c[k] = None
                yield c
                if k == "vis" and isinstance(v, dict):
                    # a computed condition: as a constant returning the same value, with a plain lambda, as a plain bool
                    pv = L.cond_pv(v, obj.get("attr"))
                    if v["via"] != "const":
                        c = copy.deepcopy(obj)
                        c[k] = dict(v, pv=copy.deepcopy(pv), via="const")
                        yield c
                    if v.get("callable", "lambda") != "lambda":
                        c = copy.deepcopy(obj)
                        c[k] = dict(copy.deepcopy(v), callable="lambda")
                        yield c
                    c = copy.deepcopy(obj)
                    c[k] = pv_truthy(pv)
                    yield c


def _t(attr, **kw):
    d = {"attr": attr, "pos": 0, "name": None, "desc": None, "vis": None, "disabled": None, "param": None, "tags": [], "props": [], "links": []}
    d.update(kw)
    return d


def _c(attr, tests, subs=(), **kw):
    d = {"attr": attr, "pos": 0, "name": None, "desc": None, "xrank": None, "vis": None, "disabled": None, "ctor_fails": False,
         "tests": list(tests), "subs": list(subs), "tags": [], "props": [], "links": []}
    d.update(kw)
    return d


def _m(stem, tests=(), classes=(), **kw):
    d = {"stem": stem, "info": None, "broken": None, "tests": list(tests), "classes": list(classes)}
    d.update(kw)
    return d


# minimal witness of the open finding D18 (= LccModel.C13.dunderWitness)
WITNESS_D18 = {"entry": "dir", "defect": None, "layout": {"name": "suites", "noise": False, "dirs": [], "mods": [
    _m("m", classes=[_c("K", [_t("__dunder__", pos=0), _t("normal", pos=1)])])]}}

def _cond(pv, via="const", key="k1", call="lambda"):
    return {"pv": pv, "via": via, "key": key, "callable": call}


def _info(**kw):
    d = {"name": None, "desc": None, "xrank": None, "vis": None, "tags": [], "props": [], "links": []}
    d.update(kw)
    return d


_PV = L._pv

# minimal witness of the repaired finding D36 (= LccModel.C13.falsyCondWitness): the condition callable is itself a false value;
# it was loaded before the repair and must stay hidden
WITNESS_D36 = {"entry": "dir", "defect": None, "layout": {"name": "suites", "noise": False, "dirs": [], "mods": [
    _m("m", tests=[_t("gated", pos=0, vis=_cond(_PV("bool", v=False), call="falsy-obj")), _t("normal", pos=1)])]}}

# visible_if conditions returning values that are false without being False / true without being True, computed at load
# time, on all three levels (minimised failing inputs of the seeded change C13-4, `condition(obj) is False`)
COND_SHAPES = [
    # one test function whose condition reads an unset environment variable (os.environ.get -> None)
    {"entry": "dir", "defect": None, "layout": {"name": "suites", "noise": False, "dirs": [], "mods": [
        _m("api", tests=[_t("ping", pos=0), _t("slow_ping", pos=1, vis=_cond(_PV("none"), "env", "slow"))])]}},
    # a class hidden by len() == 0 of a class attribute, a method hidden by 0, shown by '0'; a module hidden by ''
    {"entry": "dir", "defect": None, "layout": {"name": "suites", "noise": False, "dirs": [], "mods": [
        _m("api", tests=[_t("ping", pos=0), _t("fast_ping", pos=1, vis=_cond(_PV("str", v="0"), "env", "fast"))],
           classes=[_c("nightly", [_t("full_scan")], vis=_cond(_PV("int", v=0), "len", "feat"), pos=2),
                    _c("daily", [_t("quick_scan", pos=0), _t("experimental_scan", pos=1, vis=_cond(_PV("int", v=0), "envint", "exp")),
                                 _t("listed", pos=2, vis=_cond(_PV("list", n=1), "attr", "lst"))], pos=3)]),
        _m("legacy", tests=[_t("old_stuff")], info=_info(vis=_cond(_PV("str", v=""), "attr", "flag"))),
        _m("shown", tests=[_t("kept")], info=_info(vis=_cond(_PV("float", k="nan"))))]}},
    # every false value and a few true ones on the methods of one class (entry point load_suite_from_class); count('_') of the name
    {"entry": "class", "pick": ["m", "S"], "defect": None, "layout": {"name": "suites", "noise": False, "dirs": [], "mods": [
        _m("m", classes=[_c("S", [_t("f%02d" % i, pos=i, vis=_cond(pv, key="c%d" % i)) for i, pv in enumerate(L.FALSY_PVS)] +
                            [_t("t%02d" % i, pos=20 + i, vis=_cond(pv, key="d%d" % i)) for i, pv in enumerate(L.TRUTHY_PVS[1:8])] +
                            [_t("nounderscore", pos=40, vis=_cond(None, "count", "n1")), _t("with_underscore", pos=41, vis=_cond(None, "count", "n2"))],
                         [_c("Plain", [_t("p")], vis=_cond(None, "count", "n3"), pos=50), _c("Under_score", [_t("u")], vis=_cond(None, "count", "n4"), pos=51)])])]}},
    # a hidden-by-None class does not prevent the single-class collapse; a hidden-by-0 module leaves its directory to a synthetic suite
    {"entry": "dir", "defect": None, "layout": {"name": "suites", "noise": False, "mods": [
        _m("b", tests=[_t("hidden_fn", pos=0, vis=_cond(_PV("tuple", n=0)))],
           classes=[_c("b", [_t("b1")], pos=1), _c("Side", [_t("s1")], vis=_cond(_PV("none"), "attr", "side"), pos=2)]),
        _m("h", tests=[_t("h1")], info=_info(vis=_cond(_PV("int", v=0), "envint", "hmod")))],
        "dirs": [{"name": "h", "noise": False, "dirs": [], "mods": [_m("s", tests=[_t("s1")])]}]}},
    # callable instances as conditions (truthy ones behave like lambdas)
    {"entry": "file", "pick": "m", "defect": None, "layout": {"name": "suites", "noise": False, "dirs": [], "mods": [
        _m("m", tests=[_t("a", pos=0, vis=_cond(_PV("objbool", v=False), call="obj")), _t("b", pos=1, vis=_cond(_PV("objlen", n=3), call="obj")),
                       _t("c", pos=2, vis=_cond(_PV("str", v="x"), call="falsy-obj"))])]}},
]

def _drop(name, kind, body="module", tests=("draft",)):
    mod = None
    if body == "module":
        mod = _m("", tests=[_t(a, pos=i) for i, a in enumerate(tests)])
    return {"name": name, "kind": kind, "body": body, "mod": mod}


# what tools leave in a suites directory is not a suite module (minimised failing inputs of the seeded change C13-7: the
# directory scan matched dot-prefixed names): hidden drafts with tests on two levels; a lock file (dangling symbolic link) and an
# AppleDouble binary; everything else that is not `<stem>.py`; directories nobody declared
DROPPINGS = [
    {"entry": "dir", "defect": None, "layout": {"name": "suites", "noise": False, "drops": [_drop(".alpha_draft.py", "hidden-draft")],
     "mods": [_m("alpha", tests=[_t("first", pos=0), _t("second", pos=1)])],
     "dirs": [{"name": "alpha", "noise": False, "dirs": [], "mods": [_m("beta", tests=[_t("nested")])],
               "drops": [_drop(".beta_wip.py", "hidden-draft")]}]}},
    {"entry": "dir", "defect": None, "layout": {"name": "suites", "noise": False, "dirs": [],
     "mods": [_m("alpha", tests=[_t("first", pos=0), _t("second", pos=1)])],
     "drops": [_drop("._alpha.py", "appledouble", "binary"), _drop(".#alpha.py", "lock-symlink", "dangling")]}},
    {"entry": "files", "defect": None, "layout": {"name": "suites", "noise": False, "dirs": [],
     "mods": [_m("alpha", tests=[_t("first")]), _m("a", tests=[_t("t_a")]), _m("a.b", tests=[_t("t_ab")]), _m("_private", tests=[_t("p")])],
     "drops": [_drop(".alpha.py", "hidden-twin"), _drop("__init__.py", "dunder-file"), _drop("alpha.PY", "upper-ext"),
               _drop("alpha.py~", "backup-tilde"), _drop("#alpha.py#", "autosave"), _drop(".py", "only-ext"),
               _drop("alpha.pyc", "pyc", "binary"), _drop("notes.txt", "non-py", "text"), _drop("alpha.py.bak", "backup-ext")]}},
    {"entry": "dir", "defect": None, "layout": {"name": "suites", "noise": False, "drops": [],
     "mods": [_m("a", tests=[_t("t_a")]), _m("a.b", tests=[_t("t_ab")])],
     "dirs": [{"name": ".git", "noise": False, "mods": [], "drops": [_drop("config", "non-py", "text")],
               "dirs": [{"name": "hooks", "noise": False, "mods": [], "dirs": [], "drops": [_drop(".pre_commit.py", "hidden-draft")]}]},
              {"name": ".wip", "noise": False, "dirs": [], "drops": [], "mods": [_m("kept", tests=[_t("k")])]},
              {"name": "__pycache__", "noise": False, "mods": [], "dirs": [], "drops": [_drop("a.cpython-312.pyc", "pyc", "binary")]},
              {"name": "a.b", "noise": False, "dirs": [], "mods": [_m("sub", tests=[_t("s")])], "drops": [_drop(".#sub.py", "lock-symlink", "dangling")]}]}},
    # an entry the scan accepts by its name that is not Python source: the load fails (the scan looks at names only)
    {"entry": "dir", "defect": "broken", "layout": {"name": "suites", "noise": False, "dirs": [], "drops": [],
     "mods": [_m("alpha", tests=[_t("first")]), _m("zdir", broken="isdir")]}},
]

# hand-written shapes replayed first on every run
CORPUS_SHAPES = [
    # module + companion directory + directory without module + collapse + hidden module with companion directory
    {"entry": "dir", "defect": None, "layout": {"name": "suites", "noise": True, "mods": [
        _m("a", tests=[_t("t1", pos=0), _t("t2", pos=1, vis="hidden"),
                       _t("t3", pos=2, param={"sets": [[["i", 1]], [["i", 2]]], "naming": None, "style": "csv"})],
           classes=[_c("K", [_t("k1", pos=0), _t("k2", pos=1, vis=False)], [_c("N", [_t("n1", disabled=True)], pos=2)], pos=3)]),
        _m("b", classes=[_c("b", [_t("b1", pos=0), _t("b2", pos=1)], desc="The b suite")]),
        _m("h", tests=[_t("h1")], info={"name": None, "desc": None, "xrank": None, "vis": False, "tags": [], "props": [], "links": []})],
        "dirs": [{"name": "a", "noise": False, "dirs": [], "mods": [_m("x", tests=[_t("x1")])]},
                 {"name": "d", "noise": False, "dirs": [], "mods": [_m("y", tests=[_t("y1")])]},
                 {"name": "h", "noise": False, "dirs": [], "mods": [_m("s", tests=[_t("s1")])]}]}},
    # equal explicit ranks: ties resolved by dir() order (attribute name), not textual order
    {"entry": "file", "pick": "m", "defect": None, "layout": {"name": "suites", "noise": False, "dirs": [], "mods": [
        _m("m", classes=[_c("zeta", [_t("t")], xrank=5, pos=0), _c("alpha", [_t("t")], xrank=5, pos=1),
                         _c("Mid", [_t("t")], xrank=2, pos=2)])]}},
    # class suite vs companion-directory suite of the same name: rejected at merge time
    {"entry": "dir", "defect": "dir_vs_class", "layout": {"name": "suites", "noise": False, "mods": [
        _m("a", tests=[_t("t0", pos=0)], classes=[_c("x", [_t("k")], pos=1)])],
        "dirs": [{"name": "a", "noise": False, "dirs": [], "mods": [_m("x", tests=[_t("x1")])]}]}},
    # top-level suites of the same name are accepted (not within one suite)
    {"entry": "dir", "defect": None, "layout": {"name": "suites", "noise": False, "dirs": [], "mods": [
        _m("a", tests=[_t("t1")], info={"name": "same", "desc": None, "xrank": None, "vis": None, "tags": [], "props": [], "links": []}),
        _m("b", tests=[_t("t2")], info={"name": "same", "desc": None, "xrank": None, "vis": None, "tags": [], "props": [], "links": []})]}},
    # past false alarm of this check (thorough tier): a directory suite whose only test is lost to D18 is empty for the
    # loader, hence dropped before add_suite — its description clashing with a class suite is not a detectable duplicate
    {"entry": "dir", "defect": "dir_dup_desc", "layout": {"name": "suites", "noise": False, "mods": [], "dirs": [
        {"name": "D", "noise": False, "mods": [_m("mod_a", classes=[_c("suite_b", [])])], "dirs": [
            {"name": "mod_a", "noise": False, "dirs": [], "mods": [
                _m("zz", classes=[_c("zeta", [], [_c("alpha", [_t("__dunder__")])])],
                   info={"name": None, "desc": "Suite b", "xrank": None, "vis": None, "tags": [], "props": [], "links": []})]}]}]}},
    # a hidden parametrized test whose naming template misses a key still raises KeyError
    {"entry": "class", "pick": ["m", "S"], "defect": "missing_key", "layout": {"name": "suites", "noise": False, "dirs": [], "mods": [
        _m("m", classes=[_c("S", [_t("p", vis="hidden", param={"sets": [[["i", 1]]], "style": "dict",
                                                             "naming": {"name": [{"lit": "p_"}, {"field": "j"}], "desc": [{"lit": "d"}]}})])])]}},
]


def _csv(keys, rows, pads, naming=None):
    return {"sets": [[[k, v] for k, v in zip(keys, r)] for r in rows], "naming": naming, "style": "csv", "pads": pads}


# string headers of the CSV-like form of @lcc.parametrized, as people write them (fourth seeded round): the parameter names are
# the trimmed fields.  First the minimised failing input of the seeded change (one test, one field, one trailing blank), then
# the spellings of the documentation, a column-aligned header, a header padded at both ends, tabs / newline, the other
# characters str.strip() removes, a format naming scheme that reads the parameters by name, a method of a nested class
HEADER_SPELLINGS = [
    {"entry": "dir", "defect": None, "layout": {"name": "suites", "noise": False, "dirs": [], "mods": [
        _m("params", tests=[_t("padded", param=_csv(["value"], [["foo"]], [["", " "]]))])]}},
    {"entry": "dir", "defect": None, "layout": {"name": "suites", "noise": False, "dirs": [], "mods": [
        _m("params", tests=[
            _t("plain", pos=0, param=_csv(["i", "j"], [[1, 2], [3, 4]], [["", ""], ["", ""]])),
            _t("spaced", pos=1, param=_csv(["i", "j"], [[1, 2], [3, 4]], [["", ""], [" ", ""]])),
            _t("aligned", pos=2, param=_csv(["host", "port"], [["localhost", 80], ["example", 443]], [["", "      "], [" ", ""]])),
            _t("padded", pos=3, param=_csv(["value"], [["foo"]], [[" ", " "]]))])]}},
    {"entry": "file", "pick": "m", "defect": None, "layout": {"name": "suites", "noise": False, "dirs": [], "mods": [
        _m("m", tests=[
            _t("tabs", pos=0, param=_csv(["i", "j"], [[1, 2]], [["\t", "\t"], ["\t", "\n"]])),
            _t("rare", pos=1, param=_csv(["i", "j", "k"], [[1, 2, 3], [4, 5, 6]], [["\xa0", "\u3000"], ["\x0c", "\x1f"], ["\u2028", "\x85"]])),
            _t("named", pos=2, param=_csv(["i", "j"], [[1, "a"], [2, "b c"]], [[" ", "  "], ["  ", " "]],
                                          naming={"name": [{"lit": "n_"}, {"field": "i"}, {"lit": "_"}, {"field": "j"}],
                                                  "desc": [{"lit": "N "}, {"field": "j"}]}))],
           classes=[_c("K", [], [_c("N", [_t("meth", param=_csv(["k"], [[7], [12]], [["      ", "\t"]]))], pos=3)], pos=4)])]}},
]


def _sub(name, mods, dirs=()):
    return {"name": name, "noise": False, "dirs": list(dirs), "mods": list(mods)}


# fifth seeded round.  (a) the SPELLING of the directory argument: a module with its companion directory, loaded through
# './suites', 'top//suites', '.' (from inside), a symbolic link …: one suite `api` carrying the module's metadata, whatever the
# spelling (minimised failing input of the seeded change C13-11 first).  (b) a module that holds only the METADATA of its suite
# (SUITE = {description, tags, …}, no test of its own) and whose tests all live in the companion directory (minimised failing
# input of the seeded change C12-11): the tests below inherit the module's metadata.
def _api(own_tests):
    return {"name": "suites", "noise": False,
            "mods": [_m("api", tests=own_tests, info=_info(desc="The API", tags=["api"], props=[["layer", "rest"]],
                                                            links=[["http://bug/1", "bug1"]]))],
            "dirs": [_sub("api", [_m("users", tests=[_t("create")])])]}


SPELLED = [{"entry": "dir", "defect": None, "spelling": k, "layout": _api([_t("ping")])}
           for k in ("dot-rel", "double-sep", "cwd-dot", "rel-symlink", "dotdot", "triple-sep")] + [
    {"entry": "dir", "defect": None, "spelling": "abs", "layout": _api([])},
    {"entry": "dir", "defect": None, "spelling": "rel-trailing", "layout": {
        "name": "suites", "noise": False, "mods": [_m("api", info=_info(tags=["api"])), _m("zz", tests=[_t("t")])],
        "dirs": [_sub("api", [_m("v1", info=_info(desc="Version 1", props=[["v", "1"]]))],
                      [_sub("v1", [_m("users", classes=[_c("admin", [_t("create")])])])])]}},
]


def _base(props, attrs=(), up=()):
    return {"props": [dict(p) for p in props], "attrs": list(attrs), "up": list(up)}


def _p(name, getter, target=None):
    return dict({"name": name, "getter": getter}, **({"target": target} if target else {}))


# fifth seeded round, (c): suite classes that INHERIT properties from plain helper base classes / mixins (minimised failing
# inputs of the seeded change C13-12 first: a getter reading an injected fixture, a getter handing out a test of the suite)
INHERITED = [
    {"entry": "dir", "defect": None, "layout": {"name": "suites", "noise": False, "dirs": [], "mods": [
        _m("shop", classes=[_c("cart", [_t("add_item")], bases=[_base([_p("session", "fixture")], ["api"])])])]}},
    {"entry": "dir", "defect": None, "layout": {"name": "suites", "noise": False, "dirs": [], "mods": [
        _m("shop", classes=[_c("cart", [_t("add_item")], bases=[_base([_p("entry_point", "returns-test", "add_item")])])])]}},
    {"entry": "class", "pick": ["shop", "checkout"], "defect": None, "layout": {"name": "suites", "noise": False, "dirs": [], "mods": [
        _m("shop", classes=[_c("checkout", [_t("pay", pos=0), _t("wip", pos=1, vis="hidden")], [_c("refund", [_t("full")], pos=2)],
                               bases=[_base([_p("aa_prop", "value")], [], [_base([_p("client", "raise-runtime")])]),
                                      _base([_p("inner", "returns-suite", "refund")], ["TIMEOUT"])],
                               own_props=[_p("session", "raise-attr")])])]}},
    # test methods inherited from a plain base class are members like the class's own (numbered before them), next to an
    # inherited property that hands out one of them
    {"entry": "dir", "defect": None, "layout": {"name": "suites", "noise": False, "dirs": [], "mods": [
        _m("shop", classes=[_c("cart", [_t("add_item", pos=0), _t("remove_item", pos=1, disabled=True)],
                               bases=[dict(_base([_p("entry_point", "returns-test", "add_item")]),
                                           tests=[_t("base_smoke", pos=0, tags=["smoke"]), _t("inh_check", pos=1, vis="hidden")])])])]}},
]


class Load(C.Stream):
    name = "C13.load"
    malformed = False
    quick_cases = 2000
    thorough_cases = 30000
    quick_seconds = 38
    thorough_seconds = 420
    chunk = 60
    corpus = [WITNESS_D18, WITNESS_D36] + SPELLED + INHERITED + DROPPINGS + COND_SHAPES + CORPUS_SHAPES + HEADER_SPELLINGS

    def gen(self, rng, i):
        lay = L.gen_layout(rng)
        defect = None
        if self.malformed:
            for _ in range(4):
                defect = L.mutate(rng, lay)
                if defect:
                    break
            if rng.random() < 0.25:
                L.mutate(rng, lay)
        r = rng.random()
        case = {"entry": "dir", "layout": lay, "defect": defect}
        if r < 0.12:
            case["entry"] = "files"
        elif r < 0.22:
            case["entry"] = "file"
            case["pick"] = rng.choice(lay["mods"])["stem"]
        elif r < 0.32:
            cands = [(m["stem"], c["attr"]) for m in lay["mods"] for c in m["classes"]]
            if cands:
                case["entry"] = "class"
                case["pick"] = list(rng.choice(cands))
        if case["entry"] == "dir":
            # drawn last: no other choice of the layouts moves
            case["spelling"] = rng.choice(SPELLINGS)
        return case

    def impl(self, case):
        return observe(case)

    def oracle(self, case, obs):
        dec = declared(case)
        fails = self.judge(dec, obs)
        if fails and case["entry"] == "dir" and {m["stem"] for m in case["layout"]["mods"]} & {d["name"] for d in case["layout"]["dirs"]}:
            # open finding D47: `glob` drops REPEATED trailing separators of the directory argument, `os.path.join` keeps them,
            # so the string lookup `suites.get(dirname + ".py")` misses at the top level.  Only this class of arguments is
            # relabelled (one signature, registered as open finding); every other spelling is judged as it stands.
            arg = spell_text(case.get("spelling") or "abs")
            if arg.endswith(os.sep * 2) and arg.strip(os.sep):
                return [C.Failure("C13/dir-argument-repeated-trailing-separators",
                                  f"load_suites_from_directory({arg!r}): a module and its companion directory are not paired "
                                  f"({fails[0].signature}: {fails[0].message[:300]})")]
        if fails and dec["falsy_hidden"] and "ok" in obs:
            # label only (the failures above stand as they are): the regression of the repaired finding D36 — an item whose
            # condition returns a false value is loaded when the condition callable is itself a false value
            # (`md.condition and not md.condition(obj)` never called it)
            ep = {tuple(e["path"]) for e in dec["entries"]}
            fh = set(dec["falsy_hidden"])
            shown = [".".join(e["path"]) for e in obs["flat"] if tuple(e["path"]) not in ep and tuple(e["path"]) in fh]
            if shown:
                fails.insert(0, C.Failure(
                    "C13/falsy-condition-callable-never-consulted",
                    f"visible_if(c) with c(obj) false and c itself a false value (callable instance with __bool__/__len__): the item "
                    f"is loaded although it is not declared visible: {shown[:4]}"))
        return fails[:3]

    def judge(self, dec, obs):
        """the property statement on one observation of the real loader, against the declaration list `dec`"""
        fails = []
        exp = dec["entries"]
        if obs.get("imported_drops"):
            # a dropping (dot-prefixed / `__`-prefixed / not `*.py`) is not a suite module: it must not even be imported
            fails.append(C.Failure("C13/dropping-imported",
                                   f"directory entries that are not suite modules were imported by the loader: {obs['imported_drops'][:4]}"))
        if "error" in obs and obs["error"].get("kind") == "importError" and \
                any(d[-1] == obs["error"].get("file") for d in dec["drops"]) and not L.scan_accepts(obs["error"].get("file", "")):
            fails.append(C.Failure("C13/load-fails-on-dropping",
                                   f"the load fails on a directory entry that is not a suite module: {obs['error'].get('file')!r}"))
        if "ok" in obs:
            got = obs["flat"]
            if dec["strict_dup"]:
                fails.append(C.Failure("C13/duplicate-accepted",
                                       "two visible tests or sub-suites of one suite share a name or a description and the loader accepted them"))
                return fails
            gp = [tuple(e["path"]) for e in got]
            from collections import Counter
            sp_got = [tuple(p) for p in obs.get("suite_paths") or []]
            if _dups(sp_got) and not _dups([tuple(p) for p in dec.get("suite_paths") or []]):
                # every declared suite is ONE node of the loaded tree: a module and its companion directory are one suite
                twice = sorted({".".join(p) for p, k in Counter(sp_got).items() if k > 1})
                fails.append(C.Failure("C13/duplicate-suite-node",
                                       f"the loaded tree holds several suites at the same path although the layout declares each suite once: {twice[:4]}"))
            have = Counter(gp)
            for e in exp:
                if not e["via_dunder"]:
                    have[tuple(e["path"])] -= 1
            lost = []
            for e in exp:
                if e["via_dunder"]:
                    if have[tuple(e["path"])] > 0:
                        have[tuple(e["path"])] -= 1
                    else:
                        lost.append(e)
            if lost:
                # D18: members of a suite class named __x__ are skipped by get_object_attributes
                fails.append(C.Failure("C13/dunder-named-class-member-not-discovered",
                                       f"declared visible tests under a '__'-named class member are not loaded: "
                                       f"{['.'.join(e['path']) for e in lost[:4]]}"))
                exp = [e for e in exp if e not in lost]
            ep = [tuple(e["path"]) for e in exp]
            missing = [p for p in ep if p not in gp]
            extra = [p for p in gp if p not in ep]
            if missing:
                fails.append(C.Failure("C13/declared-test-not-discovered", f"declared visible tests missing from the loaded tree: {missing[:5]}",
                                       {"expected": ep, "got": gp}))
            if extra:
                fails.append(C.Failure("C13/undeclared-or-hidden-test-loaded", f"tests loaded that are not declared visible: {extra[:5]}",
                                       {"expected": ep, "got": gp}))
            if not missing and not extra:
                if sorted(gp) != sorted(ep):
                    fails.append(C.Failure("C13/not-exactly-once", f"multiplicities differ: {gp} vs {ep}"))
                elif gp != ep:
                    fails.append(C.Failure("C13/wrong-order", f"loaded order {gp} differs from declaration order {ep}"))
                else:
                    for g, e in zip(got, exp):
                        for k in ("desc", "tags", "props", "links", "disabled"):
                            if g[k] != e[k]:
                                fails.append(C.Failure("C13/wrong-metadata", f"{'.'.join(g['path'])}: {k} {g[k]!r} vs declared {e[k]!r}"))
                        if g["params"] != e["params"]:
                            fails.append(C.Failure("C13/wrong-parameters", f"{'.'.join(g['path'])}: {g['params']!r} vs declared {e['params']!r}"))
                        if "suites" in g and g["suites"] != e["suites"] and not any(f.signature == "C13/enclosing-suite-metadata-lost" for f in fails):
                            # the path is "given by its enclosing directories, modules and suite classes": each enclosing suite is the
                            # declared one, with ITS declared description / tags / properties / links (what the test inherits)
                            lvl = next((i for i, (a, b) in enumerate(zip(g["suites"], e["suites"])) if a != b), min(len(g["suites"]), len(e["suites"])))
                            fails.append(C.Failure("C13/enclosing-suite-metadata-lost",
                                                   f"{'.'.join(g['path'])}: enclosing suite #{lvl} is {g['suites'][lvl:lvl + 1]!r}, "
                                                   f"declared {e['suites'][lvl:lvl + 1]!r}"))
        else:
            if not dec["loose_dup"] and not dec["invalid"]:
                fails.append(C.Failure("C13/valid-layout-rejected",
                                       f"a layout without any duplicate or invalid item was rejected: {obs['error']}"))
        return fails[:3]

    def request(self, case, obs):
        return model_request(case)

    def compare(self, case, obs, ans):
        if "error" in ans:
            return "model/driver error: " + str(ans["error"])
        if case["entry"] == "class" and obs.get("error", {}).get("by") == "harness-import":
            return None if ans.get("mod_broken", True) else "harness import failed on a module the layout does not call broken"
        dec = declared(case)
        if "spelling_ok" in ans:
            # theorem instance `C13Spelling.load_invariant_under_spelling`: for an accepted spelling the forest is that of the
            # unspelled model; and the harness's own reading of the guard (D47: two or more trailing separators)
            arg = spell_text(case.get("spelling") or "abs")
            mine = not (arg.endswith(os.sep * 2) and arg.strip(os.sep))
            if ans["spelling_ok"] != mine:
                return f"Lean spellingOk({arg!r}) = {ans['spelling_ok']}, the harness reads the guard as {mine}"
            if ans["spelling_ok"] and ans["names_ok"] and not ans["same_as_unspelled"]:
                return f"Lean: loadDirRealAt {arg!r} differs from loadDirReal although the spelling is accepted (theorem instance violated?)"
        for pth, acc, stem in ans.get("scan") or []:
            if acc != L.scan_accepts(pth[-1]):
                return f"model scan decision on {pth[-1]!r}: {acc}, the layout's rule says {L.scan_accepts(pth[-1])}"
            if acc and stem + ".py" != pth[-1]:
                return f"model stem of {pth[-1]!r}: {stem!r}"
        if "ok" in ans:
            if "ok" not in obs:
                return f"model loads, implementation raises {obs['error']}"
            m = [_canon_model_suite(s) for s in ans["ok"]]
            d = _first_diff(m, obs["ok"])
            if d:
                return "model vs implementation " + d
            # the specification side of the theorems against the generator's own list
            spec = [dict(_canon_model_test(t), path=p) for p, t in ans["declared"]]
            ent = [dict(_canon_model_test(t), path=p) for p, t in ans["entries"]]
            # (guard of `load_real_exact_under_spelling`: outside `spellingOk` — open finding D47 — exactness is refuted, not claimed)
            if spec != ent and ans.get("spelling_ok", True):
                return "Lean: entries(load L) differs from declared L (theorem instance violated?)"
            full = [dict(_canon_model_test(t), path=p) for p, t in ans["declared_full"]]
            gen = [{k: v for k, v in e.items() if k not in ("via_dunder", "suites")} for e in dec["entries"]]
            # a template with a missing key declares no name: the two specifications need not agree on it
            d = None if "INVALID:missing-key" in dec["flags"] else _first_diff(full, gen, "declared")
            if d:
                return "Lean specification vs generator's declaration list " + d
            if ans["no_dunder"] != ("dunder-member" not in dec["flags"]):
                return "Lean noDunder guard vs generator's flag"
        else:
            e = ans["load_error"]
            if "error" not in obs:
                return f"model raises {e}, implementation loads"
            o = obs["error"]
            if (e["class"], e["kind"], e["arg"]) != (o["class"], o["kind"], o["arg"]):
                return f"error: model {e} vs implementation {o}"
        if ans.get("accepts") is not None and ans["accepts"] != ("ok" in ans):
            return f"Lean: accepts = {ans['accepts']} but load {'succeeds' if 'ok' in ans else 'fails'}"
        return None

    def nontrivial(self, case, obs):
        dec = declared(case)
        if self.malformed:
            return bool(case.get("defect")) and (dec["loose_dup"] or dec["invalid"])
        feats = {"hidden", "conditional", "parametrized", "dir-without-module", "collapse"}
        return dec["depth"] >= 3 and bool(feats & set(dec["flags"]))

    def features(self, case, obs):
        dec = declared(case)
        f = ["entry=" + case["entry"], "outcome=" + ("ok" if "ok" in obs else "error:" + obs["error"]["kind"])]
        if case["entry"] == "dir":
            f.append("spelling=" + (case.get("spelling") or "abs"))
            if "module+directory" in dec["flags"] and (case.get("spelling") or "abs") != "abs":
                f.append("respelled+module+directory")
        f += ["has:" + x for x in dec["flags"]]
        f.append("tests=%s" % ("0" if not dec["entries"] else "1-5" if len(dec["entries"]) <= 5 else "6-15" if len(dec["entries"]) <= 15 else ">15"))
        f.append("depth=%d" % dec["depth"])
        if dec["strict_dup"]:
            f.append("strict-dup")
        elif dec["loose_dup"]:
            f.append("loose-dup-only")
        if case.get("defect"):
            f.append("defect=" + case["defect"])
        return sorted(set(f))

    def shrink(self, case):
        for lay in _shrink_lists(case["layout"]):
            c = dict(case, layout=lay)
            if case["entry"] in ("file", "class"):
                stem = case["pick"] if case["entry"] == "file" else case["pick"][0]
                ms = [m for m in lay["mods"] if m["stem"] == stem]
                if not ms:
                    continue
                if case["entry"] == "class" and not any(cl["attr"] == case["pick"][1] for cl in ms[0]["classes"]):
                    continue
            yield c


class Malformed(Load):
    name = "C13.malformed"
    malformed = True
    quick_cases = 1150
    thorough_cases = 18000
    quick_seconds = 24
    thorough_seconds = 260


# ---------------------------------------------------------------------------------------------
# several loads in ONE process (fourth seeded round): load -> edit -> load, two projects reached through the same relative
# path after a chdir, a module whose first import failed.  Every load must reflect the files as they are at that moment.
# ---------------------------------------------------------------------------------------------

def _all_mods(d):
    for m in d["mods"]:
        yield m
    for sub in d["dirs"]:
        yield from _all_mods(sub)


def _next_pos(m):
    return 1 + max([t["pos"] for t in m["tests"]] + [c["pos"] for c in m["classes"]] + [-1])


def edit_layout(rng, lay, n):
    """a later state of the same suites directory: what an editing session between two loads does to it"""
    new = copy.deepcopy(lay)
    done = []
    for _ in range(n):
        mods = list(_all_mods(new))
        kind = rng.choice(["add-test", "add-test", "remove-test", "remove-test", "retag", "add-param-set", "add-module", "remove-module",
                           "unhide", "hide"])
        m = rng.choice(mods) if mods else None
        if kind == "add-test" and m is not None:
            t = L._plain_test("added_%d" % rng.randrange(1000), _next_pos(m))
            if rng.random() < 0.5:
                t["tags"] = ["new"]
            if not any(u["attr"] == t["attr"] for u in m["tests"]):
                m["tests"].append(t)
                done.append(kind)
        elif kind == "remove-test" and m is not None and m["tests"]:
            m["tests"].remove(rng.choice(m["tests"]))
            done.append(kind)
        elif kind == "retag" and m is not None and m["tests"]:
            t = rng.choice(m["tests"])
            t["tags"] = list(t.get("tags") or []) + ["edited"]
            t["desc"] = "Edited %d" % rng.randrange(10 ** 6)
            done.append(kind)
        elif kind == "add-param-set" and m is not None:
            ts = [t for t in m["tests"] if t.get("param") and t["param"]["sets"]]
            if ts:
                t = rng.choice(ts)
                t["param"]["sets"].append([[k, rng.choice([21, 22, "new"])] for k, _ in t["param"]["sets"][0]])
                done.append(kind)
        elif kind == "add-module":
            stem = "added_mod_%d" % rng.randrange(100)
            if not any(x["stem"] == stem for x in new["mods"]):
                new["mods"].append({"stem": stem, "info": None, "broken": None, "classes": [], "tests": [L._plain_test("t_new", 0)]})
                done.append(kind)
        elif kind == "remove-module" and len(new["mods"]) > 1:
            new["mods"].remove(rng.choice(new["mods"]))
            done.append(kind)
        elif kind in ("unhide", "hide") and m is not None and m["tests"]:
            t = rng.choice(m["tests"])
            t["vis"] = None if kind == "unhide" else "hidden"
            done.append(kind)
    return new, done


def gen_reload(rng):
    r = rng.random()
    a = L.gen_layout(rng)
    if r < 0.45:
        mode = "edit"
        b, what = edit_layout(rng, a, rng.choice([1, 1, 2, 3]))
        steps = [a, b]
        if rng.random() < 0.3:
            c, w2 = edit_layout(rng, b if rng.random() < 0.6 else a, rng.choice([0, 1, 2]))     # a third load (possibly of the first state again)
            steps.append(c)
            what = what + ["|"] + w2
    elif r < 0.6:
        mode, what = "replace", ["other-project"]            # the directory now holds another project (git checkout of another branch)
        steps = [a, L.gen_layout(rng)]
    elif r < 0.8:
        mode, what = "chdir", ["same-relative-path"]         # two projects, each loaded as 'suites' from its own working directory
        b = L.gen_layout(rng)
        if a["mods"] and b["mods"] and rng.random() < 0.8:
            b["mods"][0]["stem"] = a["mods"][0]["stem"]      # the same module name in both
            seen = set()
            b["mods"] = [m for m in b["mods"] if not (m["stem"] in seen or seen.add(m["stem"]))]
        steps = [a, b]
    else:
        mode = "failed-first"                                # the first import of a module raises; the file is then repaired
        broken = copy.deepcopy(a)
        mods = list(_all_mods(broken))
        what = []
        if mods:
            rng.choice(mods)["broken"] = rng.choice(["raise", "raise", "syntax"])
            what = ["repair"]
        steps = [broken, a]
        if rng.random() < 0.5:
            b, w2 = edit_layout(rng, a, 1)
            steps[1] = b
            what += w2
    via = rng.choice(["loader", "loader", "project"]) if mode != "chdir" else "relative"
    return {"entry": "seq", "mode": mode, "via": via, "what": what, "steps": steps, "defect": None}


def _step_case(lay):
    return {"entry": "dir", "layout": lay, "defect": None}


def observe_seq(case):
    """The real loader, SEVERAL times in this one process, on the directories the steps describe — nothing of the interpreter
    state (`sys.modules`, …) is touched between two loads (only the rank counter, as for a single load).  mode chdir: each
    project lives in its own directory and is loaded as `load_suites_from_directory('suites')` from there; otherwise the same
    directory is rewritten between the loads (`via` project: through `Project(dir).load_suites()`)."""
    from lemoncheesecake.suite import loader, builder
    from lemoncheesecake.project import Project
    top = tempfile.mkdtemp(prefix="lccverif-c13r-")
    old_dwb = sys.dont_write_bytecode
    sys.dont_write_bytecode = True
    cwd = os.getcwd()
    saved_env = {}
    before = set(sys.modules)
    out = []
    try:
        for i, lay in enumerate(case["steps"]):
            base = os.path.join(top, "p%d" % i) if case["mode"] == "chdir" else os.path.join(top, "proj")
            root = os.path.join(base, "suites")
            if os.path.lexists(root):
                shutil.rmtree(root)
            os.makedirs(base, exist_ok=True)
            env = L.env_of(lay)
            log = os.path.join(top, "import%d.log" % i)
            env["LCCV_IMPORT_LOG"] = log
            for k, val in env.items():
                saved_env.setdefault(k, os.environ.get(k))
                if val is None:
                    os.environ.pop(k, None)
                else:
                    os.environ[k] = val
            L.render(lay, root)
            builder.Metadata._next_rank = 1
            try:
                if case["mode"] == "chdir":
                    os.chdir(base)
                    suites = loader.load_suites_from_directory("suites")
                elif case.get("via") == "project":
                    suites = Project(base).load_suites()
                else:
                    suites = loader.load_suites_from_directory(root)
                obs = {"ok": [_dump_suite(s) for s in suites], "flat": _flat(suites)}
            except Exception as e:
                obs = {"error": _classify(e)}
            finally:
                os.chdir(cwd)
            try:
                with open(log) as fh:
                    obs["imported_drops"] = sorted({os.path.relpath(l.strip(), base).replace(os.sep, "/") for l in fh if l.strip()})
            except OSError:
                obs["imported_drops"] = []
            out.append(obs)
        return {"steps": out}
    finally:
        os.chdir(cwd)
        for k, val in saved_env.items():
            if val is None:
                os.environ.pop(k, None)
            else:
                os.environ[k] = val
        sys.dont_write_bytecode = old_dwb
        for k in [k for k in sys.modules if k not in before and isinstance(k, str) and (k.startswith(top) or k.startswith("suites" + os.sep))]:
            del sys.modules[k]
        builder._objects_with_metadata.clear()
        shutil.rmtree(top, ignore_errors=True)


def _lay(mods, dirs=()):
    return {"name": "suites", "noise": False, "dirs": list(dirs), "mods": list(mods)}


_V1 = _lay([_m("alpha", tests=[_t("first")])])
_V2 = _lay([_m("alpha", tests=[_t("first", pos=0), _t("second", pos=1, tags=["new"])])])
_OTHER = _lay([_m("alpha", tests=[_t("other", pos=0)], classes=[_c("inner", [_t("deep")], pos=1)])])
# minimised failing inputs of the seeded change (an importer that returns what `sys.modules` holds under the path string):
# a test added between two loads (directly and through Project.load_suites), a test removed, two projects loaded as 'suites'
# from their own working directories, a module whose first import raised and was then repaired, three loads A B A
RELOADS = [
    {"entry": "seq", "mode": "edit", "via": "loader", "what": ["add-test"], "steps": [_V1, _V2], "defect": None},
    {"entry": "seq", "mode": "edit", "via": "project", "what": ["remove-test"], "steps": [_V2, _V1], "defect": None},
    {"entry": "seq", "mode": "chdir", "via": "relative", "what": ["same-relative-path"], "steps": [_V1, _OTHER], "defect": None},
    {"entry": "seq", "mode": "failed-first", "via": "loader", "what": ["repair"],
     "steps": [_lay([_m("alpha", tests=[_t("first")], broken="raise")]), _V1], "defect": None},
    {"entry": "seq", "mode": "failed-first", "via": "project", "what": ["repair"],
     "steps": [_lay([_m("alpha", tests=[_t("first")], broken="syntax")]), _V2], "defect": None},
    {"entry": "seq", "mode": "edit", "via": "loader", "what": ["add-test", "|", "remove-test"], "steps": [_V1, _V2, _V1], "defect": None},
]


class Reload(Load):
    """Several loads in one process: each one judged by the single-load oracle against what its OWN files declare."""
    name = "C13.reload"
    quick_cases = 420
    thorough_cases = 5000
    quick_seconds = 16
    thorough_seconds = 160
    chunk = 30
    corpus = RELOADS

    def gen(self, rng, i):
        return gen_reload(rng)

    def impl(self, case):
        return observe_seq(case)

    def oracle(self, case, obs):
        fails, first_ok = [], True
        for i, (lay, o) in enumerate(zip(case["steps"], obs["steps"])):
            fs = self.judge(declared(_step_case(lay)), o)
            fs = [f for f in fs if f.signature != "C13/dunder-named-class-member-not-discovered" or i == 0]
            if i == 0:
                first_ok = not [f for f in fs if f.signature != "C13/dunder-named-class-member-not-discovered"]
            elif fs and first_ok:
                # the first load of the process is as declared, a later one is not: it does not reflect the files as they are now
                prev = [tuple(e["path"]) for e in obs["steps"][i - 1].get("flat", [])]
                cur = [tuple(e["path"]) for e in o.get("flat", [])]
                stale = " — it is the tree of the PREVIOUS load" if "ok" in o and cur == prev else ""
                fails.append(C.Failure("C13/later-load-does-not-reflect-current-files",
                                       f"load #{i + 1} of the process ({case['mode']}, {'+'.join(case['what']) or 'no edit'}) is not what the "
                                       f"files declare now{stale}: {fs[0].signature}: {fs[0].message}"))
            for f in fs:
                fails.append(C.Failure(f.signature, f"load #{i + 1}: {f.message}", getattr(f, "details", None)))
        return fails[:3]

    def request(self, case, obs):
        steps = []
        for lay in case["steps"]:
            steps.append({"root": "suites", "dir": _j_rawdir(L.with_ranks(lay, "dir", None))})
        return {"entry": "seq", "steps": steps}

    def compare(self, case, obs, ans):
        if "error" in ans:
            return "model/driver error: " + str(ans["error"])
        if len(ans["steps"]) != len(obs["steps"]):
            return "model answers %d loads, %d were made" % (len(ans["steps"]), len(obs["steps"]))
        for i, (lay, o, a) in enumerate(zip(case["steps"], obs["steps"], ans["steps"])):
            d = Load.compare(self, _step_case(lay), o, a)
            if d:
                return f"load #{i + 1}: {d}"
        return None

    def nontrivial(self, case, obs):
        decs = [declared(_step_case(lay)) for lay in case["steps"]]
        ents = [[(tuple(e["path"]), e["desc"], tuple(e["tags"]), json.dumps(e["params"])) for e in d["entries"]] for d in decs]
        return any(ents[i] != ents[i - 1] for i in range(1, len(ents))) and any("ok" in o for o in obs["steps"][1:])

    def features(self, case, obs):
        f = ["mode=" + case["mode"], "via=" + case["via"], "loads=%d" % len(case["steps"])]
        f += ["edit=" + w for w in case["what"] if w != "|"]
        f.append("outcomes=" + ",".join("ok" if "ok" in o else "error:" + o["error"]["kind"] for o in obs["steps"]))
        return sorted(set(f))

    def shrink(self, case):
        for i, lay in enumerate(case["steps"]):
            for smaller in _shrink_lists(lay):
                steps = list(case["steps"])
                steps[i] = smaller
                yield dict(case, steps=steps)


def streams(ctx):
    return [Load(), Malformed(), Reload()]


# ---------------------------------------------------------------------------------------------
# decision table: what the real loader does with each value a visible_if condition may return
# ---------------------------------------------------------------------------------------------

TABLE_OPENS = ("LccModel.Loader",)

# names the directory scan is asked about: prefix x core x suffix (hidden, dunder, backup, case, several dots, spaces …)
SCAN_PREFIXES = ["", ".", "..", "_", "__", "___", "._", ".#", "#", " ", "_."]
SCAN_CORES = ["", "alpha", "a.b", ".py", "é [*]"]
SCAN_SUFFIXES = [".py", ".PY", ".Py", ".pyc", ".py~", ".py#", "", "py", ".p", ".py.bak", ".py.py", ".py ", ".py\n", "\n.py"]


def _lean_chars(x):
    """a name as a Lean `List Char` (the kernel evaluates list functions on it directly; `String.toList` of a literal is slow)"""
    return "[" + ", ".join("'%s'" % ch if ch.isalnum() and ord(ch) < 128 else "Char.ofNat %d" % ord(ch) for ch in x) + "]"


def scan_names():
    out = []
    for a in SCAN_PREFIXES:
        for b in SCAN_CORES:
            for c in SCAN_SUFFIXES:
                n = a + b + c
                if n not in ("", ".", "..") and n not in out:
                    out.append(n)
    for n in ["__init__.py", "__main__.py", "__pycache__", ".git", ".alpha_draft.py", ".#alpha.py", "._alpha.py", "#alpha.py#",
              "alpha.cpython-312.pyc", "conftest.py", "Makefile"]:
        if n not in out:
            out.append(n)
    return out


def scan_tables():
    """Execute the REAL `get_py_files_from_dir(dir)` and `get_matching_files(dir/*.py, excluding=dir/__*.py)` (what
    `load_suites_from_directory` / `load_suites_from_files` scan with) on real scratch directories holding every name of
    `scan_names()` — once as regular files, once as directories, once as dangling symbolic links — and record which names
    come back, and what `strip_py_ext` makes of the accepted ones."""
    from lemoncheesecake.helpers import moduleimport as MI
    names = scan_names()
    top = tempfile.mkdtemp(prefix="lccverif-c13scan-")
    try:
        got = {}
        for kind in ("file", "dir", "link"):
            root = os.path.join(top, kind)
            os.makedirs(root)
            for n in names:
                q = os.path.join(root, n)
                if kind == "file":
                    with open(q, "w") as fh:
                        fh.write("raise RuntimeError('never imported')\n")
                elif kind == "dir":
                    os.makedirs(q)
                else:
                    os.symlink("user@host.1234:1700000000", q)
            assert sorted(os.listdir(root)) == sorted(names)
            got[kind] = {os.path.basename(f) for f in MI.get_py_files_from_dir(root)}
            if kind == "file":
                got["files-entry"] = {os.path.basename(f) for f in MI.get_matching_files(os.path.join(root, "*.py"),
                                                                                         os.path.join(root, "__*.py"))}
                assert all(os.path.dirname(f) == root for f in MI.get_py_files_from_dir(root))
        rows, stems = [], []
        for n in names:
            r = (n in got["file"], n in got["files-entry"], n in got["dir"], n in got["link"])
            rows.append((_lean_chars(n), "(%s, %s, %s, %s)" % tuple(_B(x) for x in r),
                         "%r: get_py_files_from_dir file=%s dir=%s dangling-link=%s; get_matching_files=%s" % (n, r[0], r[2], r[3], r[1])))
            if r[0]:
                st = MI.strip_py_ext(n)
                stems.append((_lean_chars(n), _lean_chars(st), "strip_py_ext(%r) = %r" % (n, st)))
        return rows, stems
    finally:
        shutil.rmtree(top, ignore_errors=True)

# ---------------------------------------------------------------------------------------------
# decision table of the attribute scan (`helpers/introspection.get_object_attributes` on a suite object): which names of
# `dir(obj)` it yields, and whether it evaluates a property for that, by WHERE in the MRO the name is first defined and as what
# ---------------------------------------------------------------------------------------------
_G = ("raises", "returns", "value")
ATTR_SHAPES = (
    [[[("t", "member")], [("p", "prop", g)]] for g in _G] +                                   # inherited from the base
    [[[("t", "member"), ("p", "prop", g)]] for g in _G] +                                     # own
    [[[("t", "member")], [("c", "plain")], [("p", "prop", g)]] for g in _G] +                 # grand-base / second mixin
    [[[("t", "member")], [("p", "prop", g)], [("q", "prop", "raises")]] for g in _G] +         # two levels of properties
    [[[("t", "member"), ("p", "plain")], [("p", "prop", "raises")]],                          # overridden by a plain attribute
     [[("t", "member"), ("p", "prop", "raises")], [("p", "plain")]],                          # a property overriding a plain one
     [[("t", "member")], [("p", "prop", "raises")], [("p", "plain")]],
     [[("t", "member")], [("p", "plain")], [("p", "prop", "raises")]],
     [[("u", "plain")], [("t", "member")]],                                                   # an inherited test method
     [[("t", "plain")], [("t", "member")]],                                                   # … overridden by a constant
     [[("t", "prop", "value")], [("t", "member")]],                                           # … overridden by a property
     [[("t", "member")], [("t", "prop", "raises")]],                                          # a test overriding a base's property
     [[("t", "member"), ("__p__", "prop", "raises")], [("__q__", "plain")]],                  # '__' names
     [[("t", "member")], []], [[], []]])


def _lean_mro(mro):
    def ent(e):
        if e[1] == "member":
            return 'ClassAttrs.Entry.member (ClassAttrs.Member.test { attr := %s, rank := 1 })' % _lean_str(e[0])
        if e[1] == "plain":
            return "ClassAttrs.Entry.plain"
        g = {"raises": "ClassAttrs.Getter.raises", "value": "ClassAttrs.Getter.value",
             "returns": '(ClassAttrs.Getter.returns (ClassAttrs.Member.test { attr := "t", rank := 1 }))'}[e[2]]
        return "ClassAttrs.Entry.property " + g
    return "[" + ", ".join("[" + ", ".join("(%s, %s)" % (_lean_str(e[0]), ent(e)) for e in d) + "]" for d in mro) + "]"


def attr_tables():
    """Execute the REAL `get_object_attributes` on an instance of a class whose MRO has the given dicts — built once as a
    single-inheritance chain and once as a class with independent mixins (same MRO, must decide the same) — and record per
    name of `dir()`: is it yielded; was a property getter run."""
    import lemoncheesecake.api as lcc
    from lemoncheesecake.helpers.introspection import get_object_attributes
    rows = []
    for mro in ATTR_SHAPES:
        res = []
        for how in ("chain", "mixins"):
            evaluated = []

            def mk_dict(d):
                ns = {}
                for e in d:
                    if e[1] == "member":
                        def t(self):
                            pass
                        t.__name__ = e[0]
                        ns[e[0]] = lcc.test("T")(t)
                    elif e[1] == "plain":
                        ns[e[0]] = 42
                    else:
                        def getter(self, _g=e[2], _n=e[0]):
                            evaluated.append(_n)
                            if _g == "raises":
                                raise AttributeError("only at run time")
                            return getattr(self, "t") if _g == "returns" else 42
                        ns[e[0]] = property(getter)
                return ns
            classes = []
            if how == "chain":
                parent = object
                for i, d in reversed(list(enumerate(mro))):
                    parent = type("K%d" % i, (parent,), mk_dict(d))
                cls = parent
            else:
                bases = tuple(type("K%d" % i, (object,), mk_dict(d)) for i, d in list(enumerate(mro))[1:])
                cls = type("K0", bases or (object,), mk_dict(mro[0]))
            obj = cls()
            names = sorted({e[0] for d in mro for e in d})
            try:
                got = [n for n, _ in get_object_attributes(obj)]
            except Exception:        # a getter was run and raised: the scan yields nothing to its caller
                got = []
            out = {n: (n in got, n in evaluated) for n in names}
            res.append(out)
        assert res[0] == res[1], (mro, res)
        for n, (listed, ev) in sorted(res[0].items()):
            rows.append(("(%s, %s)" % (_lean_mro(mro), _lean_str(n)), "(%s, %s)" % (_B(listed), _B(ev)),
                         "MRO %r: %r yielded=%s getter-evaluated=%s" % (mro, n, listed, ev)))
    return rows


# header strings of the CSV-like form of @lcc.parametrized the real `_Parametrized.parameters_source` is asked about:
# spellings of one / two / three fields with white space before / after each field, and every character below 0x100 plus the
# Unicode spaces and their look-alikes as padding in all four positions
HEADER_FIELDS = [["i"], ["i", "j"], ["host", "port"], ["a", "b", "c"], ["first name", "x"], ["value"], ["é", "j"]]
HEADER_PADS = ["", " ", "  ", "      ", "\t", " \t ", "\n", "\r\n", "\x0c", "\xa0", "\u3000", "\u200b", "_", "\x00"]
HEADER_PAD_CHARS = list(range(0x100)) + [0x1680, 0x180e] + list(range(0x1ff8, 0x2070)) + [0x2420, 0x3000, 0x3001, 0x303f, 0xfeff,
                                                                                       0xe0020, 0x1d7d8]
HEADER_LITERALS = ["", ",", " , ", "i,", ",j", "i,,j", " ", "i;j", "i ,j", "i, j", "i , j", " i,j ", "host      , port", " value ",
                   "\ti\t,\tj\t", "i\n,j\n", "a b , c d", "i ,\tj, k "]


def header_spellings():
    out = list(HEADER_LITERALS)
    for fields in HEADER_FIELDS:
        for a in HEADER_PADS:
            for b in HEADER_PADS[:8]:
                out.append(",".join(a + f + b for f in fields))
    for c in HEADER_PAD_CHARS:
        ch = chr(c)
        out.append(ch + "k" + ch + "," + ch + "j" + ch)
    seen, uniq = set(), []
    for h in out:
        if h not in seen:
            seen.add(h)
            uniq.append(h)
    return uniq


def header_tables():
    """Execute the REAL `_Parametrized(source, naming).parameters_source` (what `_load_parametrized_tests` iterates over) on a
    CSV-like source whose first item is each header spelling and whose only row is 0, 1, 2, …: the keys of the dict it yields
    are the parameter names the loader gives the test.  A dict cannot show a name that occurs twice; such headers are left out
    (recorded: how many)."""
    from lemoncheesecake.suite import builder
    rows, skipped = [], 0
    for h in header_spellings():
        n = h.count(",") + 1
        got = list(builder._Parametrized([h, tuple(range(n + 3))], None).parameters_source)
        assert len(got) == 1 and type(got[0]) is dict
        names = list(got[0].keys())
        if len(names) != n or list(got[0].values()) != list(range(n)):
            skipped += 1
            continue
        rows.append((_lean_chars(h), "[" + ", ".join(_lean_chars(x) for x in names) + "]", "header %r -> names %r" % (h, names)))
    assert skipped <= 12, skipped
    return rows


def _thirds(rows):
    n = (len(rows) + 2) // 3
    return [rows[:n], rows[n:2 * n], rows[2 * n:]]


# every generated value shape, plus a few more of the same shapes
TABLE_PVS = L.FALSY_PVS + L.TRUTHY_PVS + [L._pv("int", v=-7), L._pv("int", v=10 ** 12), L._pv("float", k="fin", milli=1),
                                        L._pv("str", v="None"), L._pv("str", v="\x00"), L._pv("list", n=3), L._pv("tuple", n=2),
                                        L._pv("dict", n=2), L._pv("objlen", n=1)]


def _lean_str(x):
    return '"' + "".join(ch if 32 <= ord(ch) < 127 and ch not in '"\\' else "\\u%04x" % ord(ch) for ch in x) + '"'


def lean_pv(pv):
    t = pv["t"]
    if t == "none":
        return "PyVal.none"
    if t == "bool":
        return "PyVal.bool %s" % ("true" if pv["v"] else "false")
    if t == "int":
        return "PyVal.int (%d)" % pv["v"]
    if t == "float":
        k = pv["k"]
        f = {"fin": "PyFloat.fin (%d)" % pv.get("milli", 0), "negzero": "PyFloat.negZero", "nan": "PyFloat.nan",
             "inf": "PyFloat.inf %s" % ("true" if pv.get("neg") else "false")}[k]
        return "PyVal.float (%s)" % f
    if t == "str":
        return "PyVal.str %s" % _lean_str(pv["v"])
    if t in ("list", "tuple", "dict"):
        return "PyVal.%s %d" % (t, pv["n"])
    if t == "obj":
        return "PyVal.obj"
    if t == "objbool":
        return "PyVal.objBool %s" % ("true" if pv["v"] else "false")
    if t == "objlen":
        return "PyVal.objLen %d" % pv["n"]
    raise ValueError(pv)


def lean_vis(v):
    if v is None:
        return "Vis.always"
    if v == "hidden":
        return "Vis.hidden"
    return "Vis.cond %s (%s)" % ("false" if v["callable"] == "falsy-obj" else "true", lean_pv(v["pv"]))


def _B(b):
    return "true" if b else "false"


def tables(ctx):
    """Run the REAL `_load_test` / `_load_tests`, `load_suite_from_class` / `load_suites_from_classes`,
    `load_suite_from_module` / `load_suites_from_directory` / `load_suites_from_files` on one item per condition
    (no condition, @lcc.hidden(), and visible_if(c) for each of three kinds of callable and every value shape c may return);
    record the truth value of the `.hidden` attribute the loader stores and whether each reader keeps the item.
    `Generated/C13TablesCheck.lean` re-proves the model's decision (`Vis.hiddenAttr`, `Vis.shown`, and the loader model run on
    the same one-item layouts) against these rows by `decide`."""
    import types
    from lemoncheesecake.suite import loader, builder
    import lemoncheesecake.api as lcc

    ns = {}
    exec(L.PRELUDE, ns)
    conds = [None, "hidden"] + [L._const_cond(pv, call) for call in ("lambda", "obj", "falsy-obj") for pv in TABLE_PVS]

    def callable_of(v, var):
        return eval(L.cond_src(v, var, "test", None), dict(ns))

    def deco(v, var):
        if v is None:
            return lambda o: o
        if v == "hidden":
            return lcc.hidden()
        return lcc.visible_if(callable_of(v, var))

    rows_fn, rows_meth, rows_cls, rows_mod = [], [], [], []
    top = tempfile.mkdtemp(prefix="lccverif-c13tab-")
    old_dwb = sys.dont_write_bytecode
    sys.dont_write_bytecode = True
    try:
        # module level needs files: one module per condition in one directory
        root = os.path.join(top, "suites")
        os.makedirs(root)
        for i, v in enumerate(conds):
            info = None if v is None else {"name": None, "desc": None, "xrank": None, "tags": [], "props": [], "links": [],
                                           "vis": False if v == "hidden" else v}
            # `@lcc.hidden()` has no module-level form: SUITE['visible_if'] = lambda mod: False is what it expands to
            m = _m("v%03d" % i, tests=[_t("t")], info=info)
            with open(os.path.join(root, m["stem"] + ".py"), "w", encoding="utf-8") as fh:
                fh.write("# -*- coding: utf-8 -*-\n" + L.module_src(m))
        builder.Metadata._next_rank = 1
        in_dir = {s.name for s in loader.load_suites_from_directory(root)}
        in_files = {s.name for s in loader.load_suites_from_files(os.path.join(root, "*.py"))}
        for i, v in enumerate(conds):
            stem = "v%03d" % i
            from lemoncheesecake.helpers.moduleimport import import_module
            mod = import_module(os.path.join(root, stem + ".py"))
            h = bool(loader.load_suite_from_module(mod).hidden)
            vv = "hidden" if v == "hidden" else v
            rows_mod.append((lean_vis(vv), "(%s, %s, %s)" % (_B(h), _B(stem in in_dir), _B(stem in in_files)),
                             "module %s: SUITE visible_if %s -> hidden=%s in_directory=%s in_files=%s" % (
                                 stem, "-" if v is None else "lambda mod: False" if v == "hidden" else L.cond_src(v, "mod", "module", None),
                                 h, stem in in_dir, stem in in_files)))

        for v in conds:
            desc = "-" if v is None else "hidden()" if v == "hidden" else L.cond_src(v, "x", "test", None)
            # test function
            def fn():
                pass
            fn = deco(v, "x")(lcc.test("d")(fn))
            h = bool(loader._load_test(fn).hidden)
            kept = len(list(loader._load_tests([fn])))
            rows_fn.append((lean_vis(v), "(%s, %d)" % (_B(h), kept), "function: %s -> hidden=%s yielded=%d" % (desc, h, kept)))

            # test method of a suite class, nested class of a suite class
            class Inner:
                @lcc.test("inner t")
                def t(self):
                    pass
            Inner = deco(v, "x")(lcc.suite("inner")(Inner))

            def meth(self):
                pass
            meth = deco(v, "x")(lcc.test("m")(meth))
            Outer = lcc.suite("outer")(type("Outer", (), {"meth": meth, "Inner": Inner}))
            inst = Outer()
            h = bool(loader._load_test(inst.meth).hidden)
            suite = loader.load_suite_from_class(Outer)
            rows_meth.append((lean_vis(v), "(%s, %d)" % (_B(h), len(suite.get_tests())),
                              "method: %s -> hidden=%s tests of the class=%d" % (desc, h, len(suite.get_tests()))))
            hc = bool(loader.load_suite_from_class(Inner).hidden)
            rows_cls.append((lean_vis(v), "(%s, %d, %d)" % (_B(hc), len(loader.load_suites_from_classes([Inner])), len(suite.get_suites())),
                             "class: %s -> hidden=%s load_suites_from_classes=%d nested suites of the class=%d" % (
                                 desc, hc, len(loader.load_suites_from_classes([Inner])), len(suite.get_suites()))))
    finally:
        sys.dont_write_bytecode = old_dwb
        for k in [k for k in sys.modules if isinstance(k, str) and k.startswith(top)]:
            del sys.modules[k]
        builder._objects_with_metadata.clear()
        shutil.rmtree(top, ignore_errors=True)
    imports = ("LccModel.Model.Loader",)
    scan_rows, stem_rows = scan_tables()
    return [
        C.Table("scanFilterTable", "List (List Char × (Bool × Bool × Bool × Bool))", scan_rows, imports),
        C.Table("scanStemTable", "List (List Char × List Char)", stem_rows, imports),
        C.Table("propertyScanTable", "List ((ClassAttrs.MRO × String) × (Bool × Bool))", attr_tables(), imports + ("LccModel.Model.ClassAttrs",)),
        C.Table("testFunctionCondTable", "List (Vis × (Bool × Nat))", rows_fn, imports),
        C.Table("testMethodCondTable", "List (Vis × (Bool × Nat))", rows_meth, imports),
        C.Table("classCondTable", "List (Vis × (Bool × Nat × Nat))", rows_cls, imports),
        C.Table("moduleCondTable", "List (Vis × (Bool × Bool × Bool))", rows_mod, imports),
    ] + [
        # (a list literal of more than ~1000 rows exceeds Lean's recursion depth: three parts)
        C.Table("headerParseTable%d" % (k + 1), "List (List Char × List (List Char))", part, imports)
        for k, part in enumerate(_thirds(header_tables()))
    ]

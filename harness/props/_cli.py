"""
Stream `cli` (properties C02 and C08): the CLI glue of `lcc run` — `lemoncheesecake.cli.commands.run.run_suites_from_project`.

A generated run-level project (harness/run/gen.py, profile "basic", with teardown-only failures made frequent) is built
into REAL suites / fixtures (harness/run/build.py) and wrapped into a real `lemoncheesecake.project.Project` subclass
(tmp dir; `load_suites` / `load_fixtures` build fresh objects at every call, as a project on disk does; the only
reporting backend is a recording one; optional pre_run / post_run hooks, report title, `threaded`).  The arguments are
parsed by the REAL argparse definitions of `RunCommand.add_cli_args` and the real `run_suites_from_project(project,
cli_args)` is called: filter → PreparedProject.create → backends → report dir → get_nb_threads → PreparedProject.run →
exit code.

Observation: exit code (or the exception that escaped), canonical final report, `report.is_successful()`, the return
value of `run_suites` (seam: the module global `lemoncheesecake.project.run_suites` is wrapped for the duration of the
call), nb_threads really used, the `raise` acts user code really executed (the interpreter's records).  The oracle is
C02's sentence evaluated on the final report's statuses only; the Lean side (`drivers/Exit.lean`: Model/ExitCode.lean)
computes the success flag, the exit code and the thread count.

The stream class is instantiated per property (`prop`): `C02.cli` (mode "verdict": the distribution above) and `C08.cli`
(mode "abort": most cases are all-passing projects whose ONLY failing acts are Abort* / exceptions raised in teardown
phases, `--exit-error-on-failure` on in ~80 %, with and without `--stop-on-failure`).  The C08 instance adds C08's last
sentence to the oracle: whenever user code raised an Abort* (class or project-defined subclass; test thread or
lcc.Thread) the run is reported unsuccessful — report flag, return value of the run AND exit code under the option.
Signatures carry the instance's property: `C02/cli/…`, `C08/cli/…`.
"""
import argparse
import copy
import os
import shutil
import tempfile
import threading

import common as C
from gen import reports as R

import lemoncheesecake.project as LP
from lemoncheesecake.cli.commands.run import RunCommand, run_suites_from_project
from lemoncheesecake.exceptions import UserError
from lemoncheesecake.fixture import load_fixtures_from_func
from lemoncheesecake.reporting.backend import ReportingBackend, ReportingSession, ReportingSessionBuilderMixin
from lemoncheesecake.session import Session
from lemoncheesecake.reporting import Report
import lemoncheesecake.api as lcc

from obs import schedrec
from run import build as B
from run import gen as G
from run.interp import Interp, ThreadNamer, unit_str

CLI_TRUSTED = [
    "cli stream: harness/props/_cli.py wraps generated run-level projects into a real lemoncheesecake.project.Project and calls the real "
    "run_suites_from_project with arguments parsed by the real RunCommand.add_cli_args; hand-written model Model/ExitCode.lean "
    "(Report.is_successful, exit code, get_nb_threads) evaluated by drivers/Exit.lean on the canonical final report",
]
CLI_RULE = ("cli stream: generated project (40 % with failures planted in teardown phases only) x --exit-error-on-failure / --stop-on-failure / "
            "--force-disabled / --threads / $LCC_THREADS / project.threaded / report-dir source / pre_run+post_run hooks; non-trivial = the run "
            "returned an exit code, >= 2 tests in the report, >= 1 body entered")

CLI_RULE_ABORT = ("cli stream (C08 instance): generated project, 72 % rewritten so that the ONLY failing acts are Abort* (AbortTest / AbortSuite / "
                  "AbortAllTests or a project-defined subclass; 25 % error log / failed check / exception) raised in teardown phases "
                  "(teardown_suite, teardown of a session / suite generator fixture; now and then teardown_test, a test-scoped fixture, an "
                  "lcc.Thread of the teardown) x --exit-error-on-failure (80 %) x --stop-on-failure (40 %) x --threads / $LCC_THREADS 1..8; "
                  "non-trivial = the run returned an exit code, >= 2 tests in the report, >= 1 body entered")

ENV_KEYS = ("LCC_THREADS", "LCC_REPORT_DIR", "LCC_REPORTING", "LCC_SAVE_REPORT", "LCC_PROJECT", "LCC_PROJECT_FILE")
FINE = ("passed", "disabled")


# ------------------------------------------------------------------------------------------------
# generation: run-level project + CLI configuration
# ------------------------------------------------------------------------------------------------

def _strip_failures(script):
    out = []
    for a in script:
        if G.act_fails(a):
            continue
        if a["a"] in G.NESTED:
            a = dict(a, script=_strip_failures(a["script"]))
        out.append(a)
    return out


def strip_all_failures(project):
    """the same project with every failing act removed (in place on a copy)"""
    p = copy.deepcopy(project)
    for fx in p["fixtures"]:
        fx["setup"] = _strip_failures(fx["setup"])
        fx["teardown"] = _strip_failures(fx["teardown"])
    for _, s, _ in G.iter_suites(p):
        if s["setup_suite"]:
            s["setup_suite"]["script"] = _strip_failures(s["setup_suite"]["script"])
        for h in G.HOOKS[1:]:
            if s[h] is not None:
                s[h] = _strip_failures(s[h])
        for t in s["tests"]:
            t["script"] = _strip_failures(t["script"])
    return p


ABORT_KINDS = ("AbortTest", "AbortSuite", "AbortAllTests")


def _abort_act(rng, p_sub=0.3):
    act = {"a": "raise", "kind": rng.choice(ABORT_KINDS)}
    if rng.random() < p_sub:
        act["sub"] = True          # an instance of a project-defined subclass (class EnvironmentDown(lcc.AbortAllTests))
    return act


def _teardown_failing_act(rng, p_abort=0.2):
    """what fails in a teardown: an error log, a failed check, an unexpected exception, or (share `p_abort`) an Abort*
    raised by the teardown code itself (`raise lcc.AbortSuite("cannot clean up")`)"""
    r = rng.random()
    rest = 1.0 - p_abort
    if r < 0.35 * rest:
        return {"a": "log", "level": "error"}
    if r < 0.65 * rest:
        return {"a": "check", "ok": False}
    if r < rest:
        return {"a": "raise", "kind": "exc"}
    return _abort_act(rng)


def plant_teardown_failures(project, rng, p_abort=0.2, wide=False):
    """a clean project whose only failing acts sit in teardown phases: teardown_suite hooks of suites that run tests,
    teardowns of session / suite scoped generator fixtures that are really used; `wide`: now and then also a
    teardown_test hook / the teardown of a test-scoped generator fixture (the test it belongs to is then failed), and
    an Abort* raised by an lcc.Thread started in the teardown (it aborts nothing, `Thread.run` logs it)"""
    p = strip_all_failures(project)
    force = p["force_disabled"]
    byname = G.fixtures_by_name(p)
    slots = []          # (kind, object holding the script)
    used = set()
    for sp, s, sdis in G.iter_suites(p):
        runs = [t for t in s["tests"] if force or not (sdis or t["disabled"])]
        if not runs:
            continue
        slots.append(("teardown_suite", s))
        names = list(G.suite_uses(s))
        for t in runs:
            names += t["fixtures"]
        used.update(G.closure(p, names, byname))
    test_slots = []
    for n in sorted(used):
        fx = byname[n]
        if fx["gen"] and fx["scope"] in ("session", "suite") and not fx["per_thread"]:
            slots.append(("fixture", fx))
        elif fx["gen"] and fx["scope"] == "test" and ("fixture", fx) not in test_slots:
            test_slots.append(("fixture", fx))
    if wide:
        for sp, s, sdis in G.iter_suites(p):
            if any(force or not (sdis or t["disabled"]) for t in s["tests"]):
                test_slots.append(("teardown_test", s))
    if not slots and not (wide and test_slots):
        return p
    fx_slots = [x for x in slots if x[0] == "fixture"]
    chosen = rng.sample(slots, min(len(slots), rng.choice([1, 1, 1, 2])))
    if fx_slots and rng.random() < 0.35:
        chosen = [rng.choice(fx_slots)]          # a fixture teardown alone (session / suite scope)
    if wide and test_slots and (not chosen or rng.random() < 0.12):
        chosen = [rng.choice(test_slots)]        # a test-level teardown: the test itself is failed
    for kind, obj in chosen:
        act = _teardown_failing_act(rng, p_abort)
        if wide and act["a"] == "raise" and act["kind"] != "exc" and rng.random() < 0.12:
            act = {"a": "thread", "script": [act]}
        if kind in ("teardown_suite", "teardown_test"):
            sc = list(obj[kind] or [])
            sc.insert(rng.randint(0, len(sc)), act)
            obj[kind] = sc
        else:
            sc = list(obj["teardown"])
            sc.insert(rng.randint(0, len(sc)), act)
            obj["teardown"] = sc
    G.check_valid(p)
    return p


def gen_case(rng, mode="verdict"):
    project = G.gen_project(rng, "basic")
    r = rng.random()
    p_flag = 0.75
    if mode == "abort":
        # C08 instance: the failing acts are mostly Abort* raised in teardown phases of an otherwise all-passing project
        p_flag = 0.80
        if r < 0.72:
            project = plant_teardown_failures(project, rng, p_abort=0.75, wide=True)
            project["stop_on_failure"] = rng.random() < 0.4
            shape = "teardown-only"
        elif r < 0.78:
            project = strip_all_failures(project)
            shape = "clean"
        else:
            shape = "as-generated"          # aborts anywhere (bodies, hooks, fixture setups), as gen_project plants them
    elif r < 0.40:
        project = plant_teardown_failures(project, rng)
        shape = "teardown-only"
    elif r < 0.50:
        project = strip_all_failures(project)
        shape = "clean"
    else:
        shape = "as-generated"
    # pre_run fixtures run outside the session (a failure there makes run_suites raise: no report verdict to speak of;
    # the run streams cover them) — keep them quiet here so that the exit code is observed
    for fx in project["fixtures"]:
        if fx["scope"] == "pre_run":
            fx["setup"], fx["teardown"] = [], []
    n = project["nb_threads"]
    r = rng.random()
    threads_cli, threads_env = None, None
    if r < 0.50:
        threads_cli = n if rng.random() < 0.85 else rng.choice([0, -2, 1])
        if rng.random() < 0.25:
            threads_env = rng.choice(["3", "abc", "0"])          # ignored: --threads wins
    elif r < 0.90:
        threads_env = str(n) if rng.random() < 0.8 else rng.choice(["0", "-1", "abc", ""])
    hook = lambda: (rng.choice(["ok"] * 10 + ["raise", "usererror"]) if rng.random() < 0.3 else "none")
    cli = {
        "exit_error_on_failure": rng.random() < p_flag,
        "threads_cli": threads_cli, "threads_env": threads_env,
        "threaded": rng.random() >= 0.04,
        "report_dir": rng.choice(["cli", "cli", "env", "project"]),
        "pre_run": hook(), "post_run": hook(),
        "title": rng.choice([None, None, "Nightly run"]),
    }
    return {"project": project, "cli": cli, "shape": shape}


def parse_env_int(s):
    """the classification shipped to the model: None = unset, "invalid", or the integer (generated values only use
    an optional '-' followed by digits, or something that is no integer literal at all)"""
    if s is None:
        return None
    t = s[1:] if s[:1] == "-" else s
    if t and t.isdigit() and t.isascii():
        return int(s)
    return "invalid"


# ------------------------------------------------------------------------------------------------
# the real project object
# ------------------------------------------------------------------------------------------------

class _RecSession(ReportingSession):
    pass


class _RecBackend(ReportingBackend, ReportingSessionBuilderMixin):
    """a reporting backend that only remembers what it was given (no console, no file)"""

    def __init__(self, side):
        self.side = side

    def get_name(self):
        return "lccverif-rec"

    def create_reporting_session(self, report_dir, report, parallel, report_saving_strategy):
        self.side["report_obj"] = report
        self.side["parallel"] = bool(parallel)
        self.side["report_dir"] = report_dir
        self.side["saving_strategy"] = getattr(report_saving_strategy, "__name__", None) if report_saving_strategy else None
        return _RecSession()


def make_project(case, tmp, interp, side):
    desc, cli = case["project"], case["cli"]

    class GeneratedProject(LP.Project):
        def __init__(self):
            LP.Project.__init__(self, tmp)
            self.threaded = cli["threaded"]
            self.reporting_backends = {"lccverif-rec": _RecBackend(side)}
            self.default_reporting_backend_names = ["lccverif-rec"]

        def load_suites(self):
            side["load_suites"] += 1
            return [B._build_suite(s, [], interp) for s in desc["suites"]]

        def load_fixtures(self):
            side["load_fixtures"] += 1
            out = []
            for fx in desc["fixtures"]:
                func = B.make_func(fx["name"], fx["params"], interp.fixture_impl(fx))
                func = lcc.fixture(names=list(fx["names"]) if fx.get("names") else None, scope=fx["scope"],
                                   per_thread=fx["per_thread"])(func)
                out.extend(load_fixtures_from_func(func))
            return out

        def _hook(self, name, cli_args, report_dir):
            side["hooks"].append([name, os.path.isdir(report_dir) if isinstance(report_dir, str) else None,
                                  bool(getattr(cli_args, "exit_error_on_failure", None))])
            mode = cli[name]
            if mode == "raise":
                raise RuntimeError("boom in " + name)
            if mode == "usererror":
                raise UserError("user error in " + name)

        def build_report_title(self):
            return cli["title"]

        def build_report_info(self):
            return [("generated", "yes")]

    if cli["pre_run"] != "none":
        GeneratedProject.pre_run = lambda self, cli_args, report_dir: self._hook("pre_run", cli_args, report_dir)
    if cli["post_run"] != "none":
        GeneratedProject.post_run = lambda self, cli_args, report_dir: self._hook("post_run", cli_args, report_dir)
    return GeneratedProject()


_PARSER = None


def real_parser():
    """argparse parser carrying exactly the arguments `lcc run` defines (RunCommand.add_cli_args).  add_cli_args looks
    for a project in the current directory hierarchy (to offer the project's custom arguments): it is called from an
    empty scratch directory so that it never picks up a project lying around."""
    global _PARSER
    if _PARSER is None:
        scratch = tempfile.mkdtemp(prefix="lccverif-cli-cwd-")
        old = os.getcwd()
        saved = {k: os.environ.pop(k) for k in ("LCC_PROJECT", "LCC_PROJECT_FILE") if k in os.environ}
        try:
            os.chdir(scratch)
            parser = argparse.ArgumentParser(prog="lcc run")
            RunCommand().add_cli_args(parser)
            _PARSER = parser
        finally:
            os.chdir(old)
            os.environ.update(saved)
            shutil.rmtree(scratch, ignore_errors=True)
    return _PARSER


def build_argv(case, tmp):
    desc, cli = case["project"], case["cli"]
    argv = []
    if cli["exit_error_on_failure"]:
        argv.append("--exit-error-on-failure")
    if desc["stop_on_failure"]:
        argv.append("--stop-on-failure")
    if desc["force_disabled"]:
        argv.append("--force-disabled")
    if cli["threads_cli"] is not None:
        argv += ["--threads", str(cli["threads_cli"])]
    if cli["report_dir"] == "cli":
        argv += ["--report-dir", os.path.join(tmp, "given-report")]
    return argv


def run_cli(case, watchdog=40.0):
    desc, cli = case["project"], case["cli"]
    tmp = tempfile.mkdtemp(prefix="lccverif-cli-")
    rec = schedrec.Recorder(max(1, desc["nb_threads"]), strategy="off")
    namer = ThreadNamer(rec.lock)
    interp = Interp(rec, namer)
    side = {"hooks": [], "load_suites": 0, "load_fixtures": 0, "run_suites": []}
    parser = real_parser()
    argv = build_argv(case, tmp)
    saved_env = {k: os.environ.pop(k) for k in ENV_KEYS if k in os.environ}
    old_instance = Session._instance
    old_hook = threading.excepthook
    threading.excepthook = lambda args: None      # lcc.Threads of generated scripts may end with a BaseException: keep stderr quiet
    real_run_suites = LP.run_suites
    out = {}

    def run_suites_probe(suites, fixture_registry, session, **kw):
        entry = {"nb_threads": kw.get("nb_threads"), "force_disabled": kw.get("force_disabled"),
                 "stop_on_failure": kw.get("stop_on_failure")}
        side["run_suites"].append(entry)
        ret = real_run_suites(suites, fixture_registry, session, **kw)
        entry["returned"] = bool(ret)
        return ret

    def body():
        namer.register_main()
        interp.main_thread = threading.current_thread()
        try:
            cli_args = parser.parse_args(argv)
            project = make_project(case, tmp, interp, side)
            out["exit"] = run_suites_from_project(project, cli_args)
        except SystemExit as e:
            out["raised"] = ["SystemExit", str(e.code)]
        except BaseException as e:        # classified, never propagated
            out["raised"] = [type(e).__name__, str(e)[:300]]

    try:
        if cli["threads_env"] is not None:
            os.environ["LCC_THREADS"] = cli["threads_env"]
        if cli["report_dir"] == "env":
            os.environ["LCC_REPORT_DIR"] = os.path.join(tmp, "env-report")
        LP.run_suites = run_suites_probe
        th = threading.Thread(target=body, daemon=True, name="lccverif-cli")
        th.start()
        th.join(watchdog)
        hang = th.is_alive()
    finally:
        LP.run_suites = real_run_suites
        for k in ENV_KEYS:
            os.environ.pop(k, None)
        os.environ.update(saved_env)
        Session._instance = old_instance
        threading.excepthook = old_hook
    try:
        obs = {"argv": [a.replace(tmp, "<tmp>") for a in argv], "hooks": side["hooks"], "run_suites": side["run_suites"],
               "load_suites": side["load_suites"], "load_fixtures": side["load_fixtures"],
               "parallel": side.get("parallel"), "api_errors": list(interp.api_errors)}
        if hang:
            obs["outcome"] = {"hang": True}
        elif "raised" in out:
            obs["outcome"] = {"raised": out["raised"][0], "text": out["raised"][1].replace(tmp, "<tmp>")}
        else:
            obs["outcome"] = {"exit": out["exit"]}
        rd = side.get("report_dir")
        obs["report_dir"] = rd.replace(tmp, "<tmp>") if isinstance(rd, str) else (None if rd is None else "<%s>" % type(rd).__name__)
        rep = side.get("report_obj")
        obs["report"] = None
        if rep is not None and not hang:
            obs["report"] = R.canon_report(rep)
            obs["successful"] = bool(rep.is_successful())
            obs["nb_threads"] = rep.nb_threads
        with rec.cv:
            trace = list(rec.trace)
        obs["bodies"] = sorted(".".join(r[2][1]) for r in trace if r[0] == "user" and r[2][0] == "body" and r[3] == "enter")
        obs["raises"] = executed_raises(trace)
        return C.jsonable(obs)
    finally:
        shutil.rmtree(tmp, ignore_errors=True)


def executed_raises(trace):
    """the `raise` acts user code really executed, from the interpreter's records: [unit, kind, where, in lcc.Thread?],
    one entry per raise act (an exception leaving an attachment block is recorded again by the enclosing unit: only
    the innermost record — the one that directly follows the act record of a `raise` act — is kept)"""
    out = []
    prev = {}
    for r in trace:
        if r[0] != "user":
            continue
        th, unit, what = r[1], r[2], r[3]
        if isinstance(what, str) and what.startswith("raise:"):
            p = prev.get(th)
            if p is not None and p[0] == unit and p[1].startswith("act:"):
                top = unit[:4] if unit[0] == "hook" else unit[:3] if unit[0] == "fx" else unit[:2]
                if top[0] == "fx":
                    where = "fixture-" + top[2]
                elif top[0] == "hook":
                    where = top[2]
                else:
                    where = "body"
                out.append([unit_str(unit), what[len("raise:"):], where, "th" in unit[len(top):]])
        prev[th] = (unit, what if isinstance(what, str) else "")
    return out


# ------------------------------------------------------------------------------------------------
# the property, on the observation only
# ------------------------------------------------------------------------------------------------

def report_items(rep):
    """(tests, phases): [[path, status]], [[where, status]] of the final report"""
    tests, phases = [], []
    if rep.get("setup"):
        phases.append(["session setup", rep["setup"]["status"]])

    def walk(s, prefix):
        p = prefix + [s["md"]["name"]]
        if s["setup"]:
            phases.append(["setup of " + ".".join(p), s["setup"]["status"]])
        for t in s["tests"]:
            tests.append([".".join(p + [t["md"]["name"]]), t["res"]["status"]])
        if s["teardown"]:
            phases.append(["teardown of " + ".".join(p), s["teardown"]["status"]])
        for x in s["suites"]:
            walk(x, p)
    for s in rep["suites"]:
        walk(s, [])
    if rep.get("teardown"):
        phases.append(["session teardown", rep["teardown"]["status"]])
    return tests, phases


def oracle(case, obs, prop="C02"):
    """C02: the run as a whole is reported successful (return value of the run, report success flag, exit code under
    --exit-error-on-failure) iff every test and every setup/teardown phase is passed or disabled.
    (C08 relies on the same sentence for "--stop-on-failure after the first non-passed result …: the run is reported
    unsuccessful"; its instance reports under `C08/cli/…`.)"""
    out = []
    rep = obs.get("report")
    if rep is None or "exit" not in obs["outcome"]:
        return out          # nothing was run to the end (rejected configuration, raising project hook)
    tests, phases = report_items(rep)
    bad = [x for x in tests + phases if x[1] not in FINE]
    expected = not bad
    flag = case["cli"]["exit_error_on_failure"]
    code = obs["outcome"]["exit"]
    where = "teardown-phase-only" if bad and all(x in phases and "teardown" in x[0] for x in bad) else \
        ("phase-only" if bad and all(x in phases for x in bad) else "test")
    if obs.get("successful") != expected:
        out.append(C.Failure(prop + "/cli/success-flag-differs/" + ("flag-true-despite-failure" if not expected else "flag-false-without-failure"),
                             "report.is_successful() is %r but the items that are neither passed nor disabled are %r" % (obs.get("successful"), bad[:5])))
    for e in obs["run_suites"]:
        if "returned" in e and e["returned"] != expected:
            out.append(C.Failure(prop + "/cli/return-value-differs",
                                 "run_suites returned %r but the items that are neither passed nor disabled are %r" % (e["returned"], bad[:5])))
    if flag:
        if expected and code != 0:
            out.append(C.Failure(prop + "/cli/exit-code-nonzero-without-failure",
                                 "--exit-error-on-failure: exit code %r although every test and phase is passed or disabled" % (code,)))
        if not expected and code == 0:
            out.append(C.Failure(prop + "/cli/exit-code-zero-despite-failure/" + where,
                                 "--exit-error-on-failure: exit code 0 although %r" % (bad[:5],)))
    elif code != 0:
        out.append(C.Failure(prop + "/cli/exit-code-nonzero-without-option", "exit code %r without --exit-error-on-failure" % (code,)))
    return out


TEARDOWN_PLACES = ("teardown_suite", "teardown_test", "fixture-teardown")


def oracle_abort(case, obs, prop="C08"):
    """C08, last sentence: "In all cases … the report is completed and saved, and the run is reported unsuccessful."
    Whenever user code raised AbortTest / AbortSuite / AbortAllTests (or a project-defined subclass) — in a test body, a
    hook, a fixture setup or teardown, or an lcc.Thread started by one of them (there it aborts nothing, but what ends an
    lcc.Thread is an error of the location that started it) — the run must be reported unsuccessful through every
    channel: `report.is_successful()` is False, `run_suites` returned False, and the exit code under
    `--exit-error-on-failure` is not 0.  Wherever the abort was raised: in particular in a teardown, once every test of
    the run has passed and nothing is left to skip."""
    out = []
    rep = obs.get("report")
    if rep is None or "exit" not in obs["outcome"]:
        return out
    aborts = [x for x in obs.get("raises", []) if x[1] in ABORT_KINDS]
    if not aborts:
        return out
    tests, _ = report_items(rep)
    where = "raised-in-teardown" if all(x[2] in TEARDOWN_PLACES for x in aborts) else "raised-before-teardown"
    if all(t[1] in FINE for t in tests):
        where += "/all-tests-passed"
    shown = [[x[0], x[1]] + (["in lcc.Thread"] if x[3] else []) for x in aborts[:4]]
    if obs.get("successful") is not False:
        out.append(C.Failure(prop + "/cli/report-successful-after-abort/" + where,
                             "user code raised %r but report.is_successful() is %r" % (shown, obs.get("successful"))))
    for e in obs["run_suites"]:
        if e.get("returned") is True:
            out.append(C.Failure(prop + "/cli/run-returned-true-after-abort/" + where,
                                 "user code raised %r but run_suites returned True" % (shown,)))
    if case["cli"]["exit_error_on_failure"] and obs["outcome"]["exit"] == 0:
        out.append(C.Failure(prop + "/cli/exit-code-zero-after-abort/" + where,
                             "--exit-error-on-failure: exit code 0 although user code raised %r (test statuses %r)"
                             % (shown, sorted({t[1] for t in tests}))))
    return out


def _suite(name, tests, **kw):
    s = {"name": name, "rank": 1, "disabled": False, "setup_suite": None, "teardown_suite": None, "setup_test": None,
         "teardown_test": None, "injected": [], "tests": tests, "suites": []}
    s.update(kw)
    return s


def _test(name, rank, **kw):
    t = {"name": name, "rank": rank, "disabled": False, "deps": [], "fixtures": [], "script": [{"a": "log", "level": "info"}]}
    t.update(kw)
    return t


def _cli(**kw):
    c = {"exit_error_on_failure": True, "threads_cli": None, "threads_env": None, "threaded": True, "report_dir": "cli",
         "pre_run": "none", "post_run": "none", "title": None}
    c.update(kw)
    return c


# hand-written witnesses replayed first on every run: every test passes (one is disabled) and the only failure sits in a
# teardown phase — a failing teardown_suite hook; a raising teardown of a session fixture (2 threads); and the all-good twin
CORPUS = [
    {"shape": "teardown-only", "cli": _cli(threads_cli=1),
     "project": {"fixtures": [], "nb_threads": 1, "force_disabled": False, "stop_on_failure": False,
                 "suites": [_suite("accounts", [_test("t1", 1), _test("t2", 2, disabled=True)],
                                   setup_suite={"params": [], "script": [{"a": "log", "level": "info"}]},
                                   teardown_suite=[{"a": "log", "level": "info"}, {"a": "check", "ok": False}])]}},
    {"shape": "teardown-only", "cli": _cli(threads_env="2", report_dir="project", post_run="ok"),
     "project": {"fixtures": [{"name": "db", "names": None, "scope": "session", "per_thread": False, "params": [], "gen": True,
                               "setup": [{"a": "log", "level": "info"}], "teardown": [{"a": "raise", "kind": "exc"}]}],
                 "nb_threads": 2, "force_disabled": False, "stop_on_failure": False,
                 "suites": [_suite("accounts", [_test("t1", 1, fixtures=["db"]), _test("t2", 2)])]}},
    {"shape": "clean", "cli": _cli(threads_cli=2),
     "project": {"fixtures": [], "nb_threads": 2, "force_disabled": False, "stop_on_failure": False,
                 "suites": [_suite("accounts", [_test("t1", 1), _test("t2", 2, disabled="not yet")],
                                   teardown_suite=[{"a": "log", "level": "info"}])]}},
]


def _fx(name, scope, teardown, **kw):
    f = {"name": name, "names": None, "scope": scope, "per_thread": False, "params": [], "gen": True,
         "setup": [{"a": "log", "level": "info"}], "teardown": teardown}
    f.update(kw)
    return f


def _proj(suites, fixtures=(), n=1, stop=False):
    return {"fixtures": list(fixtures), "nb_threads": n, "force_disabled": False, "stop_on_failure": stop, "suites": suites}


# C08 instance — minimised witnesses, replayed first: every test passes and the ONLY failing act is an Abort* raised by
# teardown code once nothing is left to skip
CORPUS_ABORT = [
    # AbortSuite raised by teardown_suite (two suites, the second one still runs: AbortSuite only concerns its own suite)
    {"shape": "teardown-only", "cli": _cli(threads_cli=1),
     "project": _proj([_suite("first", [_test("t1", 1), _test("t2", 2)],
                              teardown_suite=[{"a": "log", "level": "info"}, {"a": "raise", "kind": "AbortSuite"}]),
                       _suite("second", [_test("t3", 1)], rank=2)])},
    # AbortAllTests raised by the teardown of a session fixture (3 workers, --stop-on-failure: nothing is left to skip)
    {"shape": "teardown-only", "cli": _cli(threads_cli=3),
     "project": _proj([_suite("first", [_test("t1", 1, fixtures=["backend"]), _test("t2", 2)]),
                       _suite("second", [_test("t3", 1, fixtures=["backend"])], rank=2)],
                      fixtures=[_fx("backend", "session", [{"a": "raise", "kind": "AbortAllTests"}])], n=3, stop=True)},
    # AbortTest raised by teardown_suite
    {"shape": "teardown-only", "cli": _cli(threads_env="2", report_dir="project"),
     "project": _proj([_suite("first", [_test("t1", 1), _test("t2", 2, disabled=True)],
                              setup_suite={"params": [], "script": [{"a": "log", "level": "info"}]},
                              teardown_suite=[{"a": "raise", "kind": "AbortTest"}])], n=2)},
    # a project-defined subclass of AbortAllTests raised by the teardown of a suite fixture of the LAST suite
    {"shape": "teardown-only", "cli": _cli(threads_cli=1),
     "project": _proj([_suite("first", [_test("t1", 1)]),
                       _suite("second", [_test("t2", 1, fixtures=["db"])], rank=2)],
                      fixtures=[_fx("db", "suite", [{"a": "raise", "kind": "AbortAllTests", "sub": True}])])},
    # AbortSuite raised inside an lcc.Thread started by teardown_suite: aborts nothing, still an error of the teardown
    {"shape": "teardown-only", "cli": _cli(threads_cli=1),
     "project": _proj([_suite("first", [_test("t1", 1), _test("t2", 2)],
                              teardown_suite=[{"a": "thread", "script": [{"a": "raise", "kind": "AbortSuite"}]}])])},
    # the all-good twin, and the same without the option
    {"shape": "clean", "cli": _cli(threads_cli=1),
     "project": _proj([_suite("first", [_test("t1", 1), _test("t2", 2)], teardown_suite=[{"a": "log", "level": "info"}])])},
    {"shape": "teardown-only", "cli": _cli(threads_cli=1, exit_error_on_failure=False),
     "project": _proj([_suite("first", [_test("t1", 1)], teardown_suite=[{"a": "raise", "kind": "AbortSuite"}])])},
]


class CliStream(C.Stream):
    """instantiate per property: `prop` prefixes the oracle signatures; `mode` "verdict" (C02: the verdict iff) or
    "abort" (C08: abort-in-teardown cases frequent + "an abort makes the run unsuccessful")"""
    name = "cli"
    prop = "C02"
    mode = "verdict"
    driver = "drivers/Exit.lean"
    quick_cases = 400
    quick_seconds = 18
    thorough_cases = 4000
    thorough_seconds = 300
    chunk = 20
    corpus = CORPUS

    def setup(self, ctx):
        real_parser()

    def gen(self, rng, i):
        return gen_case(rng, self.mode)

    def impl(self, case):
        return run_cli(case)

    def oracle(self, case, obs):
        out = oracle(case, obs, self.prop)
        if self.mode == "abort":
            out = oracle_abort(case, obs, self.prop) + out
        return out

    def request(self, case, obs):
        if obs.get("report") is None:
            rep = R.canon_report(Report())
        else:
            rep = obs["report"]
        cli = case["cli"]
        return {"report": R.wire(rep), "flag": cli["exit_error_on_failure"], "cli_threads": cli["threads_cli"],
                "env_threads": parse_env_int(cli["threads_env"]), "threaded": cli["threaded"]}

    def compare(self, case, obs, ans):
        if "error" in ans:
            return "model error: " + str(ans["error"])
        out, cli = obs["outcome"], case["cli"]
        if out.get("hang"):
            return "run_suites_from_project did not return within the watchdog"
        th = ans["threads"]
        if "err" in th:
            want = {"invalidEnv": "Invalid value", "notThreaded": "does not support multi-threading"}[th["err"]]
            if out.get("raised") != "LemoncheesecakeException" or want not in out.get("text", ""):
                return "model: get_nb_threads raises (%s); real outcome %r" % (th["err"], out)
            return None
        hook_raises = [h for h in ("pre_run", "post_run") if cli[h] in ("raise", "usererror")]
        if "raised" in out:
            # the only other exceptions a generated configuration can produce come from the project's own hooks
            if not hook_raises:
                return "run_suites_from_project raised %r, the model has no such branch" % (out,)
            if out["raised"] not in ("LemoncheesecakeException", "UserError"):
                return "project hook failure surfaced as %r" % (out,)
            return None
        if cli["pre_run"] in ("raise", "usererror"):
            return "pre_run raised but run_suites_from_project returned %r" % (out,)
        if cli["post_run"] in ("raise", "usererror"):
            return "post_run raised but run_suites_from_project returned %r" % (out,)
        if obs.get("nb_threads") != th["ok"] or [e["nb_threads"] for e in obs["run_suites"]] != [th["ok"]]:
            return "nb_threads: model %r, report %r, run_suites %r" % (th["ok"], obs.get("nb_threads"), obs["run_suites"])
        if ans["successful"] != obs["successful"]:
            return "is_successful: model %r, real %r" % (ans["successful"], obs["successful"])
        if ans["exit_code"] != out["exit"]:
            return "exit code: model %r, real %r" % (ans["exit_code"], out["exit"])
        tests, phases = report_items(obs["report"])
        if ans["tests"] != [t[1] for t in tests] or ans["phases"] != [p[1] for p in phases]:
            return "the model enumerates other items than the report holds: %r / %r" % (ans["tests"], ans["phases"])
        return None

    def nontrivial(self, case, obs):
        rep = obs.get("report")
        if rep is None or "exit" not in obs["outcome"]:
            return False
        tests, phases = report_items(rep)
        return len(tests) >= 2 and len(obs["bodies"]) >= 1

    def features(self, case, obs):
        cli = case["cli"]
        f = ["shape=" + case["shape"], "flag=" + str(cli["exit_error_on_failure"]).lower(), "outcome=" + sorted(obs["outcome"])[0]]
        f.append("threads-from=" + ("cli" if cli["threads_cli"] is not None else "env" if cli["threads_env"] is not None else "default"))
        if cli["threads_cli"] is not None and cli["threads_env"] is not None:
            f.append("threads-cli-over-env")
        if not cli["threaded"]:
            f.append("project-not-threaded")
        f.append("report-dir-from=" + cli["report_dir"])
        for h in ("pre_run", "post_run"):
            if cli[h] != "none":
                f.append("%s=%s" % (h, cli[h]))
        if "raised" in obs["outcome"]:
            f.append("raised=" + obs["outcome"]["raised"])
        rep = obs.get("report")
        if rep is not None and "exit" in obs["outcome"]:
            f.append("n=%s" % obs.get("nb_threads"))
            f.append("exit=%d" % obs["outcome"]["exit"])
            f.append("successful=" + str(obs["successful"]).lower())
            tests, phases = report_items(rep)
            tests_fine = all(t[1] in FINE for t in tests)
            bad_ph = [p for p in phases if p[1] not in FINE]
            if tests_fine and bad_ph and all("teardown" in p[0] for p in bad_ph):
                f.append("failure-only-in-teardown-phases&all-tests-passed")
                f.append("failure-only-in-teardown-phases&all-tests-passed&flag=" + str(cli["exit_error_on_failure"]).lower())
                if any(p[0] == "session teardown" for p in bad_ph):
                    f.append("failed-session-teardown-only")
                if any(p[0].startswith("teardown of") for p in bad_ph):
                    f.append("failed-suite-teardown-only")
            elif tests_fine and bad_ph:
                f.append("failure-only-in-phases(incl. setup)&all-tests-passed")
            elif not tests_fine:
                f.append("some-test-not-passed")
            else:
                f.append("everything-passed-or-disabled")
            aborts = [x for x in obs.get("raises", []) if x[1] in ABORT_KINDS]
            if aborts:
                f.append("abort-raised")
                in_td = all(x[2] in TEARDOWN_PLACES for x in aborts)
                if in_td:
                    f.append("abort-raised-in-teardown-only")
                    for x in aborts:
                        f.append("abort-in-teardown:%s:%s" % (x[2], x[1]))
                if any(x[3] for x in aborts):
                    f.append("abort-raised-in-lcc.Thread")
                subs = self._sub_kinds(case)
                if subs:
                    f.append("abort-subclass-raised-somewhere")
                if in_td and tests_fine:
                    f.append("abort-in-teardown&all-tests-passed")
                    f.append("abort-in-teardown&all-tests-passed&flag=" + str(cli["exit_error_on_failure"]).lower())
                    if cli["exit_error_on_failure"]:
                        f.append("abort-in-teardown&all-tests-passed&flag=true&stop-on-failure=" + str(bool(case["project"]["stop_on_failure"])).lower())
                        f.append("abort-in-teardown&all-tests-passed&flag=true&n=%s" % obs.get("nb_threads"))
            if any(t[1] == "disabled" for t in tests):
                f.append("has-disabled-test")
            if any(t[1] == "skipped" for t in tests):
                f.append("has-skipped-test")
            if case["project"]["stop_on_failure"]:
                f.append("--stop-on-failure")
            if case["project"]["force_disabled"]:
                f.append("--force-disabled")
        return f

    @staticmethod
    def _sub_kinds(case):
        return sorted({a["kind"] for _, sc in G.scripts_of(case["project"]) for a in G.iter_acts(sc)
                       if a["a"] == "raise" and a.get("sub")})

    def shrink(self, case):
        for q in G.shrink_project(case["project"]):
            yield dict(case, project=q)
        cli = case["cli"]
        for k, v in (("pre_run", "none"), ("post_run", "none"), ("title", None), ("threads_env", None), ("report_dir", "cli"),
                     ("threaded", True)):
            if cli[k] != v:
                yield dict(case, cli=dict(cli, **{k: v}))
        if cli["threads_cli"] not in (None, 1):
            yield dict(case, cli=dict(cli, threads_cli=1))

"""
Stream `C19.runs` (property C19): SEQUENCES OF RUNS through the layers above reporting/reportdir.py.

A real project directory (tmp) holds one suite file and — for the `file` kind — a real `project.py` (optionally
overriding `create_report_dir` with `create_report_dir_with_rotation(self.dir, archiving_limit=…)`, the limit being
read from `$LCCVERIF_LIMIT` so that it can change between runs).  Every run of a history goes through the real glue:

    main            lemoncheesecake.cli.main(["run", "-p", <dir>, …])            (one process, called repeatedly)
    main-env        the same with $LCC_PROJECT instead of -p
    reuse-project   run_suites_from_project(P, build_cli_args([...]))            ONE Project object for the whole history
    reuse-args      run_suites_from_project(load_project(<dir>), NS)             ONE parsed namespace per distinct argv
    reuse-both      run_suites_from_project(P, NS)
    subprocess      a fresh `python -c "…cli.main()" run …` per run              (a few short histories)

with, per run: the report dir source (`--report-dir` / `$LCC_REPORT_DIR` / both / an empty string / the project default;
explicit paths outside the project or the default location `<project>/report` itself), the reporting backends
(json = leaves files, console only = leaves the directory EMPTY, the default console+json+html), runs aborting right
after the directory creation (`$LCC_THREADS=abc`, `--threads 2` on a non-threaded project) or failing before it
(`--save-report bogus`), and the archive limit of the project's implementation; interleaved with manual deletions of
archives / of `report` / of an explicit directory.

Directories are identified by their INODE: the harness keeps a file descriptor open on every directory it has seen,
so an inode number is never re-used during a history, whether the directory is renamed, emptied or removed.  The
content of a directory is fingerprinted (names + sha1 of the files) to see overwriting in place.  The start of a
run is observed at the entry of `PreparedProject.run` (listing of the report directory it was given).

Oracle: the sentences of C19 on the observed sequence (fresh directory, empty at start, previous report = archive 1,
order kept, removals only beyond the limit, nothing overwritten, explicit / failing runs leave the default location
alone).  Model side: `drivers/C19Runs.lean` (Model/RunSeq.lean).
"""
import contextlib
import hashlib
import io
import json
import os
import re
import shutil
import subprocess
import sys
import tempfile

import common as C

RUNS_TRUSTED = [
    "hand-written model LccModel/Model/RunSeq.lean of cli/commands/run.py:create_report_dir + run_suites_from_project (order of the "
    "steps) + project.py:Project.create_report_dir, on top of Model/ReportDir.lean; what lives in the process between two runs "
    "(Project object, parsed cli_args) is deliberately NOT part of the model state",
    "runs stream harness/props/_runseq.py: real project directories, runs driven through lemoncheesecake.cli.main / "
    "run_suites_from_project with re-used Project objects and cli_args namespaces / fresh subprocesses; directories identified by inode "
    "(a descriptor is kept open on each, so numbers are not re-used), contents by sha1",
]
RUNS_RULE = ("runs stream: history of runs (driver x report-dir source x reporting backends x abort/fail x archive limit of the project) "
             "and manual deletions on a real project directory; non-trivial = at least 3 runs at the default location one of which "
             "follows a run that left its directory empty or re-uses an in-process object (Project / cli_args / cli.main again)")

ENV_KEYS = ("LCC_THREADS", "LCC_REPORT_DIR", "LCC_REPORTING", "LCC_SAVE_REPORT", "LCC_PROJECT", "LCC_PROJECT_FILE", "LCCVERIF_LIMIT",
            "LCCVERIF_ATTACH")
DEFAULT_LIMIT = 20
DRIVERS = ["main", "main-env", "reuse-project", "reuse-args", "reuse-both"]

SUITE = '''import os
import time
import lemoncheesecake.api as lcc

@lcc.suite("s")
class s1:
    @lcc.test("t")
    def t1(self):
        lcc.log_info("run at %r" % time.time())
        if os.environ.get("LCCVERIF_ATTACH"):
            name = os.environ["LCCVERIF_ATTACH"]
            lcc.save_attachment_content("kept at %r" % time.time(), "note.txt" if name == "1" else name, "a note")
'''

PROJECT_PY = '''import os
from lemoncheesecake.project import Project
from lemoncheesecake.reporting.backend import FileReportBackend
from lemoncheesecake.reporting.reportdir import create_report_dir_with_rotation


class NoteBackend(FileReportBackend):
    # a project-defined file backend: `--reporting console note` leaves report-note.txt and none of the built-in files
    def get_name(self):
        return "note"

    def get_report_filename(self):
        return "report-note.txt"

    def save_report(self, filename, report):
        with open(filename, "w") as fh:
            fh.write("tests: %%d\\n" %% len(list(report.all_tests())))


class MyProject(Project):
%(override)s
    def pre_run(self, cli_args, report_dir):
        side = os.environ.get("LCCVERIF_SIDE")
        if side:
            import json
            with open(side, "w") as fh:
                json.dump({"report_dir": report_dir if isinstance(report_dir, str) else None,
                           "content": sorted(os.listdir(report_dir)) if isinstance(report_dir, str) and os.path.isdir(report_dir) else None}, fh)


project = MyProject()
project.reporting_backends["note"] = NoteBackend()
project.threaded = %(threaded)s
'''

OVERRIDE = '''    def create_report_dir(self):
        lim = os.environ.get("LCCVERIF_LIMIT")
        if lim is None:
            return Project.create_report_dir(self)
        return create_report_dir_with_rotation(self.dir, archiving_limit=None if lim == "none" else int(lim))
'''


# ------------------------------------------------------------------------------------------------
# generation
# ------------------------------------------------------------------------------------------------

def gen_case(rng, i):
    kind = rng.choice(["dir", "file", "file", "file"])
    override = kind == "file" and rng.random() < 0.6
    threaded = not (kind == "file" and rng.random() < 0.3)
    sub = i % 25 == 7
    profile = "subprocess" if sub else rng.choice(DRIVERS + ["mixed", "mixed"])
    n = rng.randint(2, 4) if sub else rng.randint(4, 12)
    base_limit = rng.choice(["default", "default", None, 1, 2, 3, 5]) if override else "default"
    base_rep = rng.choice(["json", "json", "console", "default"])
    ops, runs = [], 0
    for _ in range(n):
        r = rng.random()
        if r < 0.78 or runs < 2:
            how = profile if profile != "mixed" else rng.choice(DRIVERS)
            rep = base_rep if rng.random() < 0.55 else rng.choice(["json", "console", "console", "env-console", "default"])
            if sub and rep == "default":
                rep = "json"
            # the reporting backends as an input: any combination, fixed lists and +/^ directives, option and variable
            if rng.random() < 0.4:
                rep = rng.choice(BACKEND_EXPRS + (CUSTOM_EXPRS * 2 if kind == "file" else []))
                if rng.random() < 0.3 and not rep.startswith("cli:+") and not rep.startswith("cli:^"):
                    rep = "env:" + rep[4:]
            limit = base_limit if (not override or rng.random() < 0.8) else rng.choice(["default", None, 1, 2, 3])
            cli = env = None
            r2 = rng.random()
            if r2 < 0.12:
                cli = rng.choice([{"other": 0}, {"other": 1}, "default", ""])
            elif r2 < 0.22:
                env = rng.choice([{"other": 0}, {"other": 2}, "default", ""])
            elif r2 < 0.27:
                cli, env = rng.choice([({"other": 0}, {"other": 1}), ("", {"other": 1}), ("", ""), ({"other": 2}, "default")])
            abort = None
            r3 = rng.random()
            if r3 < 0.10:
                abort = "threads-env"
            elif r3 < 0.16 and not threaded:
                abort = "threads-cli"
            elif r3 < 0.22:
                abort = "save-report"
            ops.append({"op": "run", "how": how, "cli": cli, "env": env, "limit": limit, "reporting": rep, "abort": abort})
            if rng.random() < 0.3:
                # the test saves an attachment (`attachments/` whatever the backends are) under a name of ITS choice
                ops[-1]["attach"] = rng.choice([True, True] + ATTACH_NAMES)
            if rng.random() < 0.25:
                # what hooks (pre_run / post_run), tools or a killed run leave in the report directory besides the backends' files
                left = sorted(rng.sample(sorted(LEFTOVERS), rng.choice([1, 1, 2, 4])))
                if how != "subprocess":
                    # (planted by the harness between the run's start and its end, which it only sees for in-process runs)
                    ops[-1]["leave"] = left
            runs += 1
        elif r < 0.90:
            ops.append({"op": "delete", "n": rng.randint(1, max(2, min(runs, 4)))})
        elif r < 0.96:
            ops.append({"op": "delcur"})
        else:
            ops.append({"op": "delother", "k": rng.choice([0, 1, 2])})
    return {"project": {"kind": kind, "override": override, "threaded": threaded}, "ops": ops}


# `--reporting` / `$LCC_REPORTING` expressions: fixed lists (html without json and xml; junit alone; xml; everything) and turn
# on / off directives over the project's defaults (console, json, html)
BACKEND_EXPRS = ["cli:console html junit", "cli:html junit", "cli:html", "cli:junit", "cli:xml", "cli:console xml html",
                 "cli:json xml junit html", "cli:console junit", "cli:^json", "cli:+junit", "cli:^json +junit", "cli:^json ^html",
                 "cli:+xml ^json"]
# with the project-defined backend `note` of PROJECT_PY (projects with a project.py only)
CUSTOM_EXPRS = ["cli:console note", "cli:html note", "cli:+note", "cli:note"]
DEFAULT_BACKENDS = ["console", "json", "html"]
FILE_KINDS = ["json", "xml", "junit", "html", "custom"]
BACKEND_OF_KIND = {"custom": "note"}
KIND_OF_FILE = {"report.js": "json", "report.xml": "xml", "report-junit.xml": "junit", "report.html": "html", "report-note.txt": "custom",
                "attachments": "attachments"}


def backend_names(op):
    """the reporting backends of the run, from the documentation of `--reporting` / `$LCC_REPORTING`"""
    r = op["reporting"]
    if r in ("json", "console"):
        return [r]
    if r == "env-console":
        return ["console"]
    if r == "default":
        return list(DEFAULT_BACKENDS)
    words = r.split(":", 1)[1].split()
    if all(w[0] not in "+^" for w in words):
        return words
    names = list(DEFAULT_BACKENDS)
    for w in words:
        if w[0] == "+" and w[1:] not in names:
            names.append(w[1:])
        elif w[0] == "^":
            names.remove(w[1:])
    return names


def files_of(op):
    """what a COMPLETED run leaves in its directory, by kind (canonical order)"""
    names = backend_names(op)
    kinds = [k for k in FILE_KINDS if BACKEND_OF_KIND.get(k, k) in names]
    if op.get("attach"):
        kinds.append("attachments")
    return kinds


def kinds_in(fp):
    """the kinds of files a directory listing (fingerprint) shows, canonical order"""
    have = {KIND_OF_FILE[name] for name, _ in fp if name in KIND_OF_FILE}
    return [k for k in FILE_KINDS + ["attachments"] if k in have]


def run_argv(op, paths):
    argv = []
    if op["reporting"] in ("json", "console"):
        argv += ["--reporting", op["reporting"]]
    elif op["reporting"].startswith("cli:"):
        argv += ["--reporting"] + op["reporting"][4:].split()
    if op["cli"] is not None:
        argv += ["--report-dir", paths(op["cli"])]
    if op["abort"] == "threads-cli":
        argv += ["--threads", "2"]
    if op["abort"] == "save-report":
        argv += ["--save-report", "bogus"]
    return argv


def run_env(op, paths):
    env = {}
    if op["reporting"] == "env-console":
        env["LCC_REPORTING"] = "console"
    elif op["reporting"].startswith("env:"):
        env["LCC_REPORTING"] = op["reporting"][4:]
    if op.get("attach"):
        env["LCCVERIF_ATTACH"] = op["attach"] if isinstance(op["attach"], str) else "1"
    if op["env"] is not None:
        env["LCC_REPORT_DIR"] = paths(op["env"])
    if op["abort"] == "threads-env":
        env["LCC_THREADS"] = "abc"
    if op["limit"] != "default":
        env["LCCVERIF_LIMIT"] = "none" if op["limit"] is None else str(op["limit"])
    return env


# what the options MEAN, from their documentation (used by the oracle and to build the model request)

def truthy(t):
    return None if t in (None, "") else t


def explicit_target(op):
    return truthy(op["cli"]) or truthy(op["env"])


def fate(op):
    return {"save-report": "before", "threads-env": "after", "threads-cli": "after", None: "completes"}[op["abort"]]


def writes(op):
    return bool(files_of(op))


def effective_limit(case, op):
    if not case["project"]["override"] or op["limit"] == "default":
        return DEFAULT_LIMIT
    return op["limit"]


# ------------------------------------------------------------------------------------------------
# the real thing
# ------------------------------------------------------------------------------------------------

class Tracker:
    """directory identity by inode; a descriptor stays open on every directory seen, so numbers are never re-used"""

    def __init__(self):
        self.fds = []
        self.ids = {"fs": {}, "ext": {}}

    def ident(self, space, path):
        ino = os.stat(path).st_ino
        tab = self.ids[space]
        if ino not in tab:
            self.fds.append(os.open(path, os.O_RDONLY | os.O_DIRECTORY))
            tab[ino] = len(tab) + 1
        return tab[ino]

    def close(self):
        for fd in self.fds:
            try:
                os.close(fd)
            except OSError:
                pass


# names a test may give to an attachment (stored as attachments/NNNN_<name>): any extension, dotfiles, names that look like the
# temporary files of an atomic save
ATTACH_NAMES = ["device-dump.tmp", "core.tmp", ".hidden", "a.b.tmp", "snapshot.bak", "x.TMP", "tmp", "report.js.123.tmp", "trace.log~",
                "report.js", "dump.tmp.gz"]
# other legitimate content of a report directory, any depth: relative path -> ("file", text) | ("dir",) | ("link", target)
LEFTOVERS = {
    "report.js.123.tmp": ("file", 'var reporting_data = {"title": "cut in the mid'),       # a run killed during an atomic save
    "post-run/summary.tmp": ("file", "3 passed\n"), "logs/a/b/trace.tmp": ("file", "deep\n"), ".env.tmp": ("file", "A=1\n"),
    ".cache": ("dir",), "empty.tmp": ("dir",), "latest.tmp": ("link", "report.js"), "dangling": ("link", "nowhere.tmp"),
    "README": ("file", "plain\n"), "core": ("file", "\x00\x01binary"),
}


def plant(dirname, names, universe=None):
    """write the entries `names` of the universe into the directory (what a hook / tool / killed run would leave there)"""
    universe = universe or LEFTOVERS
    for rel in names:
        spec = universe[rel]
        p = os.path.join(dirname, rel)
        os.makedirs(os.path.dirname(p), exist_ok=True)
        if os.path.lexists(p):
            continue
        if spec[0] == "dir":
            os.mkdir(p)
        elif spec[0] == "link":
            os.symlink(spec[1], p)
        else:
            with open(p, "w") as fh:
                fh.write(spec[1])


_SHA_CACHE = {}


def _sha(p):
    st = os.stat(p)
    key = (st.st_dev, st.st_ino, st.st_size, st.st_mtime_ns)
    if key not in _SHA_CACHE:
        if len(_SHA_CACHE) > 20000:
            _SHA_CACHE.clear()
        with open(p, "rb") as fh:
            _SHA_CACHE[key] = hashlib.sha1(fh.read()).hexdigest()[:12]
    return _SHA_CACHE[key]


def fingerprint(path, prefix=""):
    """the content of a directory byte for byte, at any depth: [relative path, sha1 of a file | "dir" | "link:<target>"]"""
    out = []
    for name in sorted(os.listdir(path)):
        p = os.path.join(path, name)
        if os.path.islink(p):
            out.append([prefix + name, "link:" + os.readlink(p)])
        elif os.path.isdir(p):
            out.append([prefix + name, "dir"])
            out += fingerprint(p, prefix + name + "/")
        else:
            out.append([prefix + name, _sha(p)])
    return out


def scan(top, ext, tracker):
    st = {"current": None, "arch": [], "filled": [], "other": [], "prints": {}, "stray": []}
    rp = os.path.join(top, "report")
    if os.path.isdir(rp):
        st["current"] = tracker.ident("fs", rp)
        fp = fingerprint(rp)
        st["prints"]["fs%d" % st["current"]] = fp
        if fp:
            st["filled"].append(st["current"])
    elif os.path.lexists(rp):
        st["stray"].append("report")
    rdir = os.path.join(top, "reports")
    if os.path.isdir(rdir):
        for name in os.listdir(rdir):
            p = os.path.join(rdir, name)
            m = re.match(r"^report-(\d+)$", name)
            if m and os.path.isdir(p) and str(int(m.group(1))) == m.group(1):
                i = tracker.ident("fs", p)
                st["arch"].append([int(m.group(1)), i])
                fp = fingerprint(p)
                st["prints"]["fs%d" % i] = fp
                if fp:
                    st["filled"].append(i)
            else:
                st["stray"].append("reports/" + name)
    st["arch"].sort()
    st["filled"].sort()
    st["content"] = sorted([int(key[2:]), kinds_in(fp)] for key, fp in st["prints"].items() if key.startswith("fs"))
    for k in (0, 1, 2):
        p = os.path.join(ext, "given-%d" % k)
        if os.path.isdir(p):
            i = tracker.ident("ext", p)
            fp = fingerprint(p)
            st["prints"]["ext%d" % i] = fp
            st["other"].append([k, i, bool(fp)])
    return st


SUB_CODE = "import sys; from lemoncheesecake.cli import main; r = main(); sys.exit(0 if r in (None, 0) else 3)"


def run_history(case):
    import lemoncheesecake.project as LP
    from lemoncheesecake.cli.main import build_cli_args, main as lcc_main
    from lemoncheesecake.cli.commands.run import run_suites_from_project
    from lemoncheesecake.session import Session

    scratch = tempfile.mkdtemp(prefix="lccverif-c19r-")
    top = os.path.join(scratch, "proj")
    ext = os.path.join(scratch, "ext")
    side = os.path.join(scratch, "side.json")
    os.makedirs(os.path.join(top, "suites"))
    os.mkdir(ext)
    with open(os.path.join(top, "suites", "s1.py"), "w") as fh:
        fh.write(SUITE)
    pj = case["project"]
    if pj["kind"] == "file":
        with open(os.path.join(top, "project.py"), "w") as fh:
            fh.write(PROJECT_PY % {"override": OVERRIDE if pj["override"] else "", "threaded": repr(bool(pj["threaded"]))})

    def paths(t):
        if t == "":
            return ""
        if t == "default":
            return os.path.join(top, "report")
        return os.path.join(ext, "given-%d" % t["other"])

    tracker = Tracker()
    saved_env = {k: os.environ.pop(k) for k in ENV_KEYS + ("LCCVERIF_SIDE",) if k in os.environ}
    old_instance = Session._instance
    real_run = LP.PreparedProject.run
    starts = []

    def run_probe(self, reporting_backends, report_dir, *a, **kw):
        entry = {"report_dir": report_dir if isinstance(report_dir, str) else "<%s>" % type(report_dir).__name__, "content": None}
        if isinstance(report_dir, str) and os.path.isdir(report_dir):
            entry["content"] = sorted(os.listdir(report_dir))
        starts.append(entry)
        return real_run(self, reporting_backends, report_dir, *a, **kw)

    shared = {"project": None, "ns": {}}
    states = []
    try:
        for op in case["ops"]:
            if op["op"] == "run":
                argv = run_argv(op, paths)
                env = run_env(op, paths)
                del starts[:]
                if os.path.exists(side):
                    os.remove(side)
                outcome = None
                how = op["how"]
                if how == "subprocess":
                    penv = {k: v for k, v in os.environ.items() if k not in ENV_KEYS}
                    penv.update(env)
                    penv["LCCVERIF_SIDE"] = side
                    penv["PYTHONPATH"] = str(C.REPO) + os.pathsep + penv.get("PYTHONPATH", "")
                    proc = subprocess.run([sys.executable, "-c", SUB_CODE, "run"] + argv, cwd=top, env=penv, stdout=subprocess.PIPE,
                                          stderr=subprocess.STDOUT, timeout=120)
                    outcome = {"exit": proc.returncode}
                    if os.path.exists(side):
                        with open(side) as fh:
                            starts.append(json.load(fh))
                else:
                    buf = io.StringIO()
                    os.environ.update(env)
                    LP.PreparedProject.run = run_probe
                    try:
                        with contextlib.redirect_stdout(buf), contextlib.redirect_stderr(buf):
                            if how in ("main", "main-env"):
                                if how == "main-env":
                                    os.environ["LCC_PROJECT"] = top
                                    ret = lcc_main(["run"] + argv)
                                else:
                                    ret = lcc_main(["run", "-p", top] + argv)
                            else:
                                if how in ("reuse-project", "reuse-both"):
                                    if shared["project"] is None:
                                        shared["project"] = LP.load_project(top)
                                    project = shared["project"]
                                else:
                                    project = LP.load_project(top)
                                if how in ("reuse-args", "reuse-both"):
                                    key = json.dumps(argv)
                                    if key not in shared["ns"]:
                                        shared["ns"][key] = build_cli_args(["run"] + argv)
                                    ns = shared["ns"][key]
                                else:
                                    ns = build_cli_args(["run"] + argv)
                                ret = run_suites_from_project(project, ns)
                        outcome = {"exit": 0 if ret in (None, 0) else 3}
                    except SystemExit as e:
                        outcome = {"raised": "SystemExit"}
                    except Exception as e:        # classified; the model only knows "the run did not complete"
                        outcome = {"raised": type(e).__name__}
                    finally:
                        LP.PreparedProject.run = real_run
                        for k in ENV_KEYS:
                            os.environ.pop(k, None)
                        Session._instance = old_instance
                if op.get("leave") and starts:
                    rd0 = starts[0].get("report_dir")
                    if isinstance(rd0, str) and os.path.isdir(rd0) and os.path.realpath(rd0) == os.path.realpath(os.path.join(top, "report")) \
                            and os.listdir(rd0) and explicit_target(op) is None:
                        plant(rd0, op["leave"])
                st = scan(top, ext, tracker)
                st["outcome"] = outcome
                st["start"] = None
                if starts:
                    s0 = starts[0]
                    rd = s0.get("report_dir")
                    where = None
                    if isinstance(rd, str) and os.path.isabs(rd):
                        rd = os.path.realpath(rd)
                        where = "default" if rd == os.path.realpath(os.path.join(top, "report")) else \
                            ("other" if rd.startswith(os.path.realpath(ext)) else "elsewhere")
                    st["start"] = {"where": where, "content": s0.get("content")}
                states.append(st)
            elif op["op"] == "delete":
                p = os.path.join(top, "reports", "report-%d" % op["n"])
                if os.path.isdir(p):
                    shutil.rmtree(p)
                states.append(scan(top, ext, tracker))
            elif op["op"] == "delcur":
                p = os.path.join(top, "report")
                if os.path.isdir(p):
                    shutil.rmtree(p)
                states.append(scan(top, ext, tracker))
            elif op["op"] == "delother":
                p = os.path.join(ext, "given-%d" % op["k"])
                if os.path.isdir(p):
                    shutil.rmtree(p)
                states.append(scan(top, ext, tracker))
    finally:
        LP.PreparedProject.run = real_run
        for k in ENV_KEYS + ("LCCVERIF_SIDE",):
            os.environ.pop(k, None)
        os.environ.update(saved_env)
        Session._instance = old_instance
        tracker.close()
        for name in [m for m in sys.modules if m in ("project", "s1")]:
            sys.modules.pop(name, None)
        shutil.rmtree(scratch, ignore_errors=True)
    return {"states": states}


# ------------------------------------------------------------------------------------------------
# the property, on the observations only
# ------------------------------------------------------------------------------------------------

EMPTY = {"current": None, "arch": [], "filled": [], "other": [], "prints": {}, "stray": []}


def rotation_failures(k, prev, st, limit):
    """the sentences about the archives, for one run at the default location that created its directory"""
    fails = []
    old = {m: s for s, m in prev["arch"]}
    new = {m: s for s, m in st["arch"]}
    if prev["current"] is not None and new.get(prev["current"]) != 1:
        fails.append(C.Failure("C19/runs/previous-report-lost",
                               f"op {k}: the previous report (directory {prev['current']}) is not the most recent archive afterwards: {st['arch']}"))
    surv = [m for m in old if m in new]
    for a in surv:
        for b in surv:
            if old[a] < old[b] and not new[a] < new[b]:
                fails.append(C.Failure("C19/runs/order-changed", f"op {k}: archives {a},{b} changed relative order"))
        if prev["current"] is not None and prev["current"] in new and not new[prev["current"]] < new[a]:
            fails.append(C.Failure("C19/runs/order-changed", f"op {k}: the archived report is not the most recent archive"))
    for x in [m for m in old if m not in new]:
        newer = sum(1 for m in old if old[m] < old[x]) + (1 if prev["current"] is not None else 0)
        older_survive = [m for m in surv if old[m] > old[x]]
        if limit is None or newer < limit or older_survive or prev["current"] is None:
            fails.append(C.Failure("C19/runs/removed-within-limit",
                                   f"op {k}: archive {x} (slot {old[x]}, {newer} more recent) removed with limit {limit}; older survivors {older_survive}"))
    return fails


def oracle(case, obs):
    fails = []
    prev = EMPTY
    seen = set()
    for k, (op, st) in enumerate(zip(case["ops"], obs["states"])):
        now = {m for _, m in st["arch"]} | ({st["current"]} if st["current"] is not None else set())
        before = {m for _, m in prev["arch"]} | ({prev["current"]} if prev["current"] is not None else set())
        if st["stray"]:
            fails.append(C.Failure("C19/runs/stray-entry", f"op {k}: unexpected entries {st['stray']}"))
        created = None
        if op["op"] == "run":
            target = explicit_target(op)
            ft = fate(op)
            same_default = st["current"] == prev["current"] and st["arch"] == prev["arch"]
            if ft == "before":
                if not same_default or st["other"] != prev["other"]:
                    fails.append(C.Failure("C19/runs/failed-run-touched-reports", f"op {k}: a run that fails before starting changed the report directories"))
            elif target is None:
                # a run with the default report location
                cur = st["current"]
                if cur is None or cur in seen or cur in before:
                    fails.append(C.Failure("C19/runs/new-dir-not-new",
                                           f"op {k} ({op['how']}): the report directory of the run (directory {cur}) is not a new one "
                                           f"(previous report: {prev['current']}, archives before: {prev['arch']})"))
                else:
                    created = "fs%d" % cur
                start = st.get("start")
                if start is not None:
                    if start["where"] != "default":
                        fails.append(C.Failure("C19/runs/not-the-default-location", f"op {k}: the run was given {start['where']} as report directory"))
                    elif start["content"]:
                        fails.append(C.Failure("C19/runs/new-dir-not-empty",
                                               f"op {k} ({op['how']}): the report directory holds {start['content']} when the run starts"))
                fails += rotation_failures(k, prev, st, effective_limit(case, op))
                if st["other"] != prev["other"]:
                    fails.append(C.Failure("C19/runs/default-run-touched-explicit-dir", f"op {k}: explicit directories changed"))
            elif target == "default":
                if prev["current"] is not None:
                    if not same_default:
                        fails.append(C.Failure("C19/runs/existing-dir-reused", f"op {k}: --report-dir <project>/report with the directory existing changed the reports"))
                else:
                    if st["arch"] != prev["arch"]:
                        fails.append(C.Failure("C19/runs/explicit-run-touched-default-location", f"op {k}: archives changed"))
                    if st["current"] is not None and st["current"] not in seen:
                        created = "fs%d" % st["current"]
            else:
                if not same_default:
                    fails.append(C.Failure("C19/runs/explicit-run-touched-default-location",
                                           f"op {k}: a run with an explicit report directory changed report/ or the archives"))
                pk = {x[0]: x for x in prev["other"]}
                nk = {x[0]: x for x in st["other"]}
                kk = target["other"]
                if kk in pk:
                    if nk.get(kk, [None, None])[1] != pk[kk][1]:
                        fails.append(C.Failure("C19/runs/existing-dir-reused", f"op {k}: existing explicit directory replaced"))
                elif kk in nk:
                    created = "ext%d" % nk[kk][1]
                start = st.get("start")
                if start is not None and start["content"]:
                    fails.append(C.Failure("C19/runs/new-dir-not-empty", f"op {k}: explicit report directory holds {start['content']} when the run starts"))
        elif op["op"] == "delete":
            exp = [[s, m] for s, m in prev["arch"] if s != op["n"]]
            if st["arch"] != exp or st["current"] != prev["current"]:
                fails.append(C.Failure("C19/runs/harness-delete", f"op {k}: manual deletion changed something else"))
        # nothing that exists before and after is ever overwritten, whatever the operation
        for key, fp in prev["prints"].items():
            if key in st["prints"] and key != created and st["prints"][key] != fp:
                if op["op"] == "run" and prev["current"] is not None and key == "fs%d" % prev["current"]:
                    now_ = {a: b for a, b in st["prints"][key]}
                    lost = [a for a, b in fp if a not in now_]
                    changed = [a for a, b in fp if a in now_ and now_[a] != b]
                    added = [a for a in now_ if a not in {x for x, _ in fp}]
                    fails.append(C.Failure("C19/archive-differs-from-report",
                                           f"op {k} ({op.get('how', op['op'])}): the archive of the previous report (directory {key}) is not the report "
                                           f"directory as the previous run left it: lost {lost}, changed {changed}, added {added}"))
                    continue
                fails.append(C.Failure("C19/runs/report-overwritten",
                                       f"op {k} ({op.get('how', op['op'])}): the content of directory {key} changed: {fp} -> {st['prints'][key]}"))
        seen |= now | before
        prev = st
    return fails


def to_model_ops(case):
    out = []
    for op in case["ops"]:
        if op["op"] != "run":
            out.append(op)
            continue
        lim = effective_limit(case, op)
        impl = "default" if (not case["project"]["override"] or op["limit"] == "default") else {"limit": lim}
        out.append({"op": "run", "cli": op["cli"], "env": op["env"], "impl": impl, "writes": writes(op), "fate": fate(op),
                    "files": files_of(op), "tree": tree_of(op)})
    return out


FILE_OF_KIND = {v: k for k, v in KIND_OF_FILE.items()}


def tree_of(op):
    """everything a COMPLETED run at the default location leaves in its directory, as [relative path, kind] (the backends' files by
    their names; the attachment under the name the test chose — stored as attachments/0001_<name>; what is planted after the run).
    Empty exactly when `files_of(op)` is: the tree level and the kind level see the same `writes`."""
    kinds = files_of(op)
    if not kinds:
        return []
    tree = [[FILE_OF_KIND[k], "file"] for k in kinds if k != "attachments"]
    if op.get("attach"):
        tree.append(["attachments/0001_" + (op["attach"] if isinstance(op["attach"], str) else "note.txt"), "file"])
    if explicit_target(op) is None and op.get("how") != "subprocess":
        tree += [[rel, LEFTOVERS[rel][0]] for rel in (op.get("leave") or [])]
    return tree


TRACKED_PATHS = set(LEFTOVERS) | {"attachments/0001_" + n for n in ATTACH_NAMES + ["note.txt"]} | {k for k in KIND_OF_FILE if k != "attachments"}


def compare(case, obs, ans):
    if "error" in ans:
        return "model error: " + ans["error"]
    ms, os_ = ans["states"], obs["states"]
    if len(ms) != len(os_):
        return f"model produced {len(ms)} states, impl {len(os_)}"
    for k, (m, o) in enumerate(zip(ms, os_)):
        if m == "stuck":
            return f"op {k}: model stuck"
        mine = {x: o[x] for x in ("current", "arch", "filled", "other")}
        if "content" in m:
            mine["content"] = o["content"]
        if "tree" in m:
            # tree level: which directory holds which of the tracked entries (backends' files, the attachment under its chosen name, planted
            # leftovers), after every operation
            mine["tree"] = sorted([int(key[2:]), sorted(p for p, _ in fp if p in TRACKED_PATHS)] for key, fp in o["prints"].items() if key.startswith("fs"))
            m = dict(m, tree=sorted([i, sorted(p for p in paths if p in TRACKED_PATHS)] for i, paths in m["tree"]))
        if m != mine:
            return f"op {k} ({case['ops'][k]}): model {m} vs impl {mine}"
    return None


class Runs(C.Stream):
    name = "C19.runs"
    driver = "drivers/C19Runs.lean"
    quick_cases = 160
    thorough_cases = 2400
    quick_seconds = 40
    thorough_seconds = 420
    chunk = 20
    corpus = []

    def gen(self, rng, i):
        return gen_case(rng, i)

    def impl(self, case):
        return run_history(case)

    def oracle(self, case, obs):
        return oracle(case, obs)

    def request(self, case, obs):
        return {"ops": to_model_ops(case)}

    def compare(self, case, obs, ans):
        return compare(case, obs, ans)

    def _default_runs(self, case):
        return [op for op in case["ops"] if op["op"] == "run" and explicit_target(op) is None and fate(op) != "before"]

    def nontrivial(self, case, obs):
        runs = self._default_runs(case)
        if len(runs) < 3:
            return False
        return "after-empty" in self.features(case, obs) or any(
            f.startswith("reused:") for f in self.features(case, obs))

    def features(self, case, obs):
        f = ["project:" + case["project"]["kind"] + ("+override" if case["project"]["override"] else "")]
        prev = EMPTY
        used = {"project": 0, "args": set(), "main": 0}
        for op, st in zip(case["ops"], obs["states"]):
            if op["op"] == "run":
                f.append("how:" + op["how"])
                f.append("reporting:" + op["reporting"])
                f.append("fate:" + fate(op))
                if op.get("attach"):
                    f.append("test-saves-attachment")
                    if isinstance(op["attach"], str):
                        f.append("attachment-name:" + ("*.tmp" if op["attach"].endswith(".tmp") else "other"))
                for rel in (op.get("leave") or []):
                    f.append("left-in-report-dir:" + rel)
                if explicit_target(op) is None and fate(op) != "before" and prev["current"] is not None:
                    pk = kinds_in(prev["prints"].get("fs%d" % prev["current"], []))
                    f.append("previous-dir-holds:" + ("+".join(pk) or "nothing"))
                    if "html" in pk and "json" not in pk and "xml" not in pk:
                        f.append("previous-dir:html-without-json-and-xml")
                t = explicit_target(op)
                f.append("source:" + ("project" if t is None else ("cli" if truthy(op["cli"]) else "env") + ":" +
                                      ("default-loc" if t == "default" else "other")))
                if op["cli"] == "" or op["env"] == "":
                    f.append("empty-string-report-dir")
                if t is None and fate(op) != "before":
                    f.append("limit:" + str(effective_limit(case, op)))
                    if prev["current"] is not None and prev["current"] not in prev["filled"]:
                        f.append("after-empty")
                    if {m for _, m in prev["arch"]} - {m for _, m in st["arch"]}:
                        f.append("run-removed-archive")
                    how = op["how"]
                    if how in ("reuse-project", "reuse-both"):
                        used["project"] += 1
                        if used["project"] > 1:
                            f.append("reused:project-object")
                    if how in ("reuse-args", "reuse-both"):
                        key = json.dumps(run_argv(op, lambda t: str(t)))
                        if key in used["args"]:
                            f.append("reused:cli-args")
                        used["args"].add(key)
                    if how in ("main", "main-env"):
                        used["main"] += 1
                        if used["main"] > 1:
                            f.append("reused:cli-main-again")
                if t is not None and fate(op) != "before":
                    exists = (prev["current"] is not None) if t == "default" else any(x[0] == t["other"] for x in prev["other"])
                    f.append("explicit-dir:" + ("exists" if exists else "new"))
                oc = st.get("outcome") or {}
                f.append("outcome:" + ("raised:" + oc["raised"] if "raised" in oc else "exit:%s" % oc.get("exit")))
            else:
                f.append("manual:" + op["op"])
            prev = st
        return sorted(set(f))

    def shrink(self, case):
        ops = case["ops"]
        for i in range(len(ops)):
            yield dict(case, ops=ops[:i] + ops[i + 1:])
        for i, op in enumerate(ops):
            if op["op"] == "run":
                for key, val in (("abort", None), ("env", None), ("cli", None), ("limit", "default"), ("attach", None), ("leave", None)):
                    if op.get(key) != val:
                        yield dict(case, ops=ops[:i] + [dict(op, **{key: val})] + ops[i + 1:])
        uses_note = any("note" in op.get("reporting", "") for op in ops if op["op"] == "run")
        if case["project"]["kind"] == "file" and not case["project"]["override"] and case["project"]["threaded"] and not uses_note:
            yield dict(case, project={"kind": "dir", "override": False, "threaded": True})


def _run(how="main", reporting="json", **kw):
    op = {"op": "run", "how": how, "cli": None, "env": None, "limit": "default", "reporting": reporting, "abort": None}
    op.update(kw)
    return op


_DIR = {"kind": "dir", "override": False, "threaded": True}
_FILE = {"kind": "file", "override": False, "threaded": True}
_OVER = {"kind": "file", "override": True, "threaded": False}

Runs.corpus = [
    # minimised failing inputs of seeded/C19-4, C19-5, C19-6
    {"project": _DIR, "ops": [_run(abort="threads-env"), _run()]},
    {"project": _FILE, "ops": [_run("reuse-args"), _run("reuse-args")]},
    {"project": _FILE, "ops": [_run("main"), _run("main")]},
    # a run that left its directory EMPTY (console only / aborted right after the creation) is archived like any other (seeded/C19-4)
    {"project": _DIR, "ops": [_run(), _run(reporting="console"), _run(), _run(reporting="env-console"), _run(abort="threads-env"), _run()]},
    {"project": _OVER, "ops": [_run(abort="threads-cli"), _run(), _run(reporting="console", limit=2), _run(limit=2), _run(limit=2)]},
    # the same parsed namespace for several runs (seeded/C19-5)
    {"project": _FILE, "ops": [_run("reuse-args"), _run("reuse-args"), _run("reuse-args"), _run("reuse-args")]},
    # the same Project object / cli.main called again on the same project.py (seeded/C19-6)
    {"project": _FILE, "ops": [_run("main"), _run("main"), _run("main"), _run("main-env")]},
    {"project": _OVER, "ops": [_run("reuse-project", limit=2), _run("reuse-project", limit=2), _run("reuse-both", limit=2), _run("reuse-both", limit=2)]},
    {"project": _DIR, "ops": [_run("reuse-both"), _run("reuse-both"), {"op": "delete", "n": 1}, _run("reuse-both"), _run("reuse-both")]},
    # explicit report directories: outside, existing, the default location itself, empty strings
    {"project": _FILE, "ops": [_run(), _run(cli={"other": 0}), _run(cli={"other": 0}), _run(env="default"), _run(cli="", env=""),
                               {"op": "delcur"}, _run(cli="default"), _run(), _run(cli="", env={"other": 1}), _run(abort="save-report")]},
    # fresh processes
    {"project": _FILE, "ops": [_run("subprocess"), _run("subprocess", reporting="console"), _run("subprocess")]},
    # a project-defined file backend alone / beside html
    {"project": _FILE, "ops": [_run(reporting="cli:console note"), _run(reporting="cli:html note"), _run()]},
    # what the PREVIOUS run left: html + junit without report.js / report.xml, html alone, junit alone, only attachments
    {"project": _DIR, "ops": [_run(reporting="cli:console html junit"), _run()]},
    # the previous report holds files named *.tmp: an attachment the test called device-dump.tmp; what a hook / a killed run left, at any
    # depth (seeded/C19-12: a "cleanup" of **/*.tmp before archiving)
    {"project": _DIR, "ops": [_run(attach="device-dump.tmp"), _run(), _run()]},
    {"project": _FILE, "ops": [_run(leave=["report.js.123.tmp", "logs/a/b/trace.tmp", "latest.tmp", "empty.tmp", ".env.tmp"]), _run(), _run()]},
    {"project": _DIR, "ops": [_run(reporting="cli:html"), _run(reporting="cli:junit"), _run(reporting="env:html junit"), _run(reporting="cli:^json"),
                              _run(reporting="console", attach=True), _run(reporting="cli:xml"), _run()]},
]


# ------------------------------------------------------------------------------------------------
# decision tables: the glue decides finitely — extracted by executing it, re-proved in Generated/C19TablesCheck.lean
# ------------------------------------------------------------------------------------------------

def _lean_target(t):
    if t is None:
        return "none"
    if t == "":
        return "some Target.empty"
    if t == "default":
        return "some Target.defaultLoc"
    return "some (Target.other %d)" % t["other"]


def tables(ctx):
    import argparse
    import inspect
    import lemoncheesecake.project as LP
    from lemoncheesecake.cli.commands.run import create_report_dir
    from lemoncheesecake.reporting import reportdir as RD

    scratch = tempfile.mkdtemp(prefix="lccverif-c19t-")
    saved_env = {k: os.environ.pop(k) for k in ENV_KEYS if k in os.environ}
    rows_src, rows_glue, rows_impl = [], [], []
    try:
        top = os.path.join(scratch, "proj")
        os.makedirs(os.path.join(top, "suites"))

        class Stub(LP.Project):
            calls = 0
            made = 0

            def create_report_dir(self):
                Stub.calls += 1
                Stub.made += 1
                d = os.path.join(scratch, "from-project-%d" % Stub.made)
                os.mkdir(d)
                return d

        def paths(t):
            return "" if t == "" else os.path.join(top, "report") if t == "default" else os.path.join(scratch, "given-%d" % t["other"])

        domain = [None, "", {"other": 0}, "default"]
        for cli in domain:
            for env in [None, "", {"other": 1}, "default"]:
                if cli == "default" and env == "default":
                    continue
                project = Stub(top)
                Stub.calls = 0
                ns = argparse.Namespace(report_dir=None if cli is None else paths(cli), threads=None, reporting=[], save_report=None)
                before = dict(vars(ns))
                unchanged = True
                sources = []
                for _ in (1, 2):
                    for t in (cli, env):
                        if t not in (None, "") and os.path.isdir(paths(t)):
                            shutil.rmtree(paths(t))
                    os.environ.pop("LCC_REPORT_DIR", None)
                    if env is not None:
                        os.environ["LCC_REPORT_DIR"] = paths(env)
                    n0 = Stub.calls
                    try:
                        got = create_report_dir(ns, project)
                    except Exception as e:      # a decision the model does not know: the obligation must break
                        got = e
                    finally:
                        os.environ.pop("LCC_REPORT_DIR", None)
                    if isinstance(got, Exception):
                        sources.append("RAISED_%s" % type(got).__name__)
                    elif Stub.calls > n0:
                        sources.append("project")
                    elif cli not in (None, "") and got == paths(cli):
                        sources.append("cli")
                    elif env not in (None, "") and got == paths(env):
                        sources.append("env")
                    else:
                        sources.append("UNKNOWN_%s" % type(got).__name__)
                    unchanged = unchanged and dict(vars(ns)) == before
                inp = "(%s, %s)" % (_lean_target(cli), _lean_target(env))
                rows_src.append((inp, "Source." + sources[0], "create_report_dir(cli=%r, env=%r) -> %s" % (cli, env, sources[0])))
                rows_glue.append((inp, "(%d, %s)" % (Stub.calls, "true" if unchanged else "false"),
                                  "two calls with the same namespace and project: project.create_report_dir x%d, namespace unchanged %s, "
                                  "second source %s" % (Stub.calls, unchanged, sources[1])))

        # the default implementation of Project.create_report_dir: always ONE rotation with the default limit,
        # whatever the state of the existing report directory (absent / empty / holding files)
        real = LP.create_report_dir_with_rotation
        sig = inspect.signature(RD.create_report_dir_with_rotation)
        for code, state in enumerate(["absent", "empty", "files"]):
            ptop = os.path.join(scratch, "p-" + state)
            os.makedirs(os.path.join(ptop, "suites"))
            if state != "absent":
                os.mkdir(os.path.join(ptop, "report"))
            if state == "files":
                open(os.path.join(ptop, "report", "report.js"), "w").close()
            project = LP.Project(ptop)
            seen = []

            def probe(*a, **kw):
                b = sig.bind(*a, **kw)
                b.apply_defaults()
                seen.append((os.path.realpath(b.arguments["top_dir"]) == os.path.realpath(ptop), b.arguments["archiving_limit"]))
                return real(*a, **kw)

            LP.create_report_dir_with_rotation = probe
            try:
                project.create_report_dir()
                if state == "files":
                    open(os.path.join(ptop, "report", "report.js"), "w").close()
                project.create_report_dir()
            except Exception:
                seen.append((False, None))
            finally:
                LP.create_report_dir_with_rotation = real
            lims = {l for ok, l in seen if ok}
            lim = "none" if lims == {None} else ("some %d" % list(lims)[0] if len(lims) == 1 and all(ok for ok, _ in seen) else "some 999999")
            rows_impl.append((str(code), "(%d, %s)" % (len(seen), lim),
                              "Project.create_report_dir() twice, report dir %s at the first call: %d rotations, limit %s" % (state, len(seen), lim)))
    finally:
        os.environ.update(saved_env)
        shutil.rmtree(scratch, ignore_errors=True)
    imports = ("LccModel.Model.RunSeq",)
    return [
        C.Table("dirSourceTable", "List ((Option Target × Option Target) × Source)", rows_src, imports),
        C.Table("glueTable", "List ((Option Target × Option Target) × (Nat × Bool))", rows_glue, imports),
        C.Table("defaultImplTable", "List (Nat × (Nat × Option Nat))", rows_impl, imports),
    ]

"""
Extracted table `preRunTable` (C03): the REAL `runner.run_suites` executed — under the run-level recorder — on a one-test
project whose test uses a chain of 1..3 `pre_run` fixtures (each depending on the previous one), for every placement of a
failing setup, generator / plain fixtures, a failing teardown, and a session that raises (a reporting backend failing on
the first event makes `_run_suites` raise).  Row input: the fixtures in scheduled order (name, generator?, setup raises?,
teardown raises?) and whether the session raised; output: what was seen from outside — which user code was entered and how
it ended, whether the session was run, how `run_suites` ended for its caller — rendered like `PreRun.render`.
Obligation: `Generated/C03TablesCheck.pre_run_table_agrees` (`decide`, re-proved on every run).
"""
import itertools

import common as C
from run import observe as O
from run.selftest import _f, _p, _s, _t, _LOG

_RAISE = {"a": "raise", "kind": "exc"}


def _observe(fxs, session_raises):
    names = ["p%d" % i for i in range(len(fxs))]
    fixtures = [_f(n, "pre_run", setup=[_RAISE] if sf else [], teardown=([_RAISE] if tf else []) if gen else None,
                   params=[names[i - 1]] if i else [])
                for i, (n, (gen, sf, tf)) in enumerate(zip(names, fxs))]
    project = _p([_s("s0", [_t("t0", [names[-1]], [_LOG])])], fixtures)
    fault = {"k": 0, "cls": "Custom", "text": "T"} if session_raises else None
    obs = O.run_project(project, strategy="off", backend_fault=fault)
    items, open_ = [], {}
    session_seen = False
    for r in obs["trace"]:
        if r[0] in ("fire", "dispatch", "start") and not session_seen:
            session_seen = True
            items.append("session")
        if r[0] == "user" and r[2][0] == "fx" and r[2][1] in names:
            part, what = r[2][2], r[3]
            if what == "enter" or what.startswith("act:"):
                continue
            ok = what == "exit"
            items.append(("setup" if part == "setup" else "teardown") + ("" if ok else "-raised") + ":" + r[2][1])
    oc = obs["outcome"]
    if "returned" in oc:
        out = "returned"
    elif oc.get("raised") == "LemoncheesecakeException" and "scope 'pre_run'" in oc.get("text", ""):
        out = "raised-errors:%d" % oc["text"].count("Got the following exception")
    elif "raised" in oc and "T" in oc.get("text", ""):
        out = "session-raised"
    else:
        out = "other:%r" % (oc,)
    return " ".join(items) + " => " + out, names


def rows():
    out = []
    shapes = []
    for k in (1, 2, 3):
        for bad in [None] + list(range(k)):
            for gens in itertools.product([True, False], repeat=k):
                if k == 3 and gens not in ((True, True, True), (True, False, True), (False, True, False)):
                    continue
                for tdbad in [None] + [i for i in range(k) if gens[i]]:
                    if k == 3 and tdbad not in (None, 0):
                        continue
                    shapes.append([(gens[i], bad == i, tdbad == i) for i in range(k)])
    for fxs in shapes:
        for sr in (False, True):
            if sr and (any(sf for _, sf, _ in fxs) or len(fxs) == 3):
                continue            # the session is not run after a failed setup: nothing to make raise
            seen, names = _observe(fxs, sr)
            lean_in = "([" + ", ".join('("%s", %s, %s, %s)' % (n, *("true" if b else "false" for b in f)) for n, f in zip(names, fxs)) + "], %s)" % ("true" if sr else "false")
            out.append((lean_in, '"%s"' % seen, {"fixtures": [dict(name=n, gen=g, setup_raises=s, teardown_raises=t) for n, (g, s, t) in zip(names, fxs)],
                                                 "session_raises": sr, "seen": seen}))
    return out


def tables(ctx):
    return [C.Table("preRunTable", "List ((List (String × Bool × Bool × Bool) × Bool) × String)", rows())]

"""Shared pieces of the run-level property modules (C01–C05, C07, C08, C11)."""
import common as C
from props._run import RunStream

RUN_TRUSTED = [
    "Lean 4.33.0 kernel; axioms of the property theorems ⊆ {propext, Classical.choice, Quot.sound}",
    "hand-written models: M1 Model/Sched.lean (task.py), M2+M5 Model/Run.lean (runner.py: build_tasks, task behaviours, fixture scheduling), "
    "M3 Model/Session.lean (session.py), M4 Model/Writer.lean (reporting/writer.py), Model/Grammar.lean (stream grammar), Model/RunAccept.lean (their composition)",
    "run-level correspondence: harness/run/{gen,build,interp,observe}.py + harness/obs/schedrec.py record one globally sequenced trace of the REAL "
    "runner.run_suites (recording event manager / backend / Pool / Queue / RunContext; no source change) which drivers/Run.lean replays record by record",
    "model-independent oracles harness/run/oracles.py (property statements evaluated on the observation only)",
    "CPython thread scheduling, multiprocessing.dummy.Pool, queue.Queue, threading.local are represented by the nondeterminism of the transition system "
    "(any queued task may start, any done task may be received); payload texts and wall-clock times are not modelled",
]
RUN_ASSUMPTIONS = [
    "generated projects are built from harness/run/gen.py's description language (nesting ≤ 3, ≤ 12 tests, all fixture scopes, hooks, depends_on, "
    "disabled tests/suites, lcc.Thread joined before the next act; node names unique among siblings only — reused across suites, also as the dependency "
    "targets of one test — and with dots in them (dependency targets dot-free); `with lcc.prepare_attachment` blocks around further acts, nested <= 2; "
    "raises of plain exceptions, the Abort* classes and project-defined subclasses of them, in the test's own thread, inside blocks and in lcc.Thread targets; "
    "step descriptions that repeat, are blank, multi-line or very long; lcc.Thread targets ending with a BaseException that is no Exception "
    "(SystemExit / GeneratorExit / a project's own); Abort* constructed with no / non-string / several arguments; top-level suites named like an earlier "
    "sub-suite; the real console backend attached to every run, output discarded); user code only uses the public API",
    "KeyboardInterrupt is delivered while the main thread waits for a completion (the delivery inside pool.apply_async is the sched stream of C08); "
    "interrupted runs are ordinary cases: every oracle applies to them unchanged (teardown order, stream grammar, verdicts) — "
    "fix D11 made skip_all_tasks release the remaining tasks in dependency order",
]

class PropRunStream(RunStream):
    """RunStream whose oracle failures are mapped to the owning property's finding signatures."""
    prop = "C00"
    keep_prefixes = None        # only failures whose signature starts with one of these are this property's business

    def oracle(self, case, obs):
        fails = super().oracle(case, obs)
        if self.keep_prefixes is not None:
            fails = [f for f in fails if f.signature.startswith(tuple(self.keep_prefixes)) or f.signature.startswith(self.prop + "/")]
        # a failure carrying another property's signature (the oracles share code) is that property's business: its own
        # check runs the same kind of stream and reports it; here it would only duplicate a finding under the wrong id
        import re
        fails = [f for f in fails if f.signature.startswith(self.prop + "/") or not re.match(r"^C\d\d/", f.signature)]
        return fails

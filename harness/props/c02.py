"""C02 — verdicts are sound."""
import common as C
from props._runcommon import RUN_TRUSTED, RUN_ASSUMPTIONS, PropRunStream
from run import selftest as W
from run import witnesses2 as W2

PROPERTY = "C02"
LEAN_MODULES = ["LccModel.Props.C02", "LccModel.Props.C02Run", "LccModel.Props.C02Exit"]
PROPS_FILES = ["LccModel/Props/C02.lean", "LccModel/Props/C02Run.lean", "LccModel/Props/C02Exit.lean"]
NAMESPACES = {"LccModel/Props/C02.lean": "LccModel.C02", "LccModel/Props/C02Run.lean": "LccModel.C02Run", "LccModel/Props/C02Exit.lean": "LccModel.C02Exit"}
DRIVER = "drivers/Run.lean"
TRUSTED_BASE = RUN_TRUSTED + ["session stream: harness/props/_session.py drives the real Session from real threads in lock-step (drivers/Session.lean)", "writer status rule: Lemmas/Writer.lean status_passed_iff (C20's run_producible_of_fold) — the report status is computed from the same events"]
ASSUMPTIONS = RUN_ASSUMPTIONS + []
RULE = 'sess stream: random protocol-shaped Session API call sequences by 1..3 workers and lcc.Threads; run stream: generated project (harness/run/gen.py) × nb_threads 1..8 × gate strategy (off/fifo/lifo/random) forcing completion orders; non-trivial = ≥ 2 tests, ≥ 1 body entered, ≥ 8 events; distinct = hash of the case (project + schedule parameters)'
EXPLANATION = "The runner's failure set is in sync with the fired failing events for every API call sequence (Lean theorem over M3); every real run is replayed on the composed model, whose task result classes and success flag must equal the real ones; the oracle recomputes every status from the executed acts."


def witness(title_prefix):
    """corpus case built from the hand-written witness table of harness/run/selftest.py"""
    for title, sig, project, cfg in W.WITNESSES:
        if title.startswith(title_prefix):
            return {"project": dict(project, nb_threads=cfg["n"]), "strategy": cfg["strategy"], "gseed": cfg["gseed"],
                    "interrupt": cfg["interrupt"], "fault": cfg["fault"]}
    raise KeyError(title_prefix)


from props._session import SessionStream


class Sess(SessionStream):
    name = "C02.sess"
    driver = "drivers/Session.lean"
    quick_cases = 450
    quick_seconds = 30

    def oracle(self, case, obs):
        # an exception that leaves the body of a `with session.prepare_attachment(..)` block (thrown into the context manager,
        # file written or not) must come out of the block: swallowed, the code after the block carries on and the unit that
        # raised is reported as if nothing had happened
        if obs.get("error") == "abortSwallowed":
            op = case["ops"][obs["accepted"]] if obs.get("accepted", 0) < len(case["ops"]) else None
            return [C.Failure("C02/uncaught-exception-swallowed/prepare_attachment",
                              "the exception raised in the body of a prepare_attachment block did not leave the block (op %d: %r)"
                              % (obs.get("accepted", -1), op))]
        return []


class Run(PropRunStream):
    name = "C02.run"
    prop = "C02"
    profile = "basic"
    oracles = ("C02",)
    quick_cases = 300
    quick_seconds = 50
    p_files = 0.45              # the real json + junit backends saving the report during the run (`--reporting json junit --save-report …`)
    file_backends = ("json", "junit")
    savings = ("at_each_test", "at_each_test", "at_each_log", "at_each_failed_test", "at_each_suite")
    corpus = W2.UNWRITTEN_ATTACHMENTS + W2.FILE_BACKEND_CONTROLS + [witness("N1 "), witness("D11 ")] + W2.CONTROLS + W2.CONTROLS2 + W2.CONTROLS3 + [W2.THREAD_ENDS_WITH_PANIC] + W2.CONTROLS4
    p_interrupt = 0.2


from props._cli import CliStream, CLI_TRUSTED, CLI_RULE


class Cli(CliStream):
    name = "C02.cli"


TRUSTED_BASE = TRUSTED_BASE + CLI_TRUSTED
RULE = RULE + "; " + CLI_RULE


LEAN_MODULES = LEAN_MODULES + ["LccModel.Props.C02Attach"]
PROPS_FILES = PROPS_FILES + ["LccModel/Props/C02Attach.lean"]
NAMESPACES = dict(NAMESPACES, **{"LccModel/Props/C02Attach.lean": "LccModel.C02Attach"})
RULE = RULE + ("; run stream also: attachment blocks that write their file as their LAST statement (50 % of the blocks) and are left by the "
               "failing act before that (14..18 % of the failing scripts), `lcc.save_attachment_file` on a missing source file (10..12 % of the "
               "failing scripts) — in test bodies, hooks, fixtures, lcc.Threads and inside other blocks")
EXPLANATION = EXPLANATION + (" An exception raised while an attachment is being prepared, before its file exists (a block that writes last, "
                             "save_attachment_file on a missing source), is an uncaught exception like any other: Props/C02Attach proves for "
                             "every exception kind that it fails the test / the setup / is logged by the lcc.Thread, and that leaving a block "
                             "by an exception reports nothing by itself.")


def streams(ctx):
    return [Sess(), Run(), Cli()]

"""C17.seq — matcher OBJECTS used over time (model M12-obj, lean/LccModel/Model/MatcherObj.lean).

A case is what a test function does with `lemoncheesecake.matching`: it keeps handles on mutable expected values (lists, dicts),
builds matcher objects on them and on each other (`has_entry("k", m)`, `not_(m)`, `all_of(m, …)` receive the SAME object), completes /
mutates the expected values in place, and uses the objects — `build_description` under several transformers, `check_that` /
`require_that` / `assert_that` in a real session — in any order, several times.

  case  = {"store": [Val…], "ops": [Op…]}
  Op    = {"op": "build", "expr": OExpr}                       OExpr = Expr + ["ref", l] in value position + ["obj", i] in matcher position
        | {"op": "mutate", "loc": l, "how": Mut}               Mut = ["append", Val] | ["pop"] | ["set_idx", i, Val] | ["clear"]
        | {"op": "describe", "obj": i, "tr": [conj, neg]}            | ["set_key", key, Val] | ["del_key", key]
        | {"op": "check"|"require"|"assert", "obj": i, "hint": …, "value": Val | ["ref", l], "quiet": bool}

The oracle looks at the real code only.  At every use it has: the sentence, the set of values of a separating domain the object
accepts AT THAT MOMENT (real `matches()`), and — for every state the store has been in — the sentence and accepted set of a brand-new
matcher built by the same constructor calls on a deep copy of that state ("fresh").  The property ("the sentence determines what was
verified; … the wording of a sub-matcher does not depend on …") then reads:
  * same sentence (same transformer settings) ⇒ same accepted set, among all of these            C17/same-description-different-accepted-values
  * the sentence of an object is the sentence of the fresh matcher on the CURRENT state: it depends neither on the state the
    store was in when the object was built nor on the earlier uses of the object or of its sub-objects   C17/seq/description-depends-on-history
  * the sentence `check_that` records is the sentence the object gives at that moment            C17/seq/recorded-sentence-differs-from-description
"""
import copy

import common as C
from gen import matchers as G

SIG_COLLISION = "C17/same-description-different-accepted-values"
SIG_HISTORY = "C17/seq/description-depends-on-history"
SIG_RECORDED = "C17/seq/recorded-sentence-differs-from-description"
SIG_RAISES = "C17/build_description-raises"

LEAVES = [["equal_to", ["i", 1]], ["greater_than", ["i", 0]], ["less_than", ["i", 10]], ["is_none"], ["starts_with", "a"],
          ["is_type_any", "int"], ["equal_to", ["s", "a"]], ["has_key", ["k"]], ["is_between", ["i", 0], ["i", 2]], ["not_equal_to", ["i", 2]]]
REF_VALUE_CTORS = ["equal_to", "equal_to", "equal_to", "val", "not_equal_to", "greater_than", "less_than", "greater_than_or_equal_to",
                   "less_than_or_equal_to"]
REF_LIST_CTORS = ["has_items", "has_only_items", "is_in"]
HOSTS = [["not_"], ["has_item"], ["has_all_items"], ["has_length"], ["has_entry", ["k"]], ["is_type", "list"], ["is_type", "dict"],
         ["is_type", "int"], ["is_"], ["hide"]]
HINTS = ["value", "x", None, "the answer"]
BASE_DOMAIN = [None, True, ["i", 0], ["i", 1], ["i", 2], ["i", 11], ["f", 3], ["s", "a"], ["s", "ab"], ["s", "b"], ["l", []], ["l", [["i", 1]]],
               ["l", [["i", 1], ["s", "a"]]], ["l", [["s", "a"]]], ["l", [None]], ["l", [["i", 0], ["i", 2]]], ["d", [["k", ["i", 1]]]],
               ["d", [["k", ["s", "a"]]]], ["d", [["k", None]]], ["d", []], ["d", [["k", ["i", 0]]]], ["l", [["d", [["k", ["i", 1]]]]]]]


# ------------------------------------------------------------------------------------------------
# mutations (on live Python containers) and the states a store goes through
# ------------------------------------------------------------------------------------------------

def mut_applies(how, x):
    k = how[0]
    if isinstance(x, list):
        return k in ("append", "clear") or (k == "pop" and len(x) > 0) or (k == "set_idx" and 0 <= how[1] < len(x))
    if isinstance(x, dict):
        return k in ("clear", "set_key", "del_key")
    return False


def apply_mut(how, x):
    k = how[0]
    if k == "append":
        x.append(G.to_py(how[1]))
    elif k == "pop":
        x.pop()
    elif k == "set_idx":
        x[how[1]] = G.to_py(how[2])
    elif k == "clear":
        x.clear()
    elif k == "set_key":
        x[G.key_to_py(how[1])] = G.to_py(how[2])
    elif k == "del_key":
        x.pop(G.key_to_py(how[1]), None)
    else:
        raise ValueError(how)


def _expr_objs(e, out):
    G.map_expr(e, lambda v: v, lambda o: (out.add(o[1]), o)[1])
    return out


def _expr_refs(e):
    return G.refs_of(e)


def valid(case):
    """can Python execute this sequence at all (every reference / object exists, every mutation applies)?"""
    try:
        store = [G.to_py(v) for v in case["store"]]
    except Exception:  # noqa: BLE001
        return False
    if any(not isinstance(x, (list, dict)) for x in store):
        return False
    n = 0
    for op in case["ops"]:
        k = op["op"]
        if k == "build":
            if any(i >= n for i in _expr_objs(op["expr"], set())) or any(l >= len(store) for l in _expr_refs(op["expr"])):
                return False
            if any(c in G.LIST_LEAVES and G.is_ref(x) and not isinstance(store[x[1]], list) for c, x in _list_leaf_args(op["expr"])):
                return False
            n += 1
        elif k == "mutate":
            if op["loc"] >= len(store) or not mut_applies(op["how"], store[op["loc"]]):
                return False
            apply_mut(op["how"], store[op["loc"]])
        else:
            if op["obj"] >= n:
                return False
            if k != "describe" and G.is_ref(op["value"]) and op["value"][1] >= len(store):
                return False
    return True


def _list_leaf_args(e):
    out = []

    def walk(e):
        if e[0] in G.LIST_LEAVES:
            out.append((e[0], e[1]))
        for s in G.sub_exprs(e):
            walk(s)
    walk(e)
    return out


def store_states(case):
    """the successive states (JSON syntax) of the store: initial, then after every mutation"""
    store = [G.to_py(v) for v in case["store"]]
    states = [[G.from_py(x) for x in store]]
    for op in case["ops"]:
        if op["op"] == "mutate":
            apply_mut(op["how"], store[op["loc"]])
            st = [G.from_py(x) for x in store]
            if st not in states:
                states.append(st)
    return states


def domain_of(case):
    """a finite value domain that separates the expected values the store goes through: every state X of every container, X inside
    a list / under the key "k", X with one more element, the items of X — on top of a fixed base domain"""
    dom = list(BASE_DOMAIN)

    def add(v):
        if v not in dom:
            dom.append(v)
    for st in store_states(case):
        for x in st:
            add(x)
            add(["l", [x]])
            add(["d", [["k", x]]])
            if x[0] == "l":
                add(["l", x[1] + [["i", 0]]])
                add(["l", x[1] + [["s", "zz"]]])
                add(["l", list(reversed(x[1]))])
                for it in x[1]:
                    add(it)
            else:
                add(["d", x[1] + [["zz", ["i", 0]]]])
    return dom


def accepted_set(m, pydomain):
    bits = []
    for v in pydomain:
        try:
            bits.append("1" if m.matches(v).is_successful is True else "0")
        except Exception:  # noqa: BLE001 - an exception is not an acceptance
            bits.append("0")
    return "".join(bits)


def _describe_obj(m, tr):
    from lemoncheesecake.matching.matcher import MatcherDescriptionTransformer
    t = MatcherDescriptionTransformer(conjugate=tr[0], negative=tr[1])
    try:
        d = m.build_description(t)
    except Exception as ex:  # noqa: BLE001 - classified
        return {"error": type(ex).__name__}, [bool(t.conjugate), bool(t.negative)]
    return d, [bool(t.conjugate), bool(t.negative)]


def _result_obs(fn):
    try:
        r = fn()
    except Exception as e:  # noqa: BLE001
        return {"error": type(e).__name__}
    return {"ok": r.is_successful if isinstance(r.is_successful, bool) else repr(r.is_successful),
            "details": r.description if r.description is None or isinstance(r.description, str) else repr(r.description)}


# ------------------------------------------------------------------------------------------------
# generator
# ------------------------------------------------------------------------------------------------

def gen_container(rng):
    if rng.random() < 0.55:
        return ["l", [G.gen_scalar(rng) if rng.random() < 0.8 else G.gen_val(rng, 1) for _ in range(rng.choice([0, 1, 2, 2, 3]))]]
    keys = G.gen_keys(rng, rng.choice([1, 2, 2, 3]))
    return ["d", [[k, G.gen_scalar(rng) if rng.random() < 0.8 else G.gen_val(rng, 1)] for k in keys]]


def gen_mutation(rng, x):
    """a mutation that applies to the live container x"""
    if isinstance(x, list):
        ks = ["append", "append", "append"] + (["pop", "set_idx"] if x else []) + ["clear"]
        k = rng.choice(ks)
        if k == "append":
            return ["append", G.gen_scalar(rng)]
        if k == "set_idx":
            return ["set_idx", rng.randrange(len(x)), G.gen_scalar(rng)]
        return [k]
    k = rng.choice(["set_key", "set_key", "set_key", "del_key", "clear"])
    if k == "set_key":
        present = [G.from_py(q) if not isinstance(q, str) else q for q in x.keys()]
        key = rng.choice(present) if present and rng.random() < 0.5 else rng.choice(G.MIXED_KEYS if rng.random() < 0.3 else G.KEYS)
        return ["set_key", key, G.gen_scalar(rng) if rng.random() < 0.8 else G.gen_val(rng, 1)]
    if k == "del_key":
        present = [G.from_py(q) if not isinstance(q, str) else q for q in x.keys()]
        return ["del_key", rng.choice(present) if present and rng.random() < 0.8 else rng.choice(G.KEYS)]
    return ["clear"]


def gen_ref_leaf(rng, store):
    l = rng.randrange(len(store))
    if isinstance(store[l], list) and rng.random() < 0.3:
        return [rng.choice(REF_LIST_CTORS), ["ref", l]]
    return [rng.choice(REF_VALUE_CTORS), ["ref", l]]


def gen_base(rng, store):
    """an object built from scratch: a leaf, a leaf on a mutable expected value, or a composite of those"""
    def leaf():
        if store and rng.random() < 0.45:
            return gen_ref_leaf(rng, store)
        return list(rng.choice(LEAVES))
    r = rng.random()
    if r < 0.3:
        return leaf()
    if r < 0.85:
        return [rng.choice(["all_of", "any_of"]), [leaf() for _ in range(rng.choice([1, 2, 2, 2, 3]))]]
    return [rng.choice(["all_of", "any_of"]), [leaf(), [rng.choice(["all_of", "any_of"]), [leaf(), leaf()]]]]


def gen_derived(rng, store, nobj):
    """an object built on existing objects (they are passed themselves, not rebuilt)"""
    sub = ["obj", rng.randrange(nobj)]
    r = rng.random()
    if r < 0.7:
        h = rng.choice(HOSTS)
        return h + [sub]
    other = ["obj", rng.randrange(nobj)] if rng.random() < 0.5 else (gen_ref_leaf(rng, store) if store and rng.random() < 0.4 else list(rng.choice(LEAVES)))
    kids = [sub, other]
    rng.shuffle(kids)
    return [rng.choice(["all_of", "any_of"]), kids]


def gen_case(rng):
    store_vals = [gen_container(rng) for _ in range(rng.choice([0, 1, 1, 1, 2]))]
    live = [G.to_py(v) for v in store_vals]
    ops, nobj = [], 0
    for _ in range(rng.choice([4, 6, 8, 10, 12, 14])):
        r = rng.random()
        if nobj == 0 or r < 0.22:
            e = gen_base(rng, live) if nobj == 0 or rng.random() < 0.4 else gen_derived(rng, live, nobj)
            ops.append({"op": "build", "expr": e})
            nobj += 1
        elif r < 0.40 and live:
            l = rng.randrange(len(live))
            how = gen_mutation(rng, live[l])
            apply_mut(how, live[l])
            ops.append({"op": "mutate", "loc": l, "how": how})
        elif r < 0.72:
            tr = [False, False] if rng.random() < 0.45 else [True, False] if rng.random() < 0.4 else [rng.random() < 0.5, rng.random() < 0.5]
            ops.append({"op": "describe", "obj": _pick_obj(rng, nobj), "tr": tr})
        else:
            q = rng.random()
            if live and q < 0.2:
                value = ["ref", rng.randrange(len(live))]
            elif live and q < 0.5:
                value = G.from_py(copy.deepcopy(rng.choice(live)))
            else:
                value = G.gen_val(rng, 1)
            ops.append({"op": rng.choice(["check", "check", "require", "assert"]), "obj": _pick_obj(rng, nobj), "hint": rng.choice(HINTS),
                        "value": value, "quiet": rng.random() < 0.2})
    return {"store": store_vals, "ops": ops}


def _pick_obj(rng, nobj):
    # recent objects more often (they are the ones built on the others)
    return nobj - 1 if rng.random() < 0.4 else rng.randrange(nobj)


# ------------------------------------------------------------------------------------------------
# the stream
# ------------------------------------------------------------------------------------------------

_A, _B = ["greater_than", ["i", 0]], ["less_than", ["i", 10]]
_M = ["all_of", [_A, _B]]


def _use_all(objs):
    return [{"op": "check", "obj": i, "hint": "value", "value": ["i", 5], "quiet": False} for i in objs]


class Seq(C.Stream):
    """sequences of constructions / in-place mutations of expected values / uses of matcher objects (descriptions, checks in a session)"""
    name = "C17.seq"
    quick_cases = 1500
    thorough_cases = 20000
    quick_seconds = 25
    thorough_seconds = 300
    chunk = 50
    corpus = [
        # an expected dict completed AFTER the matcher was built (minimised failing input of seeded/C17-4): sentence and matching must
        # read the same value
        {"store": [["d", [["id", None], ["tags", ["l", [["s", "a"]]]]]]],
         "ops": [{"op": "build", "expr": ["equal_to", ["ref", 0]]},
                 {"op": "mutate", "loc": 0, "how": ["set_key", "id", ["i", 7]]},
                 {"op": "check", "obj": 0, "hint": "value", "value": ["d", [["id", ["i", 7]], ["tags", ["l", [["s", "a"]]]]]], "quiet": False}]},
        {"store": [["l", [["i", 1], ["i", 2]]]],
         "ops": [{"op": "build", "expr": ["has_item", ["val", ["ref", 0]]]},
                 {"op": "build", "expr": ["not_equal_to", ["ref", 0]]},
                 {"op": "build", "expr": ["is_type", "list", ["greater_than", ["ref", 0]]]},
                 {"op": "build", "expr": ["not_", ["has_entry", ["payload"], ["obj", 1]]]},
                 {"op": "build", "expr": ["has_items", ["ref", 0]]},
                 {"op": "mutate", "loc": 0, "how": ["append", ["i", 3]]}] +
                [{"op": "describe", "obj": i, "tr": [False, False]} for i in range(5)] +
                [{"op": "mutate", "loc": 0, "how": ["set_idx", 0, ["s", "a"]]},
                 {"op": "check", "obj": 0, "hint": None, "value": ["l", [["l", [["s", "a"], ["i", 2], ["i", 3]]]]], "quiet": False}]},
        # the same all_of object used top-level, inside has_entry / has_item / typed matchers, under not_(), in separate checks (minimised
        # failing inputs of seeded/C17-6): its wording must not depend on where it was used before
        {"store": [],
         "ops": [{"op": "build", "expr": _M},
                 {"op": "build", "expr": ["has_entry", ["k"], ["obj", 0]]},
                 {"op": "build", "expr": ["not_", ["obj", 0]]}] + _use_all([0, 1, 2])},
        {"store": [],
         "ops": [{"op": "build", "expr": _M},
                 {"op": "build", "expr": ["not_", ["obj", 0]]},
                 {"op": "build", "expr": ["has_item", ["obj", 0]]},
                 {"op": "build", "expr": ["has_all_items", ["obj", 0]]},
                 {"op": "build", "expr": ["has_length", ["obj", 0]]},
                 {"op": "build", "expr": ["is_type", "int", ["obj", 0]]},
                 {"op": "build", "expr": ["not_", ["has_entry", ["k"], ["obj", 0]]]}] + _use_all([0, 1, 2, 3, 4, 5, 6, 1, 0])},
        {"store": [],
         "ops": [{"op": "build", "expr": ["any_of", [_A, ["is_none"]]]},
                 {"op": "describe", "obj": 0, "tr": [False, False]},
                 {"op": "describe", "obj": 0, "tr": [True, False]},
                 {"op": "describe", "obj": 0, "tr": [False, True]},
                 {"op": "describe", "obj": 0, "tr": [True, True]},
                 {"op": "describe", "obj": 0, "tr": [False, False]},
                 {"op": "build", "expr": ["all_of", [["obj", 0], ["not_", ["obj", 0]]]]},
                 {"op": "describe", "obj": 1, "tr": [False, False]},
                 {"op": "check", "obj": 1, "hint": "x", "value": None, "quiet": True},
                 {"op": "describe", "obj": 0, "tr": [True, False]}]},
    ]

    def gen(self, rng, i):
        for _ in range(20):
            # no NaN here: the sequences pass THE SAME live container as expected and as actual value, and Python's containers
            # compare identical items without asking `==` — the object model (Model/MatcherObj.lean) has values, not identities;
            # NaN objects (same / different) are the business of C17.inject's identity domain and of C16 / C17.describe
            c = G.without_nans(gen_case(rng))
            if valid(c):
                return c
        return {"store": [], "ops": [{"op": "build", "expr": ["is_none"]}, {"op": "describe", "obj": 0, "tr": [False, False]}]}

    def impl(self, case):
        import lemoncheesecake.api as lcc
        from lemoncheesecake.exceptions import AbortTest
        from lemoncheesecake.helpers.text import jsonify
        from lemoncheesecake.matching import assert_that, check_that, require_that
        from props.c16 import run_in_session

        if not valid(case):
            raise ValueError("not an executable sequence")
        fns = {"check": check_that, "require": require_that, "assert": assert_that}
        states = store_states(case)
        domain = domain_of(case)
        pydomain = [G.to_py(v) for v in domain]
        store = [G.to_py(v) for v in case["store"]]
        env = G.Env(store)
        templates = []          # per object: its constructor call with the ["obj", i] arguments inlined
        outs = []

        def fresh_views(tmpl, tr, upto):
            """brand-new matchers built by the same calls on a deep copy of every state the store has been in so far"""
            views = []
            for st in states[:upto + 1]:
                m2 = G.to_matcher(tmpl, env=G.Env([G.to_py(v) for v in st]))
                views.append({"desc": _describe_obj(m2, tr)[0], "accepts": accepted_set(m2, pydomain)})
            return views

        def body():
            for k, op in enumerate(case["ops"]):
                lcc.set_step("op %d" % k)
                kind = op["op"]
                if kind == "build":
                    env.objs.append(G.to_matcher(op["expr"], env=env))
                    templates.append(G.inline_objs(op["expr"], templates))
                    outs.append({"built": len(env.objs) - 1})
                    continue
                if kind == "mutate":
                    apply_mut(op["how"], store[op["loc"]])
                    outs.append({"mutated": jsonify(store[op["loc"]])})
                    continue
                m = env.objs[op["obj"]]
                if kind == "describe":
                    tr = op["tr"]
                    d, after = _describe_obj(m, tr)
                    out = {"desc": d, "tr_after": after, "tr": tr}
                else:
                    tr = [False, False]
                    v = store[op["value"][1]] if G.is_ref(op["value"]) else G.to_py(op["value"])
                    try:
                        r = fns[kind](op["hint"], v, m, quiet=op["quiet"])
                        out = {"result": {"returned": _result_obs(lambda: r)}}
                    except AbortTest:
                        out = {"result": {"raised": "AbortTest"}}
                    except Exception as e:  # noqa: BLE001 - classified
                        out = {"result": {"raised": type(e).__name__}}
                    out["tr"] = tr
                    # the sentence the object gives right after the check (a new transformer, as the next check would use)
                    out["desc_after"] = _describe_obj(m, tr)[0]
                # measurements (after the use itself, so that they do not stand between two uses of the test's own sequence … they do
                # allocate, like any code a test runs between two checks)
                cur = [G.from_py(x) for x in store]
                out["state"] = states.index(cur)
                out["accepts"] = accepted_set(m, pydomain)
                out["fresh"] = fresh_views(templates[op["obj"]], tr, max(out["state"], _last_state(outs)))
                outs.append(out)

        report = run_in_session(body)
        tests = list(report.all_tests())
        if len(tests) != 1 or len(outs) != len(case["ops"]):
            raise RuntimeError("the session did not run the test body to its end")
        by_step = {}
        for st in tests[0].get_steps():
            for lg in st.get_logs():
                if type(lg).__name__ == "Check":
                    by_step.setdefault(st.description, []).append({"description": lg.description, "ok": lg.is_successful, "details": lg.details})
                else:
                    by_step.setdefault(st.description, []).append({"other": type(lg).__name__})
        for k, (op, out) in enumerate(zip(case["ops"], outs)):
            if op["op"] in fns:
                out["checks"] = by_step.get("op %d" % k, [])
                out["desc"] = None
                if len(out["checks"]) == 1 and "description" in out["checks"][0]:
                    sentence = out["checks"][0]["description"]
                    prefix = "Expect %s " % op["hint"] if op["hint"] is not None else "Expect "
                    if sentence.startswith(prefix):
                        out["desc"] = sentence[len(prefix):]
        return {"outs": outs, "templates": templates, "states": len(states), "domain": len(domain)}

    # -- oracle ------------------------------------------------------------------------------------------

    def oracle(self, case, obs):
        from props import c17 as P
        fails, seen = [], set()
        states = store_states(case)
        pool = {}       # (tr, sentence) -> [(accepted set, label, pure expression)]

        def add(tr, desc, accepts, label, pure):
            if isinstance(desc, str):
                pool.setdefault((tuple(tr), desc), []).append((accepts, label, pure))

        for k, (op, out) in enumerate(zip(case["ops"], obs["outs"])):
            if op["op"] in ("build", "mutate"):
                continue
            i = op["obj"]
            tmpl = obs["templates"][i]
            what = f"op {k}: object {i} = {tmpl}"
            desc = out["desc"]
            if isinstance(desc, dict):
                if SIG_RAISES not in seen:
                    seen.add(SIG_RAISES)
                    fails.append(C.Failure(SIG_RAISES, f"{what}: build_description raised {desc}"))
                continue
            cur = out["fresh"][out["state"]]
            if op["op"] != "describe":
                if desc is not None and isinstance(out["desc_after"], str) and desc != out["desc_after"] and SIG_RECORDED not in seen:
                    seen.add(SIG_RECORDED)
                    fails.append(C.Failure(SIG_RECORDED, f"{what}: the check recorded {desc!r}, the object describes itself as "
                                                         f"{out['desc_after']!r} right afterwards"))
                if desc is None:
                    desc = out["desc_after"] if isinstance(out["desc_after"], str) else None
            if desc is None:
                continue
            if isinstance(cur["desc"], str) and desc != cur["desc"] and SIG_HISTORY not in seen:
                seen.add(SIG_HISTORY)
                stale = [j for j, f in enumerate(out["fresh"]) if f["desc"] == desc and j != out["state"]]
                why = (f"it is the sentence for an EARLIER content of the expected value (store state {stale[0]}: {states[stale[0]]}), the "
                       f"current one is {states[out['state']]}") if stale else "the object (or one of its sub-objects) was used before"
                fails.append(C.Failure(SIG_HISTORY, f"{what} under transformer {out['tr']} is described as {desc!r}; an identical matcher built "
                                                    f"at this moment by the same calls reads {cur['desc']!r}: {why}",
                                       {"accepts": out["accepts"], "fresh_accepts": cur["accepts"]}))
            add(out["tr"], desc, out["accepts"], f"object {i} at op {k}", G.instantiate(tmpl, states[out["state"]]))
            for j, f in enumerate(out["fresh"]):
                add(out["tr"], f["desc"], f["accepts"], f"a new matcher {G.instantiate(tmpl, states[j])}", G.instantiate(tmpl, states[j]))
        for (tr, desc), members in pool.items():
            clean = [m for m in members if not P.has_empty_composite(m[2]) and not P.has_not_over_composite(m[2])
                     and not P.has_unescaped_quote_argument(m[2]) and P.in_fragment(m[2])]
            strkeys = [m for m in clean if not P.has_nonstr_dict_key(m[2])]
            sig, members = (SIG_COLLISION, strkeys) if len({m[0] for m in strkeys}) > 1 else (P.SIG_KEYTYPE, clean)
            if len({m[0] for m in members}) > 1 and sig not in seen:
                seen.add(sig)
                a = members[0]
                b = next(m for m in members if m[0] != a[0])
                fails.append(C.Failure(sig, f"{a[1]} and {b[1]} are both described as {desc!r} (transformer {list(tr)}) but accept "
                                                      f"different values of the separating domain ({a[0]} / {b[0]})", {"description": desc}))
        return fails

    # -- model -------------------------------------------------------------------------------------------

    def request(self, case, obs):
        return {"seq": {"store": case["store"], "ops": case["ops"]}}

    def compare(self, case, obs, ans):
        if "outs" not in ans:
            return "model error: " + str(ans.get("error"))
        if len(ans["outs"]) != len(obs["outs"]):
            return "number of operations differs"
        for k, (op, m, o) in enumerate(zip(case["ops"], ans["outs"], obs["outs"])):
            kind = op["op"]
            if kind == "build":
                if m.get("built") != o["built"]:
                    return f"op {k}: object index: model {m} vs implementation {o['built']}"
            elif kind == "mutate":
                if m.get("mutated") != o["mutated"]:
                    return f"op {k}: container after the mutation: model {m.get('mutated')!r} vs implementation {o['mutated']!r}"
            elif kind == "describe":
                if m.get("desc") != o["desc"]:
                    return f"op {k}: description of object {op['obj']}: model {m.get('desc')!r} vs implementation {o['desc']!r}"
                if m.get("tr_after") != o["tr_after"]:
                    return f"op {k}: transformer after the call: model {m.get('tr_after')} vs implementation {o['tr_after']}"
            else:
                if m.get("checks") != o["checks"]:
                    return f"op {k} ({kind}): checks: model {m.get('checks')} vs implementation {o['checks']}"
                if m.get("result") != o["result"]:
                    return f"op {k} ({kind}): result: model {m.get('result')} vs implementation {o['result']}"
        return None

    def nontrivial(self, case, obs):
        kinds = {o["op"] for o in case["ops"]}
        return len(case["ops"]) >= 4 and ("mutate" in kinds or any("obj" in str(o.get("expr")) for o in case["ops"]))

    def features(self, case, obs):
        f = set()
        n = len(case["ops"])
        f.add("ops<=6" if n <= 6 else "ops<=10" if n <= 10 else "ops>10")
        built_at = {}      # object -> {location: number of mutations it had undergone when the object was built}
        uses = {}          # object -> transformer settings of its uses
        mutcount = {}
        nobj = 0
        shared = set()
        for op, out in zip(case["ops"], obs["outs"]):
            k = op["op"]
            if k == "build":
                for i in _expr_objs(op["expr"], set()):
                    shared.add(i)
                    f.add("object-passed-to-constructor")
                    if any(c in ("all_of", "any_of") for c in G.constructors_of(obs["templates"][i])):
                        f.add("composite-object-reused")
                refs = _expr_refs(obs["templates"][nobj])
                built_at[nobj] = {l: mutcount.get(l, 0) for l in refs}
                if refs:
                    f.add("built-on-mutable-expected-value")
                nobj += 1
            elif k == "mutate":
                mutcount[op["loc"]] = mutcount.get(op["loc"], 0) + 1
                f.add("mutate:" + op["how"][0])
            else:
                i = op["obj"]
                if any(mutcount.get(l, 0) > n0 for l, n0 in built_at[i].items()):
                    f.add("used-after-mutation-of-expected")
                uses.setdefault(i, []).append(tuple(out["tr"]))
                f.add("use:" + k)
                if k == "describe":
                    f.add("tr=%d%d" % tuple(op["tr"]))
                if len(out["fresh"]) > 1:
                    f.add("several-store-states")
        if any(len(set(u)) > 1 for u in uses.values()):
            f.add("same-object-under-different-transformers")
        if any(len(u) > 1 for u in uses.values()):
            f.add("same-object-used-twice")
        used_sub = [i for i in shared if i in uses]
        if used_sub:
            f.add("sub-object-also-used-alone")
        if G.key_feature(case["store"]):
            f.add("store-dict-keys:" + G.key_feature(case["store"]))
        return sorted(f)

    def shrink(self, case):
        ops = case["ops"]
        # drop a suffix, drop one operation (a build only if nothing refers to the object), simplify a constructor call
        for n in range(len(ops) - 1, 0, -1):
            c = {"store": case["store"], "ops": ops[:n]}
            if valid(c):
                yield c
        for i, op in enumerate(ops):
            c = _drop_op(case, i)
            if c is not None and valid(c):
                yield c
        for i, op in enumerate(ops):
            if op["op"] == "build":
                for t in _shrink_oexpr(op["expr"]):
                    c = {"store": case["store"], "ops": ops[:i] + [dict(op, expr=t)] + ops[i + 1:]}
                    if valid(c):
                        yield c
        if len(case["store"]) > 0:
            for l, v in enumerate(case["store"]):
                for j in range(len(v[1])):
                    c = {"store": case["store"][:l] + [[v[0], v[1][:j] + v[1][j + 1:]]] + case["store"][l + 1:], "ops": ops}
                    if valid(c):
                        yield c


def _last_state(outs):
    st = [o["state"] for o in outs if "state" in o]
    return max(st) if st else 0


def _shrink_oexpr(e):
    c = e[0]
    if c in ("all_of", "any_of"):
        for i in range(len(e[1])):
            yield [c, e[1][:i] + e[1][i + 1:]]
        for a in e[1]:
            if a[0] != "val":
                yield a
    elif c in G.UNARY or c == "hide":
        if e[1][0] != "val":
            yield e[1]
    elif c in ("has_entry", "is_type", "override"):
        if e[2][0] != "val":
            yield e[2]


def _renumber(e, k):
    return G.map_expr(e, lambda v: v, lambda o: ["obj", o[1] - 1 if o[1] > k else o[1]])


def _drop_op(case, i):
    ops = case["ops"]
    op = ops[i]
    if op["op"] != "build":
        return {"store": case["store"], "ops": ops[:i] + ops[i + 1:]}
    k = sum(1 for o in ops[:i] if o["op"] == "build")       # index of the object this build creates
    rest = []
    for o in ops[i + 1:]:
        if o["op"] == "build":
            if k in _expr_objs(o["expr"], set()):
                return None
            rest.append(dict(o, expr=_renumber(o["expr"], k)))
        elif o["op"] == "mutate":
            rest.append(o)
        else:
            if o["obj"] == k:
                return None
            rest.append(dict(o, obj=o["obj"] - 1 if o["obj"] > k else o["obj"]))
    return {"store": case["store"], "ops": ops[:i] + rest}

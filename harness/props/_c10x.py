"""
C10 — the layers above and below the file session that the streams of c10.py do not cross.

  C10.cli     `lcc run` glue: a generated project (real suites built like C10.snap's real runs: steps, logs, failing checks,
              raising bodies, disabled / dependency-skipped tests, nested suites, declared dotted names) is wrapped into a real
              `lemoncheesecake.project.Project`; the arguments are parsed by the REAL argparse definitions of
              `RunCommand.add_cli_args` (`--save-report X`, `--report-dir`, `--threads`), `$LCC_SAVE_REPORT` is set in the
              environment, and the real `run_suites_from_project(project, cli_args)` is called: filter → PreparedProject →
              backends → `get_report_saving_strategy` → report dir → `Session.create` → run.  The project's reporting backends are
              the real JSON, XML and JUnit backends — attached in any combination and order through the real `--reporting` option —
              plus a recording backend subscribed last, which reloads the report files after
              every event (same observer as C10.snap).  Oracle: the file is refreshed at the points promised by the strategy
              the USER asked for (the option if given, else the variable, else `at_each_failed_test`) and at the end; every
              snapshot loads and is a prefix of the final report.  Model: `Saving.chosenStrategy` (which strategy) and the
              session model on the recorded stream (save points).
  C10.locale  the same handler loop in a CHILD PROCESS whose locale encoding is not UTF-8 (`LC_ALL=C`, locale coercion and UTF-8
              mode off: `open(path, "w")` encodes with ASCII) or is UTF-8, on texts with non-ASCII characters and lone surrogates:
              the JSON backend must save and refresh exactly as under UTF-8 (theorem json_save_never_raises); what the XML
              backend does is compared with `Store.xmlSaveOkEnc` and classified.
"""
import json
import os
import shutil
import subprocess
import sys
import tempfile
import threading

import common as C
from gen import reports as R

ENV_KEYS = ("LCC_THREADS", "LCC_REPORT_DIR", "LCC_REPORTING", "LCC_SAVE_REPORT", "LCC_PROJECT", "LCC_PROJECT_FILE")
STATIC_NAMES = ["at_end_of_tests", "at_each_suite", "at_each_test", "at_each_failed_test", "at_each_log", "at_each_event"]


def requested_expr(cli, env):
    """what the user asked for, per the documentation of `--save-report` ("default: $LCC_SAVE_REPORT or at_each_failed_test")"""
    return cli or env or "at_each_failed_test"


def valid_expr(expr):
    import re
    return expr in STATIC_NAMES or re.fullmatch(r"every[_ ][0-9]+s", expr) is not None


# ------------------------------------------------------------------------------------------------
# C10.cli
# ------------------------------------------------------------------------------------------------

RDIR_VIAS = ["option", "env", "both", "empty-option+env", "default"]
RDIR_STATES = ["missing", "nested", "empty", "previous", "file"]
REPORT_FILES = {"report.js": "json", "report.xml": "xml", "report-junit.xml": "junit"}


def rdir_plan(case, top):
    """where the report directory of the observed run comes from (`--report-dir`, `$LCC_REPORT_DIR`, both, the project's default
    location) and what is at that path when the run starts -> (directory, argv part, environment part)"""
    rd = case.get("rdir")
    if rd is None:           # the fixed form of the earlier rounds: a fresh `--report-dir`
        d = os.path.join(top, "report")
        return d, ["--report-dir", d], {}
    d = os.path.join(top, "a", "b", "out") if rd["state"] == "nested" else os.path.join(top, "out")
    via = rd["via"]
    if via == "option":
        return d, ["--report-dir", d], {}
    if via == "env":
        return d, [], {"LCC_REPORT_DIR": d}
    if via == "both":        # the option wins; the variable names another (missing) path
        return d, ["--report-dir", d], {"LCC_REPORT_DIR": os.path.join(top, "elsewhere")}
    if via == "empty-option+env":
        return d, ["--report-dir", ""], {"LCC_REPORT_DIR": d}
    return os.path.join(top, "report"), [], {}      # default: the project's rotated `report`


def _dir_files(d):
    """the report files in `d` with their bytes (what a later run must not find / must leave alone)"""
    out = {}
    if os.path.isdir(d):
        for f in sorted(os.listdir(d)):
            fp = os.path.join(d, f)
            if os.path.isfile(fp):
                with open(fp, "rb") as fh:
                    out[f] = fh.read()
    return out


def run_cli(case, watchdog=60.0):
    """the observed run — after, when the case says so, a PREVIOUS real run into the same report directory"""
    top = tempfile.mkdtemp(prefix="lccverif-c10cli-")
    try:
        rd = case.get("rdir")
        d, dir_argv, dir_env = rdir_plan(case, top)
        before = None
        if rd is not None:
            st = rd["state"]
            if st == "empty" and rd["via"] != "default":
                os.makedirs(d)
            elif st == "file" and rd["via"] != "default":
                with open(d, "w") as fh:
                    fh.write("not a directory\n")
            elif st == "previous":
                prev = dict(case, cli=rd.get("prev_expr") or "at_end_of_tests", env=None)
                _run_once(prev, top, dir_argv, dir_env, watchdog)
            before = {"exists": os.path.exists(d), "files": sorted(_dir_files(d))}
            content = _dir_files(d)
        obs = _run_once(case, top, dir_argv, dir_env, watchdog)
        if rd is not None:
            obs["dir_before"] = before
            # a refused run must leave what was there alone
            obs["dir_untouched"] = (_dir_files(d) == content) if not obs["events"] else None
            if rd["via"] == "default":
                obs["archived"] = sorted(os.listdir(os.path.join(top, "reports"))) if os.path.isdir(os.path.join(top, "reports")) else []
        return obs
    finally:
        shutil.rmtree(top, ignore_errors=True)


def _run_once(case, top, dir_argv, dir_env, watchdog=60.0):
    from props import c10
    from props._cli import real_parser
    import lemoncheesecake.project as LP
    from lemoncheesecake.cli.commands.run import run_suites_from_project
    from lemoncheesecake.reporting.backend import ReportingBackend, ReportingSessionBuilderMixin
    from lemoncheesecake.reporting.report import format_time_as_iso8601, parse_iso8601_time
    from lemoncheesecake.session import Session
    from lemoncheesecake.suite import resolve_tests_dependencies

    side = {"recorded": [], "observer": None, "strategy": "not-created", "at_start": []}
    all_backends = {"json": c10.make_backend("json", case["variant"]), "xml": c10.make_backend("xml"), "junit": c10.make_backend("junit")}
    attached = case.get("backends") or ["json", "xml"]
    backends = {k: all_backends[k] for k in attached}          # in the order `--reporting` names them

    class ObserverBackend(ReportingBackend, ReportingSessionBuilderMixin):
        def get_name(self):
            return "zz-lccverif-observer"

        def create_reporting_session(self, report_dir, report, parallel, report_saving_strategy):
            side["strategy"] = c10.strategy_identity(report_saving_strategy)[1]
            side["report_dir"] = report_dir
            sessions = [(os.path.join(report_dir, be.get_report_filename()), be) for be in backends.values()]
            recorded = side["recorded"]
            # the run has its directory, no event is handled yet: what does a reader of the report files find NOW ?
            if isinstance(report_dir, str) and os.path.isdir(report_dir):
                for f in sorted(os.listdir(report_dir)):
                    if f in REPORT_FILES:
                        side["at_start"].append({"kind": REPORT_FILES[f], "attached": f in {os.path.basename(p) for p, _ in sessions},
                                                 "load": c10.load_nf(os.path.join(report_dir, f))})

            class Rec(c10.Observer):
                def _after(self, event):
                    ce = R.canon_event(event)
                    ce["t"] = R._ms(parse_iso8601_time(format_time_as_iso8601(event.time)))
                    recorded.append(ce)
                    c10.Observer._after(self, event)
            side["observer"] = Rec(report, sessions)
            side["sessions"] = sessions
            return side["observer"]

    class GeneratedProject(LP.Project):
        def __init__(self):
            LP.Project.__init__(self, top)
            self.reporting_backends = dict(all_backends)
            self.reporting_backends["zz-lccverif-observer"] = ObserverBackend()
            self.default_reporting_backend_names = ["json", "xml", "zz-lccverif-observer"]

        def load_suites(self):
            suites = c10._build_real_suites(case["spec"])
            return suites

        def load_fixtures(self):
            return []

        def build_report_info(self):
            # the project's own information lines (a name the tests may publish again through `lcc.add_report_info`)
            base = LP.Project.build_report_info(self)
            return list(base) + [tuple(x) for x in case.get("project_info") or []]

        def build_report_title(self):
            return case.get("title") or LP.Project.build_report_title(self)

    argv = list(dir_argv) + ["--threads", str(case["spec"]["nb_threads"])]
    if case.get("backends"):
        # the real `--reporting` option (fixed list form): the file backends in this order, the observer last
        argv += ["--reporting"] + list(attached) + ["zz-lccverif-observer"]
    if case["cli"] is not None:
        argv += ["--save-report", case["cli"]]
    saved_env = {k: os.environ.pop(k) for k in ENV_KEYS if k in os.environ}
    old_instance = Session._instance
    out = {}

    def body():
        try:
            cli_args = real_parser().parse_args(argv)
            out["exit"] = run_suites_from_project(GeneratedProject(), cli_args)
        except SystemExit as e:
            out["raised"] = ["SystemExit", str(e.code)]
        except BaseException as e:        # classified, never propagated
            out["raised"] = [type(e).__name__, str(e)[:300]]

    try:
        if case["env"] is not None:
            os.environ["LCC_SAVE_REPORT"] = case["env"]
        os.environ.update(dir_env)
        th = threading.Thread(target=body, daemon=True, name="lccverif-c10cli")
        th.start()
        th.join(watchdog)
        if th.is_alive():
            raise C.InfraError("C10.cli: run_suites_from_project did not return within %ds" % watchdog)
        obs = {"argv": [a.replace(top, "<tmp>") for a in argv], "strategy": side["strategy"],
               "outcome": {"raised": out["raised"][0], "text": out["raised"][1].replace(top, "<tmp>")} if "raised" in out
               else {"exit": out["exit"]}}
        obs["at_start"] = side["at_start"]
        ob = side["observer"]
        if ob is None:
            return dict(obs, events=[], handled=0, failure=None, sessions=[], status_after={}, final_report=None, nfs=[])
        obs.update(events=side["recorded"], handled=ob.k, failure=out["raised"][0] if "raised" in out else None, sessions=[],
                   nb_threads=case["spec"]["nb_threads"])
        requested = requested_expr(case["cli"], case["env"])
        for i, (path, be) in enumerate(side["sessions"]):
            fin = c10.load_nf(path) if os.path.exists(path) else None
            kind = {"report.js": "json", "report.xml": "xml", "report-junit.xml": "junit"}[os.path.basename(path)]
            obs["sessions"].append({"spec": [kind, case["variant"], requested], "saves": be.saves, "save_errors": be.save_errors,
                                    "copies": [{"k": k, "n": n, "load": l} for k, n, l in ob.copies[i]], "final": fin, "stray": []})
        rd = side["report_dir"]
        expected_files = {be.get_report_filename() for be in backends.values()}
        stray = sorted(f for f in os.listdir(rd) if f not in expected_files) if os.path.isdir(rd) else []
        obs["sessions"][0]["stray"] = stray
        obs["status_after"] = {str(k): v for k, v in ob.status_after.items()}
        fin0 = next((x["final"] for x in obs["sessions"] if x["final"] and "nf" in x["final"]), None)
        obs["final_report"] = fin0["nf"] if fin0 else R.nf_report(ob.report)
        return c10._intern(obs)
    finally:
        for k in ENV_KEYS:
            os.environ.pop(k, None)
        os.environ.update(saved_env)
        Session._instance = old_instance


def _all_suites(suites):
    for su in suites:
        yield su
        yield from _all_suites(su["subs"])


def _spec_one_suite(tests):
    return {"suites": [{"name": "top0", "tests": tests, "subs": [], "setup": None, "teardown": None}], "nb_threads": 1}


def dir_unusable(case):
    rd = case.get("rdir")
    return bool(rd) and rd["via"] != "default" and rd["state"] != "missing"


def stale_failures(obs):
    """C10, first sentence, at the first instant of the run: a report file that exists in the run's directory when the run has
    got it (no event handled yet) must load and describe a prefix of THIS run's final report"""
    from props import c10
    out = []
    final = obs.get("final_report")
    for x in obs.get("at_start") or []:
        if x["kind"] == "junit":
            continue                       # no loader, no prefix relation: only read by the save-point facts
        load = x["load"]
        if "nf" not in load:
            out.append(C.Failure("C10/stale-report-visible/%s" % x["kind"],
                                 "a report file exists in the report directory when the run starts and does not load: %s" % (load,)))
            continue
        if final is None:
            continue
        why = c10.nf_prefix(load["nf"], final)
        if why:
            out.append(C.Failure("C10/stale-report-visible/%s" % x["kind"],
                                 "the report file found in the report directory when the run starts (before its first save) is not a "
                                 "prefix of this run's final report: %s" % "; ".join(why[:3])))
    return out


def model_runs(case):
    """the history of runs the observed one is the last of, in the words of `Model/RunSeq.lean` (None: the path state is outside that
    model — a regular file, a missing parent: `RunStart.startOutcome`, table reportDirTable)"""
    rd = case.get("rdir")
    if rd is None:
        return [{"cli": {"other": 0}, "env": None, "writes": True}]
    tgt = {"option": ({"other": 0}, None), "env": (None, {"other": 0}), "both": ({"other": 0}, {"other": 1}),
           "empty-option+env": ("", {"other": 0}), "default": (None, None)}[rd["via"]]
    this = {"cli": tgt[0], "env": tgt[1], "writes": True}
    if rd["state"] == "missing":
        return [this]
    if rd["via"] == "default":
        return [this, this] if rd["state"] == "previous" else [this]
    if rd["state"] == "previous":
        return [this, this]
    if rd["state"] == "empty":          # a directory that exists and holds nothing = what a run without file backend leaves
        return [dict(this, writes=False), this]
    return None


class Cli(C.Stream):
    name = "C10.cli"
    quick_cases = 130
    thorough_cases = 1500
    quick_seconds = 12
    thorough_seconds = 120
    chunk = 8
    # replayed first: the option must win over the variable (either way round), the variable over the default, on a project
    # with a log, a failing and a passing test — every strategy pair that distinguishes them
    corpus = [
        {"spec": _spec_one_suite([{"name": "t0", "acts": [["log", "info", "m"], ["check", False]], "mode": "run"},
                                  {"name": "t1", "acts": [["log", "info", "m"]], "mode": "run"}]),
         "cli": cli, "env": env, "variant": 0, "texts": "plain"}
        for cli, env in [("at_each_log", "at_end_of_tests"), ("at_end_of_tests", "at_each_log"), ("at_each_test", "at_each_suite"),
                         (None, "at_each_test"), ("", "at_each_suite"), ("at_each_failed_test", ""), (None, None),
                         ("at_each_suite", "bogus")]
    ] + [
        {"spec": _spec_one_suite([{"name": "t0", "acts": [["log", "info", "m"], ["check", False], ["log", "info", "m2"]], "mode": "run"},
                                  {"name": "t1", "acts": [["log", "info", "m"]], "mode": "run"}]),
         "cli": "at_each_log", "env": None, "variant": 0, "texts": "plain", "backends": backends}
        for backends in (["json", "junit"], ["junit", "xml", "json"])
    ] + [
        # the project publishes `target`; the first test publishes it again with another value, the second once more (saves in between)
        {"spec": dict(_spec_one_suite([{"name": "t0", "acts": [["info", "target", "alpha"], ["log", "info", "m"]], "mode": "run"},
                                       {"name": "t1", "acts": [["info", "target", "beta"], ["log", "info", "m"]], "mode": "run"}]), has_info=True),
         "cli": "at_each_test", "env": None, "variant": 0, "texts": "plain", "backends": ["json", "xml"],
         "project_info": [["target", "default"]], "title": "Campaign 1"},
    ] + [
        # two `lcc.Thread` workers of one test carrying the SAME name, the first ending first, logs (saves) before the second ends
        {"spec": _spec_one_suite([{"name": "t0", "mode": "run",
                                   "acts": [["threads", ["a0"], ["b0"], True, ["worker", "worker"]], ["log", "info", "after"]]},
                                  {"name": "t1", "acts": [["log", "info", "m"]], "mode": "run"}]),
         "cli": "at_each_log", "env": None, "variant": 0, "texts": "plain", "backends": ["json", "xml"]},
    ] + [
        # a second run into the same explicitly given report directory (option / variable), which holds the first run's report; no
        # save before the end of the run: whatever a reader finds there meanwhile must be this run's — and the default location
        {"spec": _spec_one_suite([{"name": "t0", "acts": [["log", "info", "m"], ["check", False]], "mode": "run"},
                                  {"name": "t1", "acts": [["log", "info", "m"]], "mode": "run"}]),
         "cli": "at_end_of_tests", "env": None, "variant": 0, "texts": "plain", "backends": ["json", "xml"],
         "rdir": {"via": via, "state": state, "prev_expr": "at_end_of_tests"}}
        for via, state in [("option", "previous"), ("env", "previous"), ("default", "previous"), ("option", "empty"), ("both", "missing"),
                           ("empty-option+env", "file"), ("env", "nested")]
    ]

    def setup(self, ctx):
        from props._cli import real_parser
        real_parser()

    def gen(self, rng, i):
        from props import c10
        texts = rng.choice(["plain", "plain", "safe"])
        spec = c10.gen_real_spec(rng, texts)
        pick = lambda: rng.choice(STATIC_NAMES[:5] * 3 + ["at_each_event", "every_100s", "every 0s", "", "bogus", "at_each_tests"])
        r = rng.random()
        if r < 0.45:
            cli, env = pick(), pick()            # both given: the option must win
        elif r < 0.65:
            cli, env = pick(), None
        elif r < 0.90:
            cli, env = None, pick()
        else:
            cli, env = None, None
        case = {"spec": spec, "cli": cli, "env": env, "variant": rng.randint(0, 3), "texts": texts, "backends": c10.gen_backends(rng)}
        if rng.random() < 0.4:
            case["project_info"] = [[rng.choice(c10.INFO_NAMES), "p%d" % rng.randint(0, 9)] for _ in range(rng.choice([1, 1, 2]))]
            if rng.random() < 0.5:
                case["title"] = "Campaign %d" % rng.randint(0, 9)
        if rng.random() < 0.36:
            # where the report directory comes from and what is at that path when the run starts (a previous run's report: the
            # same project run once before, by the same real entry point, into the same place)
            case["rdir"] = {"via": rng.choice(RDIR_VIAS), "state": rng.choice(RDIR_STATES + ["previous", "previous", "missing"]),
                            "prev_expr": rng.choice(STATIC_NAMES[:5])}
        return case

    def impl(self, case):
        return run_cli(case)

    def oracle(self, case, obs):
        from props import c10
        requested = requested_expr(case["cli"], case["env"])
        raised = obs["outcome"].get("raised")
        stale = stale_failures(obs)
        if stale:
            return stale
        if raised and not obs["events"]:
            # refused before anything ran: only an invalid request may be, and by the documented error class — or a run whose
            # report directory cannot be made (C10 says nothing about a run that never starts)
            if valid_expr(requested) and not dir_unusable(case):
                return [C.Failure("C10/cli/valid-request-refused", "lcc run --save-report %r with $LCC_SAVE_REPORT=%r raised %s: %s"
                                  % (case["cli"], case["env"], raised, obs["outcome"]["text"][:200]))]
            return []
        if not valid_expr(requested):
            return []           # accepted although not documented (e.g. a trailing line feed): nothing is promised
        # (for the wall-clock strategies check_sessions looks at the final save and at the loadability / prefix facts only)
        return c10.check_sessions(obs["events"], obs["handled"], raised, obs["sessions"], obs["status_after"], obs["final_report"],
                                  lambda load: obs["nfs"][load["nf"]], real=True)

    def request(self, case, obs):
        from props import c10
        runs = model_runs(case)
        extra = {"runs": runs} if runs is not None else {}
        if not obs["events"]:
            return dict({"op": "option", "cli": case["cli"], "env": case["env"]}, **extra)
        want = []
        return dict({"op": "snap", "events": R.wire(obs["events"]), "nb_threads": obs["nb_threads"],
                     "strategies": [{"k": "chosen", "cli": case["cli"], "env": case["env"]}], "clock": [0], "want": want}, **extra)

    def compare(self, case, obs, ans):
        if "error" in ans:
            if ans["error"] == "rejected":
                return "the model rejects the expression, the run took place with strategy %s" % (obs["strategy"],)
            return "model error: " + str(ans["error"])
        # which directory the run gets, and what it holds at that moment (`RunStart.startOf` on the history of runs)
        start = ans["starts"][-1] if "starts" in ans else (None if dir_unusable(case) else {"holds": False})
        shown = [x["kind"] for x in obs.get("at_start") or []]
        if start is None and not ("chosen" in ans and ans["chosen"] is None):       # (an invalid expression is refused first)
            if obs["events"] or "raised" not in obs["outcome"]:
                return "the model gives this run no report directory (no session); the real run took place: %s, %d events" % (
                    obs["outcome"], len(obs["events"]))
            if obs["outcome"]["raised"] != "TypeError":
                return "a run whose explicit report directory cannot be made: real %s, modelled TypeError (observation O1)" % (obs["outcome"],)
            if obs.get("dir_untouched") is False:
                return "the refused run changed what was at the path of its report directory"
            return None
        if start is not None and bool(shown) != start["holds"]:
            return "report files in the directory when the run starts: real %s, model holds=%s" % (shown, start["holds"])
        if not obs["events"]:
            if "raised" in obs["outcome"]:
                ok = ans["chosen"] is None and obs["outcome"]["raised"] == "LemoncheesecakeException"
                return None if ok else "real: %s; model chooses %s" % (obs["outcome"], ans["chosen"])
            return "no event was recorded although the run returned %s" % (obs["outcome"],)
        if not (ans["safe"] and ans["wf"] and ans["fresh"]):
            return "the stream recorded from the real run is not accepted: safe=%s wf=%s fresh=%s" % (ans["safe"], ans["wf"], ans["fresh"])
        if ans["handled"] != obs["handled"]:
            return "handled: model %d, real %d" % (ans["handled"], obs["handled"])
        m = ans["strategies"][0]
        requested = requested_expr(case["cli"], case["env"])
        if requested.startswith("every"):
            return None if obs["strategy"]["k"] == "everyN" else "an interval was requested, the run used %s" % (obs["strategy"],)
        for s in obs["sessions"]:
            got = [c["k"] for c in s["copies"]]
            if got != m["saves"]:
                return "%s: save points differ: implementation %s, model (chosenStrategy %r %r) %s" % (
                    s["spec"], got, case["cli"], case["env"], m["saves"])
        return None

    def nontrivial(self, case, obs):
        from props import c10
        return bool(obs["events"]) and c10._results_in(obs["events"]) >= 2 and \
            any(c["k"] < obs["handled"] for s in obs["sessions"] for c in s["copies"])

    def features(self, case, obs):
        cli, env = case["cli"], case["env"]
        cls = lambda v: "absent" if v is None else "empty" if v == "" else "valid" if valid_expr(v) else "invalid"
        f = ["cli=" + cls(cli), "env=" + cls(env), "outcome=" + sorted(obs["outcome"])[0]]
        if cli and env and cli != env:
            f.append("option-and-variable-differ")
            f.append("requested=%s|env=%s" % (cli, env) if valid_expr(cli) and valid_expr(env) and not cli.startswith("every")
                     and not env.startswith("every") else "option-and-variable-differ:other")
        f.append("used=" + str(obs["strategy"] if isinstance(obs["strategy"], str) else obs["strategy"].get("k")))
        if case.get("backends"):
            f.append("reporting=" + "+".join(case["backends"]))
        if case.get("rdir"):
            rd = case["rdir"]
            f.append("report-dir:via=%s" % rd["via"])
            f.append("report-dir:state=%s" % rd["state"])
            f.append("report-dir:%s" % ("run-refused" if not obs["events"] else "run-took-place"))
            if rd["state"] == "previous":
                f.append("report-dir:previous-run-into-the-same-%s" % ("default-location(rotated)" if rd["via"] == "default" else "explicit-directory"))
            if obs.get("at_start"):
                f.append("report-dir:REPORT-FILE-VISIBLE-WHEN-THE-RUN-STARTS")
        if case.get("project_info"):
            f.append("project-build_report_info")
        from props import c10 as _c10
        f += _c10.thread_name_features(case["spec"])
        if case["spec"].get("has_info"):
            f.append("tests-call-add_report_info")
            pnames = {n for n, _ in case.get("project_info") or []}
            tnames = {a[1] for su in _all_suites(case["spec"]["suites"]) for t in su["tests"] for a in t["acts"] if a[0] == "info"}
            if pnames & tnames:
                f.append("test-republishes-a-name-of-the-project-info")
        if obs["events"]:
            f.append("threads=%d" % obs["nb_threads"])
            n = len(obs["sessions"][0]["copies"])
            f.append("saves=%s" % ("0" if n == 0 else "1" if n == 1 else "2-5" if n <= 5 else ">5"))
        return f

    def shrink(self, case):
        from props import c10
        for c in c10.Snap().shrink({"kind": "real", "spec": case["spec"]}):
            yield dict(case, spec=c["spec"])
        if case["variant"]:
            yield dict(case, variant=0)
        if case.get("rdir") and case["rdir"]["via"] not in ("option", "default"):
            yield dict(case, rdir=dict(case["rdir"], via="option"))
        if case.get("project_info"):
            yield {k: v for k, v in case.items() if k not in ("project_info", "title")}
        b = case.get("backends") or []
        for i in range(len(b)):
            if len(b) > 1:
                yield dict(case, backends=b[:i] + b[i + 1:])


# ------------------------------------------------------------------------------------------------
# C10.locale
# ------------------------------------------------------------------------------------------------

LOCALES = {
    "utf8": {"LC_ALL": "C.UTF-8", "PYTHONUTF8": "0"},
    # no locale coercion, no UTF-8 mode: the locale encoding is ASCII ('ANSI_X3.4-1968'), errors are strict
    "ascii": {"LC_ALL": "C", "LANG": "C", "PYTHONCOERCECLOCALE": "0", "PYTHONUTF8": "0"},
}


def run_in_child(case, kinds, expr, locale_name, top):
    """one file session per backend in `kinds` (strategy `expr`), each in a handler loop of its own, on the case's stream, in ONE
    child process under the given locale; the child observes its own saves (real loader, its own locale) and writes the
    observations as JSON.  → {"runs": {kind: observation}, "encoding": the child's locale encoding}"""
    from props import c10
    d = os.path.join(top, locale_name)
    os.makedirs(d)
    casefile = os.path.join(d, "case.json")
    with open(casefile, "w") as fh:
        json.dump({"events": case["events"], "nb_threads": case["nb_threads"], "runs": [[[k, case["variant"], expr]] for k in kinds]}, fh)
    env = {k: v for k, v in os.environ.items() if k not in ("LC_ALL", "LC_CTYPE", "LANG", "PYTHONUTF8", "PYTHONCOERCECLOCALE", "PYTHONIOENCODING")}
    env.update(LOCALES[locale_name], PYTHONDONTWRITEBYTECODE="1", LCC_REPO=str(C.REPO))
    out = os.path.join(d, "obs.json")
    p = subprocess.run([sys.executable, c10.CHILD, "--observe", casefile, os.path.join(d, "run"), out], env=env, capture_output=True,
                       timeout=120)
    if p.returncode != 0 or not os.path.exists(out):
        raise RuntimeError("locale child failed rc=%s: %s" % (p.returncode, p.stderr[-600:].decode("utf-8", "replace")))
    with open(out) as fh:
        res = json.load(fh)
    runs = {}
    for i, kind in enumerate(kinds):
        obs = res["runs"][i]
        # what a reader in the PARENT's (UTF-8) locale finds at the end
        path = os.path.join(d, "run", "r%d" % i, "s0", {"json": "report.js", "xml": "report.xml"}[kind])
        obs["sessions"][0]["parent_final"] = c10.load_nf(path) if os.path.exists(path) else None
        runs[kind] = obs
    return {"runs": runs, "encoding": res["encoding"]}


class Locale(C.Stream):
    name = "C10.locale"
    quick_cases = 7
    thorough_cases = 100
    quick_seconds = 12
    thorough_seconds = 120
    chunk = 4
    corpus = []     # filled by c10.py (needs its corpus events)

    def gen(self, rng, i):
        from props import c10
        texts = rng.choice(["safe", "safe", "wild"])
        for _ in range(20):
            events, nb = c10.gen_stream(rng, max_depth=2, mode=texts, unfinished=0.1)
            prof = c10.text_profile(events)
            if 8 <= len(events) <= 80 and ("non-ascii" in prof or "lone-surrogate" in prof):
                break
        return {"events": events[:80], "nb_threads": nb, "variant": rng.randint(0, 3), "locale": rng.choice(["ascii", "ascii", "utf8"]),
                "strategy": rng.choice(["at_each_log", "at_each_test", "at_each_failed_test", "at_each_suite", "at_end_of_tests"]),
                "texts": texts}

    def impl(self, case):
        top = tempfile.mkdtemp(prefix="lccverif-c10loc-")
        try:
            return run_in_child(case, ("json", "xml"), case["strategy"], case["locale"], top)
        finally:
            shutil.rmtree(top, ignore_errors=True)

    def oracle(self, case, obs):
        from props import c10
        fails = []
        events = case["events"]
        for kind in ("json", "xml"):
            r = obs["runs"][kind]
            nfs = r["nfs"]
            fails += c10.check_sessions(events, r["handled"], r["failure"], r["sessions"], r["status_after"],
                                        r["final_report"] if kind == "json" else None, lambda load, nfs=nfs: nfs[load["nf"]],
                                        locale=case["locale"])
            s = r["sessions"][0]
            if kind == "json" and s["final"] is not None and s["parent_final"] is not None and "nf" in s["final"]:
                if "nf" not in s["parent_final"]:
                    fails.append(C.Failure("C10/locale/unloadable-elsewhere/json",
                                           "report.js written under the %s locale does not load under UTF-8: %s" % (case["locale"], s["parent_final"])))
                elif s["parent_final"]["nf"] != nfs[s["final"]["nf"]]:
                    fails.append(C.Failure("C10/locale/reads-differently-elsewhere/json",
                                           "report.js written under the %s locale loads as another report under UTF-8" % case["locale"]))
        return fails

    def request(self, case, obs):
        from props import c10
        enc = {"ascii": "ascii", "utf8": "utf8"}[case["locale"]]
        return {"op": "snap", "events": R.wire(case["events"]), "nb_threads": case["nb_threads"],
                "strategies": [c10.strat_wire(case["strategy"])], "clock": [0], "want": [],
                "xml_sessions": [{"s": c10.strat_wire(case["strategy"]), "enc": enc}]}

    def compare(self, case, obs, ans):
        from props import c10
        if "error" in ans:
            return "model error: " + str(ans["error"])
        want_enc = {"ascii": ("ansi_x3.4-1968", "ascii", "us-ascii", "646"), "utf8": ("utf-8", "utf8")}[case["locale"]]
        if str(obs.get("encoding", "")).lower() not in want_enc:
            return "the child's locale encoding is %r, expected one of %s" % (obs.get("encoding"), want_enc)
        j = obs["runs"]["json"]
        got = [c["k"] for c in j["sessions"][0]["copies"]]
        if j["failure"] is not None or j["handled"] != ans["handled"] or got != ans["strategies"][0]["saves"]:
            return "json session under the %s locale: handled %d (failure %s), saves %s; model: handled %d, saves %s" % (
                case["locale"], j["handled"], j["failure"], got, ans["handled"], ans["strategies"][0]["saves"])
        x = obs["runs"]["xml"]
        m = dict(ans["xml_sessions"][0])
        if case["locale"] != "utf8":
            # the child loads its files with its own locale; whether an ASCII-only XML file loads is the same question as under UTF-8
            pass
        return c10.compare_xml_session({"handled": x["handled"], "failure": x["failure"], "session": x["sessions"][0]}, m)

    def nontrivial(self, case, obs):
        j = obs["runs"]["json"]
        return len(j["sessions"][0]["copies"]) >= 1 and bool(set(obs_profile(case)) & {"non-ascii", "lone-surrogate"})

    def features(self, case, obs):
        f = ["locale=" + case["locale"], "strategy=" + case["strategy"], "texts=" + case["texts"]]
        f += ["text:" + c for c in obs_profile(case)]
        x = obs["runs"]["xml"]["sessions"][0]
        f.append("xml:" + ("save-raised" if x.get("save_errors") else "saved"))
        f.append("json:saves=%d" % min(len(obs["runs"]["json"]["sessions"][0]["copies"]), 9))
        return f

    def shrink(self, case):
        ev = case["events"]
        for n in (len(ev) // 2, len(ev) * 3 // 4, len(ev) - 1):
            if 2 < n < len(ev):
                yield dict(case, events=ev[:n])


def obs_profile(case):
    from props import c10
    return c10.text_profile(case["events"])

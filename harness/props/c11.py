"""C11 — a failing reporting backend is never silent and never hangs the run."""
import common as C
from props._runcommon import RUN_TRUSTED, RUN_ASSUMPTIONS, PropRunStream
from run import selftest as W
from run import witnesses2 as W2

PROPERTY = "C11"
LEAN_MODULES = ["LccModel.Props.C11", "LccModel.Props.C11Events"]
PROPS_FILES = ["LccModel/Props/C11.lean", "LccModel/Props/C11Events.lean"]
NAMESPACES = {"LccModel/Props/C11.lean": "LccModel.C11", "LccModel/Props/C11Events.lean": "LccModel.C11Events"}
DRIVER = "drivers/Run.lean"
TRUSTED_BASE = RUN_TRUSTED + ["decision table of the real RunContext.is_task_to_be_skipped (harness/props/_skiptable.py), re-proved by `decide +kernel` on every run", "the re-raise of the pending failure at the end of _run_suites (6 lines) is not modelled; the oracle checks the exception the caller sees", "event manager: hand-written model Model/EventManager.lean of events.py AsyncEventManager (fire / _handler_loop / handle_events), tied by the em stream (harness/props/_em.py, drivers/EM.lean) and by the extracted bound of the real queue (table emQueueBound, obligation em_queue_is_unbounded); queue.Queue and thread scheduling are represented by the model's interleaving of `fire` and `handle` steps"]
ASSUMPTIONS = RUN_ASSUMPTIONS + []
RULE = 'generated project (harness/run/gen.py) × nb_threads 1..8 × gate strategy (off/fifo/lifo/random) forcing completion orders; non-trivial = ≥ 2 tests, ≥ 1 body entered, ≥ 8 events; distinct = hash of the case (project + schedule parameters) × (25 %: a keyboard interrupt in the same run, before or after the fault) × backend fault at a random event index k with exception class in {Exception, KeyError, OSError, UnicodeEncodeError, custom, three classes whose constructors reject a single message, StopIteration, StopAsyncIteration; 12 % of the faults: GeneratorExit / SystemExit / KeyboardInterrupt raised inside the handler}; em stream: n ∈ 0..3000 events fired by 1..3 producers into the real AsyncEventManager, 0..2 failing handlers (non-trivial = ≥ 2 events)'
EXPLANATION = "Event manager (Props/C11Events): on an unbounded queue no producer and no exit of handle_events ever blocks, handlers see a prefix of the fired events, nothing is handled after the first failing event and that event is the pending failure — for every failure predicate, event count and interleaving; the unboundedness of the real queue is an extracted fact re-checked on every run, and bounded_queue_can_block shows it is necessary. Termination and exactly-once handling whatever the context answers (Lean theorems for every graph / worker count / interleaving), 'pending failure ⇒ every not-yet-started task is skipped' stated outright and tied to the code by the extracted table; every real run with a failing backend is replayed on the composed model (handled-index order, pending-failure visibility) and the oracle checks the raised error text, body starts after the fault and teardowns."


def witness(title_prefix):
    """corpus case built from the hand-written witness table of harness/run/selftest.py"""
    for title, sig, project, cfg in W.WITNESSES:
        if title.startswith(title_prefix):
            return {"project": dict(project, nb_threads=cfg["n"]), "strategy": cfg["strategy"], "gseed": cfg["gseed"],
                    "interrupt": cfg["interrupt"], "fault": cfg["fault"]}
    raise KeyError(title_prefix)



from props._skiptable import skip_table, run_outcome_table


from props._em import EMStream, em_table, em_join_table


from props import _project


def tables(ctx):
    return [skip_table(), em_table(), em_join_table(), run_outcome_table(), _project.project_run_table()]


class EM(EMStream):
    name = "C11.em"


class Run(PropRunStream):
    name = "C11.run"
    prop = "C11"
    profile = "basic"
    oracles = ("C11",)
    quick_cases = 480
    quick_seconds = 60
    p_fault = 0.7
    p_both = 0.25               # a backend failure and a keyboard interrupt in the same run, in either order
    p_base_fault = 0.12         # ... of which: GeneratorExit / SystemExit / KeyboardInterrupt raised inside the handler (D42, repaired)
    corpus = [witness("D17 "), witness("D10 "), W2.EMPTY_BACKEND_ERROR, W2.FAULT_THEN_INTERRUPT, W2.INTERRUPT_THEN_FAULT] + W2.PROTOCOL_FAULTS


class Project(_project.ProjectRunStream):
    """the same cases started through PreparedProject.run (what `lcc run` calls) of a project with pre_run / post_run hooks"""
    name = "C11.project"
    prop = "C11"
    profile = "basic"
    oracles = ("C11",)
    quick_cases = 160
    quick_seconds = 14
    thorough_cases = 3000
    thorough_seconds = 200
    p_fault = 0.7
    p_both = 0.15
    p_base_fault = 0.1
    corpus = _project.CORPUS


LEAN_MODULES = LEAN_MODULES + ["LccModel.Props.C11Project"]
PROPS_FILES = PROPS_FILES + ["LccModel/Props/C11Project.lean"]
NAMESPACES = dict(NAMESPACES, **{"LccModel/Props/C11Project.lean": "LccModel.C11Project"})
TRUSTED_BASE = TRUSTED_BASE + _project.PROJECT_TRUSTED
RULE = RULE + "; " + _project.PROJECT_RULE


def streams(ctx):
    return [EM(), Project(), Run()]

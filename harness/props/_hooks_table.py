"""
Decision table of the hook discovery of `load_suite_from_class` / `load_suite_from_module` — "hook shape x place x hook name ->
is it a hook of the loaded suite?" — extracted by EXECUTING the real loader on one generated suite per row (renderer of
props/_hooks.py: every shape the language offers at every place it can be written).  `Generated/C03TablesCheck.lean` proves that the
model `Hooks.registers` (= `hasattr` on the attribute layers of the suite object) answers the same on every row, and that the table
covers every well-placed shape x place x hook name.

`survey()` additionally RUNS every row with the real runner and says what happens when the registered object is called
(printed by `python harness/props/_hooks_table.py`; recorded in design.d/hooks-stream.md).
"""
import common as C

from props import _hooks as H

LEAN_SHAPE = {"method": ".method", "staticmethod": ".staticmethod", "classmethod": ".classmethod", "lambda": ".lambdaFn", "function": ".function",
              "boundmethod": ".boundmethod", "partial": ".partialObj", "callable": ".callableObj", "alias": ".alias", "none": ".noneValue",
              "string": ".stringValue"}
LEAN_PLACE = {"body": ".body", "base": ".base", "mixin": ".mixin", "init": ".init", "module": ".module"}


def domain():
    for place in H.PLACES:
        for shape in H.SHAPES_AT[place]:
            for hook in H.HOOKS:
                yield shape, place, hook


def one_case(shape, place, hook):
    kind = "module" if place == "module" else "class"
    return {"suites": [H._s(kind, "probe", [H._h(hook, shape, place)], tests=("t1",))], "nb_threads": 1}


def rows():
    out = []
    for shape, place, hook in domain():
        obs = H.run_case(one_case(shape, place, hook))
        if "hooks" not in obs.get("load", {}):
            raise C.InfraError("hook table: the loader raised on %s@%s/%s: %r" % (shape, place, hook, obs.get("load")))
        h = obs["load"]["hooks"][0][1]
        registered = h.get(hook) is not None
        others = [x for x in H.HOOKS if x != hook and h.get(x) is not None]
        if others:
            raise C.InfraError("hook table: %s@%s/%s also registered %r" % (shape, place, hook, others))
        out.append(("(%s, %s, \"%s\")" % (LEAN_SHAPE[shape], LEAN_PLACE[place], hook), "true" if registered else "false",
                    "%s@%s/%s -> %s" % (shape, place, hook, "registered" if registered else "NOT registered")))
    return out


def tables(ctx):
    return [C.Table("hookShapeTable", "List ((LccModel.Hooks.Shape × LccModel.Hooks.Place × String) × Bool)", rows(),
                    imports=["LccModel.Model.Hooks"])]


def survey():
    """{(shape, place, hook): what the unchanged code does} — loading, validation, run"""
    out = {}
    for shape, place, hook in domain():
        case = one_case(shape, place, hook)
        obs = H.run_case(case)
        h = obs["load"]["hooks"][0][1].get(hook)
        if h is None:
            out[(shape, place, hook)] = "not registered"
            continue
        txt = "registered (%s, params %s)" % (h["type"] if not h["type"].startswith("_C") else "callable object", h["params"])
        if "prepare_error" in obs:
            txt += "; REJECTED at validation: %s: %s" % tuple(obs["prepare_error"])
        elif "run" in obs:
            ran = [e for e in obs["run"]["events"] if e[0] == "hook-end" and e[2] == hook]
            st = [s for _, s, _ in obs["run"].get("tests", [])]
            txt += "; run: hook ran %d time(s), test %s" % (len(ran), "/".join(st))
            if not ran:
                txt += " [never called]" if st == ["passed"] else " [call crashed]"
        out[(shape, place, hook)] = txt
    return out


if __name__ == "__main__":
    import collections
    res = survey()
    groups = collections.OrderedDict()
    for (shape, place, hook), txt in res.items():
        groups.setdefault((shape, hook, txt), []).append(place)
    for (shape, hook, txt), places in groups.items():
        print("%-13s %-15s @%-28s %s" % (shape, hook, ",".join(places), txt))

"""C14 — a project that passes validation cannot fail for structural reasons.

Models: M6 `Model/Fixture.lean`, M7 `Model/Deps.lean`, `Model/Policy.lean`, `Model/Prepare.lean`, `Model/Inject.lean`
(how a suite's injected fixtures are DERIVED from its attribute declarations: naming shape x place of assignment).

Streams
  C14.validate : generated projects (fixture graphs, uses from tests / setup_suite / injected attributes, test
                 dependency graphs, metadata policies + assignments, optional test filter) are built for real
                 (generated Python source, `lcc` decorators, the real loaders, a `Project` subclass) and pushed
                 through the real `PreparedProject.create`.  Accept/reject, the error class and which check fired
                 are compared with the Lean model `Prepare.prepare`; for accepted projects also the resolved
                 dependencies and what `get_fixtures_scheduled_for_*` schedules at every scope instance.
                 The oracle is an independent reference validator written from the property statement.
  C14.run      : every accepted generated project is really run (`PreparedProject.run`, nb_threads in {1, 3},
                 hard time-out) with non-failing bodies: every test must be passed or disabled, the run
                 successful; nothing of the user code may run when the project is rejected.  Every test body
                 READS every injected attribute of its suite and relies on the fixture's value.

Round 3: test callbacks, fixture functions and setup_suite hooks are written in several SHAPES (plain, lambda, a
functools.wraps-based decorator whose wrapper has its own parameters, a real mock.patch, callable object, bound method):
the names a callable needs are READ by the model from the description of how it was written (`Model/Callable.lean`
`neededArgs`, table `callableTable` re-extracted from the real `get_callable_args`), the called callables record the
keyword arguments they receive; `@lcc.fixture(scope, per_thread=True)` is declared for EVERY scope (the decorator's refusal
is the first stage of `Prepare.prepareFull`, table `declTable`).

Injected attributes are declarations `ident = lcc.inject_fixture(fixture | nothing)` with a naming shape (public `x`,
private `_x`, name-mangled `__x`, dunder-like `__x__`) and a place of assignment (class body, base class, `__init__` on the
instance, top level of a suite MODULE); `tables` re-extracts "shape x place -> discovered / assigned" from the real loader.
"""
import functools
import os
import re
import shutil
import sys
import tempfile
import threading
import types
from unittest import mock

import common as C

PROPERTY = "C14"
LEAN_MODULES = ["LccModel.Props.C14", "LccModel.Props.C14Inject", "LccModel.Props.C14Callable", "LccModel.Props.C14Reconfig",
                "LccModel.Props.C14Disk"]
PROPS_FILES = ["LccModel/Props/C14.lean", "LccModel/Props/C14Inject.lean", "LccModel/Props/C14Callable.lean",
               "LccModel/Props/C14Reconfig.lean", "LccModel/Props/C14Disk.lean"]
NAMESPACES = {"LccModel/Props/C14.lean": "LccModel.C14", "LccModel/Props/C14Inject.lean": "LccModel.C14I",
              "LccModel/Props/C14Callable.lean": "LccModel.C14C", "LccModel/Props/C14Reconfig.lean": "LccModel.C14R",
              "LccModel/Props/C14Disk.lean": "LccModel.C14Disk"}
TABLE_OPENS = ("LccModel.Inject", "LccModel.ProjectFiles")
DRIVER = "drivers/C14.lean"
TRUSTED_BASE = [
    "Lean 4.33.0 kernel; axioms of the property theorems ⊆ {propext, Classical.choice, Quot.sound}",
    "hand-written models LccModel/Model/{Fixture,Deps,Policy,PolicySeq,Prepare,Inject,Callable,FixtureDecl}.lean of fixture.py (FixtureRegistry, ScheduledFixtures, "
    "the @lcc.fixture decorator), helpers/introspection.py (get_callable_args: own positional parameters of the called object minus the bound self; "
    "re-extracted on every run over 20 ways of writing a callable x 3 parameter lists, Generated/C14TablesCheck.lean callable_table_agrees), "
    "suite/core.py (resolve_tests_dependencies, Suite._load_injected_fixtures / inject_fixtures), helpers/introspection.py "
    "(get_object_attributes), metadatapolicy.py and project.py (PreparedProject.create)",
    "dir() (alphabetical listing), Python's name mangling of __x inside class bodies and attribute shadowing are represented by "
    "the attribute list handed to the model (effective names computed by the harness, sorted by the driver); the decision "
    "'shape x place -> discovered / assigned' is re-extracted from the real loader on every run (Generated/C14TablesCheck.lean)",
    "one MetadataPolicy object over time (Model/PolicySeq.lean: configure / check sequences; _get_rule_application re-extracted through "
    "add_tag_rule / add_property_rule + a check on all 9 (on_test, on_suite) combinations, Generated/C14TablesCheck.lean "
    "tag_application_table_agrees / prop_application_table_agrees) is tied to the code by C14.reconfig (harness/props/_c14seq.py): "
    "check_test_compliance / check_suite_compliance / check_suites_compliance / PreparedProject.create on ONE policy / Project object, "
    "every verdict also computed by a fresh MetadataPolicy configured with the same calls",
    "projects ON DISK (Model/ProjectFiles.lean): which project load_project designates (argument, $LCC_PROJECT, $LCC_PROJECT_FILE, working directory; "
    "re-extracted from the real load_project / _load_project_from_path on every run: Generated/C14TablesCheck.lean designation_table_agrees (27 rows), "
    "resolution_table_agrees, search_table_agrees) and several preparations in one process (import_module registers in sys.modules and never reads it) "
    "are tied to the code by C14.disk (harness/props/_c14disk.py): the generated projects rendered to project.py / fixtures/fx.py / suites/*.py at fixed "
    "paths, rewritten between preparations, prepared through PreparedProject.create(load_project(..)), cli.main(['check'..]) and cli.main(['run'..])",
    "correspondence harness harness/props/c14.py: generated projects are built with the real decorators/loaders and pushed "
    "through the real PreparedProject.create / PreparedProject.run",
    "the scheduler / task graph (task.py, runner.py build_tasks) is NOT modelled here (M1, M2, M5 belong to C01-C03): the "
    "'runs to an all-passed report' half of the property is tied to the code by the C14.run stream only",
]
ASSUMPTIONS = [
    "test paths are distinct and fixture/suite/test names are Python identifiers (dict keyed by path / by name)",
    "policy rule names are distinct; property values and tags are strings (enforced by the loader)",
    "callable dependencies (`depends_on(lambda test: ...)`) are pure and total; fixture/test/hook bodies do not fail",
    "a declaration refused by the @lcc.fixture decorator (per_thread=True with scope pre_run / test) surfaces as the FixtureLoadingError that "
    "load_fixtures_from_file raises around the decorator's AssertionError (the harness wraps the exec of the generated fixture source the same way): "
    "a rejection before anything executes (stage `decl`), not a ValidationError",
    "callables: positional-only parameters, functools.partial objects (get_callable_args answers ['self'] for them: pinned by callableTable, "
    "not generated in projects) and wrappers whose body does not call the wrapped function correctly are outside the generated class",
    "recursion depth of valid chains stays far below sys.getrecursionlimit() (generated chains <= 8 fixtures, <= 7 tests)",
    "attribute identifiers of a suite are pairwise distinct (no instance attribute shadowing a class attribute of the same name); "
    "InjectedFixture objects returned by properties are not generated (the helper skips properties)",
    "C14.disk: the environment variables designate a loadable project or nothing (cli.main builds the `run` sub-parser with load_project() on EVERY "
    "command, so an unsuitable $LCC_PROJECT makes every command fail before -p is read: outside the statement); project.py files are well-formed; "
    "one fixture module per project; no ancestor of the scratch directory holds project.py / suites",
    "leaf suites without tests are generated rarely (3%): D1 (empty suite + nb_threads >= 2 raised LookupError in on_suite_end) "
    "was repaired in /repo by 273e673; its witness stays in the corpus of C14.run",
]
RULE = ("generated project (fixture / test / setup_suite callables written plain or as lambda / functools.wraps wrapper with own parameters / "
        "mock.patch / callable object / bound method; per_thread for every scope); non-trivial = at least one fixture-to-fixture dependency edge and at least one consumer (test argument, "
        "setup_suite argument or injected attribute); both accepted and rejected projects must appear in a run; "
        "distinct = hash of the whole case")
EXPLANATION = ("Completeness (prepare = ok iff declarative validity; errors are ValidationError classes; recursion bounds suffice on "
               "ALL inputs) and run-time soundness of the fixture machinery are Lean theorems (LccModel.C14.*); the models are tied "
               "to the code by C14.validate (exact error kind and scheduling lists) and the run half by C14.run.  The fixture names a "
               "callable needs are the own positional parameters of the object that is called, whatever it wraps (C14C.needed_ignores_wrapped, "
               "callable_arguments_found; table callableTable), and a per-thread fixture of an accepted project has scope session or suite "
               "(C14C.prepareFull_accepts_iff, refused_declaration_never_accepted; table declTable).  "
               "A policy object that is reconfigured between checks applies, at every check, the rules as they are at that moment "
               "(C14R.check_verdict_current_rules, earlier_checks_invisible, forbidden_tag_rejected_after_reconfiguration; stream C14.reconfig).  "
               "The project that is judged is the DESIGNATED one (-p before $LCC_PROJECT before $LCC_PROJECT_FILE before the working directory: "
               "C14Disk.argument_wins, verdict_of_designated_project; tables designationTable / resolutionTable / searchTable) and it is judged by its "
               "files as they are at that preparation, whatever the process prepared before (C14Disk.checks_reflect_current_files, "
               "kth_check_accepts_iff_valid_now; stream C14.disk).")

SCOPE_LEVEL = {"test": 1, "suite": 2, "session": 3, "pre_run": 4}
BUILTINS = ("cli_args", "project_dir")

# --------------------------------------------------------------------------------------------
# user-code counter (generated fixtures / hooks / bodies call `hit`)
# --------------------------------------------------------------------------------------------
_HITS = []


def hit(tag):
    _HITS.append(tag)


def chk_inj(holder, suite_path, attr, expected, test_path):
    """What a correct test body does with an injected attribute: it READS it and relies on the fixture's value.
    `holder` is the suite object (class-based suite) or the module's globals."""
    from lemoncheesecake.suite.core import InjectedFixture

    missing = object()
    v = holder.get(attr, missing) if isinstance(holder, dict) else getattr(holder, attr, missing)
    if v is missing or isinstance(v, InjectedFixture) or (expected is not None and v != expected):
        hit("inj-miss:%s:%s:%s" % (suite_path, attr, test_path))
        return "injected attribute %s of suite %s does not hold the value of its fixture: %r" % (attr, suite_path, v)
    hit("inj-ok:%s:%s:%s" % (suite_path, attr, test_path))
    return None


def rec(tag, **kw):
    """the callable the framework really CALLS records the keyword arguments it received"""
    _HITS.append("args:%s:%s" % (tag, ",".join("%s=%s" % (k, v if isinstance(v, (str, int)) else type(v).__name__)
                                               for k, v in sorted(kw.items()))))


# --------------------------------------------------------------------------------------------
# callables: HOW a test / fixture / setup_suite callable is written (round 3, seeded C14-7)
#   plain   an ordinary function / method
#   lambda  (fixtures) a lambda
#   wraps   a `functools.wraps`-based decorator whose wrapper has its OWN explicit parameters: it renames them for the
#           wrapped function (`w_<name>`) and supplies one more (`sup`) itself
#   patch   a real `unittest.mock.patch("os.getcwd")`: the wrapper is `patched(*args, **kwargs)`, the wrapped function
#           takes the mock — the callable that is called has NO named parameter (only generated where nothing is needed)
#   cobj    (fixtures) an instance of a class defining `__call__(self, ...)`
#   bound   (fixtures) a bound method of a holder object, decorated in the class body
# The fixture names a callable NEEDS are the positional parameters of the object that is really called (minus `self`).
# --------------------------------------------------------------------------------------------
TEST_CALLS = ("plain", "wraps", "patch")
DECL_CALLS = ("plain", "lambda", "wraps", "patch", "cobj", "bound")


def inner_params(own):
    """parameters of the function wrapped by a `wraps` / `patch` callable whose own parameters are `own`"""
    return ["w_" + a for a in own] + ["sup"]


def call_kind(x, key="call"):
    """the shape a test / fixture declaration / suite (key `setup_call`) is written in, normalised: a `patch` callable
    that needs something is written as `wraps`; generator fixtures are never lambdas / patched functions"""
    kind = x.get(key) or "plain"
    own = x.get("setup_args") if key == "setup_call" else (x["args"] if "args" in x else x.get("params"))
    if kind == "patch" and (own or x.get("gen")):
        return "wraps"
    if kind == "lambda" and x.get("gen"):
        return "plain"
    return kind


def callable_desc(kind, own, in_class):
    """the callable as it is WRITTEN, for the Lean model (`Model/Callable.lean`): {kind, params, wrapped?}"""
    self_ = ["self"] if in_class else []
    if kind == "patch":
        return {"kind": "boundMethod" if in_class else "function", "params": [], "wrapped": self_ + list(own) + ["m"]}
    if kind == "wraps":
        return {"kind": "boundMethod" if in_class else "function", "params": self_ + list(own),
                "wrapped": self_ + inner_params(own)}
    if kind == "cobj":
        return {"kind": "callableObject", "params": ["self"] + list(own)}
    if kind == "bound":
        return {"kind": "boundMethod", "params": ["self"] + list(own)}
    return {"kind": "boundMethod" if in_class else "function", "params": self_ + list(own)}     # plain, lambda


def _kwargs_src(names):
    return ", ".join("%s=%s" % (n, n) for n in names)


# --------------------------------------------------------------------------------------------
# injected attributes: `ident = lcc.inject_fixture(fixture)` with a naming shape and a place of assignment
# --------------------------------------------------------------------------------------------
SHAPES = ("pub", "priv", "mangled", "dunder")
PLACES = ("body", "base", "init", "module")
SHAPE_IDENTS = {      # representative identifiers of every naming shape (tables); the first one decorates generated idents
    "pub": ["x", "x_", "x__", "a_b"],
    "priv": ["_x", "_x_", "_x__"],
    "mangled": ["__x", "__x_", "___x"],
    "dunder": ["__x__", "___x___", "__x_y__"],
}


def shape_of(ident):
    """naming shape of an identifier as written in the source"""
    if ident.startswith("__") and ident.endswith("__") and len(ident) > 4:
        return "dunder"
    if ident.startswith("__"):
        return "mangled"      # Python mangles `__x` inside a class body to `_Cls__x`
    if ident.startswith("_"):
        return "priv"
    return "pub"


def decorate(base, shape):
    return {"pub": base, "priv": "_" + base, "mangled": "__" + base, "dunder": "__" + base + "__"}[shape]


def base_class_name(s):
    return "B_" + s["name"]


def effective_name(s, a):
    """the key under which `dir()` lists the attribute (Python's name mangling inside class bodies)"""
    if a["place"] == "module" or shape_of(a["ident"]) != "mangled":
        return a["ident"]
    owner = base_class_name(s) if a["place"] == "base" else s["name"]
    return "_" + owner.lstrip("_") + a["ident"]


def attr_key(s, a):
    """the fixture the attribute names (`inject_fixture()` without a name: the variable's own name)"""
    return a["fixture"] or effective_name(s, a)


def attr_class(s, a, fine=True):
    """input class of an injected attribute: shape@place (features) / shape@class|module (signatures)"""
    pl = a["place"] if fine else ("module" if a["place"] == "module" else "class")
    return "%s@%s" % (shape_of(a["ident"]), pl)


def suite_uses(s, drop=()):
    """the property's reading: EVERY injected attribute of the suite is a fixture use, then the setup_suite arguments"""
    return [attr_key(s, a) for a in s["attrs"] if attr_class(s, a, fine=False) not in drop] + list(s["setup_args"] or [])


def exonerated_by_sibling(s, a, spath, tpath, hits):
    """some other attribute of suite `s` with the same input class (shape@class|module) that injects the same fixture
    as `a` held its value when the same test read it"""
    for b in s["attrs"]:
        if b is not a and attr_key(s, b) == attr_key(s, a) and attr_class(s, b, fine=False) == attr_class(s, a, fine=False):
            if ("inj-ok:%s:%s:%s" % (spath, effective_name(s, b), tpath)) in hits:
                return True
    return False


def dup_keys(s):
    keys = [attr_key(s, a) for a in s["attrs"]]
    return {k for k in keys if keys.count(k) > 1}


# --------------------------------------------------------------------------------------------
# decision tables, extracted by EXECUTING the real loader on every naming shape x place of assignment
# --------------------------------------------------------------------------------------------

def _probe_suite(ident, place, arg_src, twice=False):
    """a real suite holding `ident = lcc.inject_fixture(<arg_src>)` at `place` (with `twice`: and a public attribute
    `zz = lcc.inject_fixture(<arg_src>)` beside it, in the class body / the module), loaded by the real loader
    -> (Suite, holder object or module, name under which Python stores the attribute)"""
    import lemoncheesecake.api as lcc
    from lemoncheesecake.suite import load_suite_from_class, load_suite_from_module

    s = {"name": "K", "kind": "module" if place == "module" else "class"}
    a = {"ident": ident, "place": place, "fixture": "f"}
    inj = "lcc.inject_fixture(%s)" % arg_src
    if place == "module":
        mod = types.ModuleType("K")
        mod.__file__ = os.path.join(tempfile.gettempdir(), "K.py")
        mod.lcc = lcc
        exec("%s = %s\n%s@lcc.test('t')\ndef t():\n    pass\n" % (ident, inj, "zz = %s\n" % inj if twice else ""), mod.__dict__)
        suite = load_suite_from_module(mod)
    else:
        src = {"body": "@lcc.suite('K')\nclass K:\n    %s = %s\n",
               "base": "class B_K:\n    %s = %s\n@lcc.suite('K')\nclass K(B_K):\n    pass\n",
               "init": "@lcc.suite('K')\nclass K:\n    def __init__(self):\n        self.%s = %s\n"}[place] % (ident, inj)
        if twice:
            src += "    zz = %s\n" % inj
        src += "    @lcc.test('t')\n    def t(self):\n        pass\n"
        ns = {"lcc": lcc}
        exec(src, ns)
        suite = load_suite_from_class(ns["K"])
    return suite, suite.obj, effective_name(s, a)


def tables(ctx):
    """`discoveryTable` / `assignTable`: (naming shape, place) -> is `ident = lcc.inject_fixture("f")` seen as a fixture use by
    the loaded suite / does `Suite.inject_fixtures` give the attribute its value; one row per representative identifier.
    `twiceTable`: the same with a public attribute `zz` injecting the SAME fixture beside it -> do BOTH hold the value (D35).
    `keyTable`: inject_fixture() / inject_fixture("") / inject_fixture("f") -> does the attribute's own name name the fixture."""
    lean_shape = {"pub": "Shape.pub", "priv": "Shape.priv", "mangled": "Shape.mangled", "dunder": "Shape.dunder"}
    lean_place = {"body": "Place.body", "base": "Place.base", "init": "Place.init", "module": "Place.module"}
    disc, asg = [], []
    sentinel = object()
    for shape in SHAPES:
        for place in PLACES:
            for ident in SHAPE_IDENTS[shape]:
                assert shape_of(ident) == shape
                suite, holder, eff = _probe_suite(ident, place, "'f'")
                names = list(suite.get_injected_fixture_names())
                found = "f" in names
                suite.inject_fixtures({n: sentinel for n in names})
                got = (holder.__dict__ if place == "module" else vars(holder)).get(eff) is sentinel
                key = "(%s, %s)" % (lean_shape[shape], lean_place[place])
                disc.append((key, "true" if found else "false", {"ident": ident, "place": place, "discovered": found}))
                asg.append((key, "true" if got else "false", {"ident": ident, "place": place, "assigned": got}))
    # the same fixture injected through TWO attributes of the suite (D35): do BOTH receive the value?
    twice = []
    for shape in SHAPES:
        for place in PLACES:
            for ident in SHAPE_IDENTS[shape]:
                suite, holder, eff = _probe_suite(ident, place, "'f'", twice=True)
                names = list(suite.get_injected_fixture_names())
                suite.inject_fixtures({n: sentinel for n in names})
                d = holder.__dict__ if place == "module" else vars(holder)
                both = d.get(eff) is sentinel and d.get("zz") is sentinel
                twice.append(("(%s, %s)" % (lean_shape[shape], lean_place[place]), "true" if both else "false",
                              {"ident": ident, "place": place, "beside": "zz", "names": names, "both_assigned": both}))
    keys = []
    for arg_src, lean in (("", "none"), ("''", 'some ""'), ("'f'", 'some "f"')):
        suite, _, _ = _probe_suite("zz", "body", arg_src)
        own = list(suite.get_injected_fixture_names()) == ["zz"]
        keys.append((lean, "true" if own else "false", {"inject_fixture": arg_src, "uses_attribute_name": own}))
    imp = ("LccModel.Model.Inject",)
    impc = ("LccModel.Model.Callable",)
    from props import _c14seq
    app_tag, app_prop = _c14seq.application_rows()
    imps = ("LccModel.Model.PolicySeq",)
    from props import _c14disk
    return _c14disk.tables() + [C.Table("tagApplicationTable", "List ((Option Bool × Option Bool) × Option (Bool × Bool))", app_tag, imports=imps),
            C.Table("propApplicationTable", "List ((Option Bool × Option Bool) × Option (Bool × Bool))", app_prop, imports=imps),
            C.Table("discoveryTable", "List ((Shape × Place) × Bool)", disc, imports=imp),
            C.Table("assignTable", "List ((Shape × Place) × Bool)", asg, imports=imp),
            C.Table("twiceTable", "List ((Shape × Place) × Bool)", twice, imports=imp),
            C.Table("keyTable", "List (Option String × Bool)", keys, imports=imp),
            C.Table("callableTable", "List (LccModel.Callable.Callable × List String)", callable_rows(), imports=impc),
            C.Table("declTable", "List ((LccModel.Fixture.Scope × Bool) × Bool)", decl_rows(), imports=impc)]


def _lean_strs(l):
    return "[" + ", ".join('"%s"' % x for x in l) + "]"


def callable_shapes(own):
    """(shape name, real callable object, description of HOW it was written) for every way a test / fixture / hook
    callable with the own positional parameters `own` can be written"""
    inner = inner_params(own)
    ns = {"functools": functools, "mock": mock}
    P, SP, IP, SIP = (", ".join(x) for x in (own, ["self"] + own, inner, ["self"] + inner))
    CP = ", ".join(["cls"] + own)
    src = """
def plain(%(P)s): pass
lam = lambda %(P)s: 0
def genf(%(P)s): yield 0
def defaults(%(P)s%(sep)sq=1, *va, k=2, **kw): pass
def inner(%(IP)s): pass
@functools.wraps(inner)
def wraps(%(P)s): pass
@functools.wraps(wraps)
def wraps2(%(P)s%(sep)sextra): pass
@functools.wraps(inner)
def varargs(*args, **kwargs): pass
@mock.patch('os.getcwd')
def patched(%(P)s%(sep)sm): pass
@mock.patch('os.getcwd')
@functools.wraps(inner)
def patched_wraps(%(P)s%(sep)sm): pass
partial = functools.partial(plain)
partial_kw = functools.partial(inner, sup=0)
class CO:
    def __call__(%(SP)s): pass
class COW:
    def inner(%(SIP)s): pass
    @functools.wraps(inner)
    def __call__(%(SP)s): pass
class H:
    def method(%(SP)s): pass
    def inner(%(SIP)s): pass
    @functools.wraps(inner)
    def mwraps(%(SP)s): pass
    @mock.patch('os.getcwd')
    def mpatched(%(SP)s, m): pass
    @staticmethod
    def static(%(P)s): pass
    @classmethod
    def classm(%(CP)s): pass
    @staticmethod
    @functools.wraps(inner)
    def swraps(%(P)s): pass
""" % {"P": P, "SP": SP, "IP": IP, "SIP": SIP, "CP": CP, "sep": ", " if own else ""}
    exec(src, ns)
    h = ns["H"]()
    self_ = ["self"]
    return [
        ("def", ns["plain"], {"kind": "function", "params": own}),
        ("lambda", ns["lam"], {"kind": "function", "params": own}),
        ("generator-function", ns["genf"], {"kind": "function", "params": own}),
        ("def-with-default-varargs-kwonly", ns["defaults"], {"kind": "function", "params": own + ["q"]}),
        ("wraps", ns["wraps"], {"kind": "function", "params": own, "wrapped": inner}),
        ("wraps-of-wraps", ns["wraps2"], {"kind": "function", "params": own + ["extra"], "wrapped": own}),
        ("wraps-varargs", ns["varargs"], {"kind": "function", "params": [], "wrapped": inner}),
        ("mock.patch", ns["patched"], {"kind": "function", "params": [], "wrapped": own + ["m"]}),
        ("mock.patch-of-wraps", ns["patched_wraps"], {"kind": "function", "params": [], "wrapped": own + ["m"]}),
        ("partial", ns["partial"], {"kind": "partialObject", "params": own}),
        ("partial-binding-a-keyword", ns["partial_kw"], {"kind": "partialObject", "params": inner}),
        ("callable-object", ns["CO"](), {"kind": "callableObject", "params": self_ + own}),
        ("callable-object-wraps", ns["COW"](), {"kind": "callableObject", "params": self_ + own, "wrapped": self_ + inner}),
        ("bound-method", h.method, {"kind": "boundMethod", "params": self_ + own}),
        ("bound-method-wraps", h.mwraps, {"kind": "boundMethod", "params": self_ + own, "wrapped": self_ + inner}),
        ("bound-method-mock.patch", h.mpatched, {"kind": "boundMethod", "params": [], "wrapped": self_ + own + ["m"]}),
        ("staticmethod", h.static, {"kind": "function", "params": own}),
        ("staticmethod-wraps", h.swraps, {"kind": "function", "params": own, "wrapped": inner}),
        ("classmethod", h.classm, {"kind": "boundMethod", "params": ["cls"] + own}),
        ("function-read-from-the-class", ns["H"].method, {"kind": "function", "params": self_ + own}),
    ]


def lean_callable(desc):
    w = desc.get("wrapped")
    return "⟨LccModel.Callable.Kind.%s, %s, %s⟩" % (desc["kind"], _lean_strs(desc["params"]),
                                                    "none" if w is None else "some " + _lean_strs(w))


def callable_rows():
    """`callableTable`: the REAL `get_callable_args` on every way of writing a callable x own parameter lists of length 0..2;
    the row's input is the description of how the callable was written (never an introspection result)"""
    from lemoncheesecake.helpers.introspection import get_callable_args

    rows = []
    for own in ([], ["a"], ["a", "b"]):
        for name, obj, desc in callable_shapes(own):
            got = list(get_callable_args(obj))
            rows.append((lean_callable(desc), _lean_strs(got), {"shape": name, "own": own, "written": desc, "get_callable_args": got}))
    return rows


def decl_rows():
    """`declTable`: the REAL `@lcc.fixture(scope=…, per_thread=…)` decorator on all 4 x 2 combinations -> accepted?
    (the same extraction as C15's `declTable`; here it feeds `prepareFull`)"""
    import lemoncheesecake.api as lcc

    rows = []
    for scope, lscope in (("test", "test"), ("suite", "suite"), ("session", "session"), ("pre_run", "preRun")):
        for pt in (False, True):
            def f():
                pass
            try:
                lcc.fixture(names=["x"], scope=scope, per_thread=pt)(f)
                ok = True
            except (AssertionError, ValueError):
                ok = False
            rows.append(("(LccModel.Fixture.Scope.%s, %s)" % (lscope, "true" if pt else "false"), "true" if ok else "false",
                         {"scope": scope, "per_thread": pt, "accepted": ok}))
    return rows


# --------------------------------------------------------------------------------------------
# case -> real project
# --------------------------------------------------------------------------------------------

def _fixture_body(out, pad, i, d):
    out.append("%shit('fixture:%d')" % (pad, i))
    if d.get("gen"):
        out.append("%syield %r" % (pad, d["names"][0]))
        out.append("%shit('teardown:%d')" % (pad, i))
    else:
        out.append("%sreturn %r" % (pad, d["names"][0]))


def fixtures_source(case):
    """one declaration per entry of `decls`, written in the shape `call` says (plain function, lambda, wraps-based
    decorator with its own parameters, real mock.patch, callable object, bound method of a holder object)"""
    out = []
    for i, d in enumerate(case["decls"]):
        kind = call_kind(d)
        own = list(d["params"])
        deco = "lcc.fixture(names=%r, scope=%r, per_thread=%r)" % (list(d["names"]), d["scope"], bool(d["per_thread"]))
        recl = "rec('fixture:%d'%s)" % (i, "".join(", %s=%s" % (a, a) for a in own))
        if kind == "lambda":
            out.append("fx%d = %s(lambda %s: (%s, hit('fixture:%d'), %r)[2])" % (i, deco, ", ".join(own), recl, i, d["names"][0]))
        elif kind == "wraps":
            out.append("def fx%d__inner(%s):" % (i, ", ".join(inner_params(own))))
            _fixture_body(out, "    ", i, d)
            out.append("@" + deco)
            out.append("@functools.wraps(fx%d__inner)" % i)
            out.append("def fx%d(%s):" % (i, ", ".join(own)))
            out.append("    " + recl)
            out.append("    return fx%d__inner(%s)" % (i, ", ".join(["w_%s=%s" % (a, a) for a in own] + ["sup=0"])))
        elif kind == "patch":
            out.append("@" + deco)
            out.append("@mock.patch('os.getcwd')")
            out.append("def fx%d(%s):" % (i, ", ".join(own + ["m"])))
            _fixture_body(out, "    ", i, d)
        elif kind == "cobj":
            out.append("class Fx%d:" % i)
            out.append("    def __call__(%s):" % ", ".join(["self"] + own))
            out.append("        " + recl)
            _fixture_body(out, "        ", i, d)
            out.append("fx%d = %s(Fx%d())" % (i, deco, i))
        elif kind == "bound":
            out.append("class Hx%d:" % i)
            out.append("    @" + deco)
            out.append("    def fx(%s):" % ", ".join(["self"] + own))
            out.append("        " + recl)
            _fixture_body(out, "        ", i, d)
            out.append("fx%d = Hx%d().fx" % (i, i))
        else:
            out.append("@" + deco)
            out.append("def fx%d(%s):" % (i, ", ".join(own)))
            out.append("    " + recl)
            _fixture_body(out, "    ", i, d)
        out.append("")
    return "\n".join(out)


def _fixture_values(case):
    """name -> the value the fixture returns (None: builtin / unknown: any real value will do)"""
    vals = {}
    for d in case["decls"]:
        for n in d["names"]:
            vals[n] = d["names"][0]
    for b in BUILTINS:
        vals[b] = None
    return vals


def _test_source(out, pad, s, path, t, preds, vals, module):
    base = t["name"][:-2] if t["parameters"] else t["name"]
    decos = []
    decos.append("%s@lcc.test(%r)" % (pad, base))
    for k, v in reversed(t["props"]):
        decos.append("%s@lcc.prop(%r, %r)" % (pad, k, v))
    if t["tags"]:
        decos.append("%s@lcc.tags(%s)" % (pad, ", ".join(repr(x) for x in t["tags"])))
    if t["disabled"]:
        decos.append("%s@lcc.disabled()" % pad)
    if t["deps"]:
        ds = []
        for d in t["deps"]:
            if "path" in d:
                ds.append(repr(d["path"]))
            else:
                preds.append(frozenset(d["pred"]))
                ds.append("(lambda test, _s=PREDS[%d]: test.path in _s)" % (len(preds) - 1))
        decos.append("%s@lcc.depends_on(%s)" % (pad, ", ".join(ds)))
    if t["parameters"]:
        decos.append("%s@lcc.parametrized([%s])" % (pad, "{" + ", ".join("%r: 1" % p for p in t["parameters"]) + "}"))
    kind = call_kind(t)
    self_ = [] if module else ["self"]
    tp = "%s.%s" % (path, t["name"])
    own = list(t["args"])
    recl = "%s    rec('test:%s'%s)" % (pad, tp, "".join(", %s=%s" % (a, a) for a in own))
    if kind == "wraps":
        # decorators are applied to the WRAPPER (the object the framework calls); the body lives in the wrapped function
        # (a decorator `_wr_<name>` applied to the function that bears the test's name: the test is named after `__name__`,
        #  which functools.wraps copies from the wrapped function)
        out.append("%sdef _wr_%s(f):" % (pad, base))
        out.append("%s    @functools.wraps(f)" % pad)
        out.append("%s    def wrapper(%s):" % (pad, ", ".join(self_ + own)))
        out.append("    " + recl)
        out.append("%s        return f(%s)" % (pad, ", ".join(self_ + ["w_%s=%s" % (a, a) for a in own] + ["sup=0"])))
        out.append("%s    return wrapper" % pad)
        out.extend(decos)
        out.append("%s@_wr_%s" % (pad, base))
        out.append("%sdef %s(%s):" % (pad, base, ", ".join(self_ + inner_params(own))))
        _test_body(out, pad, s, path, t, tp, vals, module)
        return
    out.extend(decos)
    if kind == "patch":
        out.append("%s@mock.patch('os.getcwd')" % pad)
        out.append("%sdef %s(%s):" % (pad, base, ", ".join(self_ + own + ["m"])))
        _test_body(out, pad, s, path, t, tp, vals, module)
        return
    out.append("%sdef %s(%s):" % (pad, base, ", ".join(self_ + own)))
    out.append(recl)
    _test_body(out, pad, s, path, t, tp, vals, module)


def _test_body(out, pad, s, path, t, tp, vals, module):
    out.append("%s    hit('test:%s')" % (pad, tp))
    # a correct test body READS every injected attribute of its suite and relies on the fixture's value
    if s["attrs"]:
        out.append("%s    bad = [m for m in (" % pad)
        for a in s["attrs"]:
            out.append("%s        chk_inj(%s, %r, %r, %r, %r)," % (pad, "globals()" if module else "self", path, effective_name(s, a),
                                                               vals.get(attr_key(s, a)), tp))
        out.append("%s    ) if m]" % pad)
        out.append("%s    assert not bad, bad" % pad)


def _suite_source(s, path, ind, preds, vals):
    """a class-based suite (possibly with a base class and an `__init__`) or, at the top level, a suite MODULE"""
    module = s.get("kind") == "module"
    pad = "    " * ind
    out = []
    if module:
        info = {"description": s["name"]}
        if s["props"]:
            info["properties"] = {k: v for k, v in s["props"]}
        if s["tags"]:
            info["tags"] = list(s["tags"])
        out.append("SUITE = %r" % info)
        p1 = pad
    else:
        based = [a for a in s["attrs"] if a["place"] == "base"]
        if based:
            out.append("%sclass %s:" % (pad, base_class_name(s)))
            for a in based:
                out.append("%s    %s = lcc.inject_fixture(%s)" % (pad, a["ident"], repr(a["fixture"]) if a["fixture"] is not None else ""))
        out.append("%s@lcc.suite(%r)" % (pad, s["name"]))
        for k, v in reversed(s["props"]):       # decorators apply bottom-up: the dict order is the case's order
            out.append("%s@lcc.prop(%r, %r)" % (pad, k, v))
        if s["tags"]:
            out.append("%s@lcc.tags(%s)" % (pad, ", ".join(repr(t) for t in s["tags"])))
        if s["disabled"]:
            out.append("%s@lcc.disabled()" % pad)
        out.append("%sclass %s%s:" % (pad, s["name"], "(%s)" % base_class_name(s) if based else ""))
        p1 = pad + "    "
        out.append("%spass" % p1)
    self_ = [] if module else ["self"]
    for a in s["attrs"]:
        if a["place"] in ("body", "module"):
            out.append("%s%s = lcc.inject_fixture(%s)" % (p1, a["ident"], repr(a["fixture"]) if a["fixture"] is not None else ""))
    inits = [a for a in s["attrs"] if a["place"] == "init"]
    if inits:
        out.append("%sdef __init__(self):" % p1)
        for a in inits:
            out.append("%s    self.%s = lcc.inject_fixture(%s)" % (p1, a["ident"], repr(a["fixture"]) if a["fixture"] is not None else ""))
    if s["setup_args"] is not None:
        kind = call_kind(s, "setup_call")
        own = list(s["setup_args"])
        recl = "%s    rec('setup_suite:%s'%s)" % (p1, path, "".join(", %s=%s" % (a, a) for a in own))
        if kind == "wraps":
            out.append("%sdef setup_suite__inner(%s):" % (p1, ", ".join(self_ + inner_params(own))))
            out.append("%s    hit('setup_suite:%s')" % (p1, path))
            out.append("%s@functools.wraps(setup_suite__inner)" % p1)
            out.append("%sdef setup_suite(%s):" % (p1, ", ".join(self_ + own)))
            out.append(recl)
            out.append("%s    return %ssetup_suite__inner(%s)" % (p1, "" if module else "self.",
                                                                ", ".join(["w_%s=%s" % (a, a) for a in own] + ["sup=0"])))
        elif kind == "patch":
            out.append("%s@mock.patch('os.getcwd')" % p1)
            out.append("%sdef setup_suite(%s):" % (p1, ", ".join(self_ + own + ["m"])))
            out.append("%s    hit('setup_suite:%s')" % (p1, path))
        else:
            out.append("%sdef setup_suite(%s):" % (p1, ", ".join(self_ + own)))
            out.append(recl)
            out.append("%s    hit('setup_suite:%s')" % (p1, path))
    if s.get("teardown"):
        out.append("%sdef teardown_suite(%s):" % (p1, ", ".join(self_)))
        out.append("%s    hit('teardown_suite:%s')" % (p1, path))
    if s.get("test_hooks"):
        out.append("%sdef setup_test(%s):" % (p1, ", ".join(self_ + ["test"])))
        out.append("%s    hit('setup_test:%s')" % (p1, path))
        out.append("%sdef teardown_test(%s):" % (p1, ", ".join(self_ + ["test", "status"])))
        out.append("%s    hit('teardown_test:%s')" % (p1, path))
    for t in s["tests"]:
        _test_source(out, p1, s, path, t, preds, vals, module)
    for sub in s["subs"]:
        out.extend(_suite_source(sub, path + "." + sub["name"], ind + (0 if module else 1), preds, vals))
    out.append("")
    return out


def suites_source(case):
    """-> ([(suite, source)], preds): one source text per top-level suite (a suite module is its own namespace)"""
    preds = []
    vals = _fixture_values(case)
    out = []
    for s in case["suites"]:
        out.append((s, "\n".join(_suite_source(s, s["name"], 0, preds, vals))))
    return out, preds


def build_policy(pol):
    from lemoncheesecake.metadatapolicy import MetadataPolicy

    mp = MetadataPolicy()
    for r in pol["props"]:
        mp.add_property_rule(r["name"], accepted_values=(tuple(r["values"]) if r["values"] else None),
                             on_test=r["on_test"], on_suite=r["on_suite"], required=r["required"])
    for r in pol["tags"]:
        mp.add_tag_rule(r["name"], on_test=r["on_test"], on_suite=r["on_suite"])
    if pol["no_unknown_props"]:
        mp.disallow_unknown_properties()
    if pol["no_unknown_tags"]:
        mp.disallow_unknown_tags()
    return mp


def make_project(case, top):
    """A real `Project` whose suites / fixtures are (re)loaded from generated source on every call, like a
    project on disk: two calls of `load_suites()` return distinct objects."""
    import lemoncheesecake.api as lcc
    from lemoncheesecake.project import Project
    from lemoncheesecake.suite import load_suites_from_classes, load_suite_from_module
    from lemoncheesecake.fixture import load_fixtures_from_func
    from lemoncheesecake.exceptions import FixtureLoadingError, serialize_current_exception

    fsrc = fixtures_source(case)
    ssrcs, preds = suites_source(case)
    compiled = [(s, compile(src, "<c14-suite-%s>" % s["name"], "exec")) for s, src in ssrcs]

    class GenProject(Project):
        def __init__(self):
            Project.__init__(self, top)
            self.metadata_policy = build_policy(case["policy"])

        def load_suites(self):
            out = []
            for s, code in compiled:
                if s.get("kind") == "module":
                    # a suite module: `load_suite_from_module` on a real module object
                    mod = types.ModuleType(s["name"])
                    mod.__file__ = os.path.join(top, s["name"] + ".py")
                    mod.__dict__.update({"lcc": lcc, "hit": hit, "rec": rec, "chk_inj": chk_inj, "PREDS": preds, "functools": functools, "mock": mock})
                    exec(code, mod.__dict__)
                    suite = load_suite_from_module(mod)
                    if not suite.hidden:
                        out.append(suite)
                else:
                    ns = {"lcc": lcc, "hit": hit, "rec": rec, "chk_inj": chk_inj, "PREDS": preds, "functools": functools, "mock": mock}
                    exec(code, ns)
                    out.extend(load_suites_from_classes([ns[s["name"]]]))
            return out

        def load_fixtures(self):
            ns = {"lcc": lcc, "hit": hit, "rec": rec, "functools": functools, "mock": mock}
            try:
                exec(compile(fsrc, "<c14-fixtures>", "exec"), ns)
            except Exception:
                # what `load_fixtures_from_file` does with an exception raised while the fixture file is imported
                # (`import_module` -> ModuleImportError -> FixtureLoadingError): e.g. the @lcc.fixture decorator refusing
                # a (scope, per_thread) combination
                raise FixtureLoadingError("Error while importing file '%s': %s" % (
                    os.path.join(top, "fixtures.py"), serialize_current_exception(show_stacktrace=True)))
            out = []
            for i in range(len(case["decls"])):
                out.extend(load_fixtures_from_func(ns["fx%d" % i]))
            return out

    return GenProject()


_PATTERNS = [
    ("policy", "prop-not-allowed", r"In (?:test|suite) '(.+)', the property '(.+)' is not allowed \((?:available are|no property)", (0, 1)),
    ("policy", "prop-forbidden", r"In (?:test|suite) '(.+)', the property '(.+)' is not allowed on a (?:test|suite)$", (0, 1)),
    ("policy", "prop-missing", r"In (?:test|suite) '(.+)', the mandatory property '(.+)' is missing", (0, 1)),
    ("policy", "prop-bad-value", r"In (?:test|suite) '(.+)', value '(.+)' of property '(.+)' is not among accepted values", (0, 2, 1)),
    ("policy", "tag-not-allowed", r"In (?:test|suite) '(.+)', the tag '(.+)' is not allowed \((?:available are|no tag)", (0, 1)),
    ("policy", "tag-forbidden", r"In (?:test|suite) '(.+)', the tag '(.+)' is not allowed on a (?:test|suite)$", (0, 1)),
    ("deps", "unknown", r"Cannot find dependency test '(.+)' for '(.+)'", (1, 0)),
    ("deps", "circular", r"Got circular dependency on test (\S+) through test (\S+)", (0, 1)),
    ("deps", "not-scheduled", r"test dependency '(.+)' of '(.+)' is not going to be run", (1, 0)),
    ("fixture", "builtin-name", r"'(.+)' is a builtin fixture name", (0,)),
    ("fixture", "forbidden-name", r"Fixture name '(.+)' is forbidden", (0,)),
    ("fixture", "circular", r"Fixture params .* have circular dependency on a fixture among", ()),
    ("fixture", "unknown-param", r"Fixture '(.+)' used by fixture '(.+)' does not exist", (0, 1)),
    ("fixture", "per-thread-dep", r"Fixture '(.+)' with scope '.+' is incompatible with per-thread fixture '(.+)'", (0, 1)),
    ("fixture", "scope-inversion", r"Fixture '(.+)' with scope '.+' is incompatible with scope '.+' of fixture '(.+)'", (0, 1)),
    ("fixture", "suite-unknown", r"Suite '(.+)' uses an unknown fixture '(.+)'", (0, 1)),
    ("fixture", "suite-per-thread", r"Suite '(.+)' uses per-thread fixture '(.+)' which is not allowed", (0, 1)),
    ("fixture", "suite-scope", r"Suite '(.+)' uses fixture '(.+)' which has an incompatible scope", (0, 1)),
    ("fixture", "test-unknown", r"Unknown fixture '(.+)' used in test '(.+)'", (1, 0)),
]


def classify(msg):
    for stage, kind, pat, order in _PATTERNS:
        m = re.search(pat, msg)
        if m:
            g = m.groups()
            return stage, kind, [g[i] for i in order]
    return "?", "?", []


def prepare_real(case, top):
    """-> (prepared | None, observation)"""
    from lemoncheesecake.project import PreparedProject
    from lemoncheesecake.exceptions import ValidationError, FixtureLoadingError
    from lemoncheesecake.testtree import filter_suites, flatten_tests, flatten_suites

    project = make_project(case, top)
    del _HITS[:]
    try:
        # lemoncheesecake keeps every decorated object in a module-level list that is scanned linearly by every
        # decorator call; thousands of generated projects in one process make that quadratic.  Objects of earlier
        # cases are dead, so the list can be emptied between cases.
        import lemoncheesecake.suite.builder as _b
        del _b._objects_with_metadata[:]
    except Exception:
        pass
    try:
        if case["keep"] is None:
            prepared = PreparedProject.create(project)            # what `lcc check` does
        else:
            keep = set(case["keep"])
            suites = filter_suites(project.load_suites(), lambda t: t.path in keep)   # what `lcc run <filter>` does
            prepared = PreparedProject.create(project, suites, cli_args=())
    except ValidationError as e:
        stage, kind, args = classify(str(e))
        return None, {"accepted": False, "exc": "ValidationError", "stage": stage, "kind": kind, "args": args,
                      "msg": str(e)[:300], "hits": list(_HITS)}
    except FixtureLoadingError as e:
        # the fixture file could not be imported; a REFUSAL of the declaration by the @lcc.fixture decorator is a rejection
        # of the project before anything executes (stage `decl`), anything else is a crash of the generated source
        msg = str(e)
        if "AssertionError: The fixture can only be per_thread=True if scope is 'session' or 'suite'" in msg:
            return None, {"accepted": False, "exc": "FixtureLoadingError", "stage": "decl", "kind": "per-thread-scope", "args": [],
                          "msg": msg.strip().splitlines()[-2][:300], "hits": list(_HITS)}
        return None, {"accepted": False, "exc": "FixtureLoadingError", "stage": "?", "kind": "CRASH", "args": [],
                      "msg": msg[-300:], "hits": list(_HITS)}
    except BaseException as e:  # a crash instead of a ValidationError (RecursionError, KeyError, AssertionError, ...)
        if isinstance(e, (KeyboardInterrupt, SystemExit)):
            raise
        return None, {"accepted": False, "exc": type(e).__name__, "stage": "?", "kind": "CRASH", "args": [],
                      "msg": str(e)[:300], "hits": list(_HITS)}
    fd = case["fd"]
    reg = prepared.fixture_registry
    obs = {"accepted": True, "hits": list(_HITS)}
    obs["registry"] = list(reg._fixtures.keys())
    obs["resolved"] = [[t.path, [d.path for d in t.resolved_dependencies]] for t in flatten_tests(prepared.suites)]
    # what the loader made of the injected attributes (public interface of the Suite objects going to be run)
    obs["injected"] = [[s.path, list(s.get_injected_fixture_names())] for s in flatten_suites(prepared.suites)]
    try:
        pre = reg.get_fixtures_scheduled_for_pre_run(prepared.suites, fd)
        ses = reg.get_fixtures_scheduled_for_session(prepared.suites, pre, fd)
        obs["pre_run"] = list(pre.get_fixture_names())
        obs["session"] = list(ses.get_fixture_names())
        obs["suites"], obs["tests"] = [], []
        for s in flatten_suites(prepared.suites):
            ss = reg.get_fixtures_scheduled_for_suite(s, ses, fd)
            obs["suites"].append([s.path, list(ss.get_fixture_names())])
            for t in s.get_tests():
                obs["tests"].append([t.path, list(reg.get_fixtures_scheduled_for_test(t, ss).get_fixture_names())])
        obs["sched_error"] = None
    except Exception as e:   # scheduling of an accepted project must not fail
        obs["sched_error"] = "%s: %s" % (type(e).__name__, str(e)[:200])
    return prepared, obs


# --------------------------------------------------------------------------------------------
# case -> model request
# --------------------------------------------------------------------------------------------

def _model_suite(s, path, keep):
    tests = []
    module = s.get("kind") == "module"
    for t in s["tests"]:
        p = path + "." + t["name"]
        if keep is not None and p not in keep:
            continue
        tests.append({"path": p, "args": t["args"], "callable": callable_desc(call_kind(t), t["args"], not module),
                      "parameters": t["parameters"], "disabled": t["disabled"],
                      "deps": [({"path": d["path"]} if "path" in d else {"pred": sorted(d["pred"])}) for d in t["deps"]],
                      "props": [list(kv) for kv in t["props"]], "tags": t["tags"]})
    subs = []
    for sub in s["subs"]:
        m = _model_suite(sub, path + "." + sub["name"], keep)
        if m is not None:
            subs.append(m)
    if keep is not None and not tests and not subs:
        return None          # `filter_suites` drops suites that end up empty
    return {"path": path, "disabled": s["disabled"],
            "attrs": [{"name": effective_name(s, a), "shape": shape_of(a["ident"]), "place": a["place"], "fixture": a["fixture"]}
                      for a in s["attrs"]],
            "setup_args": s["setup_args"] if s["setup_args"] is not None else [],
            **({"setup_callable": callable_desc(call_kind(s, "setup_call"), s["setup_args"], not module)}
               if s["setup_args"] is not None else {}),
            "props": [list(kv) for kv in s["props"]], "tags": s["tags"], "tests": tests, "subs": subs}


def model_request(case):
    keep = None if case["keep"] is None else set(case["keep"])
    all_ = [_model_suite(s, s["name"], None) for s in case["suites"]]
    sched = [m for m in (_model_suite(s, s["name"], keep) for s in case["suites"]) if m is not None]
    decls = [{"names": d["names"], "scope": d["scope"], "per_thread": d["per_thread"], "params": d["params"],
              "callable": callable_desc(call_kind(d), d["params"], False)} for d in case["decls"]]
    return {"policy": case["policy"], "decls": decls, "all": all_, "sched": sched, "fd": case["fd"]}


# --------------------------------------------------------------------------------------------
# reference validator (the oracle's notion of a structurally valid project) — written from the property
# statement, independent of the Lean model: graph algorithms with visited sets, no imitation of the code's order
# --------------------------------------------------------------------------------------------

def _walk(suites, prefix="", inh=False):
    for s in suites:
        path = (prefix + "." if prefix else "") + s["name"]
        yield path, s, inh
        yield from _walk(s["subs"], path, inh or s["disabled"])


def _has_cycle(nodes, succ):
    """Kahn's algorithm on the sub-graph induced by `nodes`."""
    nodes = set(nodes)
    indeg = {n: 0 for n in nodes}
    for n in nodes:
        for m in succ(n):
            if m in nodes:
                indeg[m] += 1
    todo = [n for n in nodes if indeg[n] == 0]
    seen = 0
    while todo:
        n = todo.pop()
        seen += 1
        for m in succ(n):
            if m in nodes:
                indeg[m] -= 1
                if indeg[m] == 0:
                    todo.append(m)
    return seen != len(nodes)


def reference_violations(case, drop=()):
    """Set of violated classes of the property statement; empty = structurally valid.
    (`drop`: classes of injected attributes to leave out — only used to ATTRIBUTE a wrongly accepted project to them)"""
    V = set()
    keep = None if case["keep"] is None else set(case["keep"])

    def scheduled_tree():
        # suites / tests going to be run
        for path, s, inh in _walk(case["suites"]):
            tests = [t for t in s["tests"] if keep is None or (path + "." + t["name"]) in keep]
            yield path, s, tests

    def nonempty(path, s):
        if keep is None:
            return True
        if any((path + "." + t["name"]) in keep for t in s["tests"]):
            return True
        return any(nonempty(path + "." + sub["name"], sub) for sub in s["subs"])

    # ---- metadata policy (nodes going to be run) ----
    pol = case["policy"]
    prules = {r["name"]: r for r in pol["props"]}
    trules = {r["name"]: r for r in pol["tags"]}

    def check_meta(node, kind):
        on = "on_" + kind
        for k, v in node["props"]:
            r = prules.get(k)
            if r is None:
                if pol["no_unknown_props"]:
                    V.add("policy")
            elif not r[on] or (r["values"] and v not in r["values"]):
                V.add("policy")
        keys = {k for k, _ in node["props"]}
        for r in pol["props"]:
            if r[on] and r["required"] and r["name"] not in keys:
                V.add("policy")
        for t in node["tags"]:
            r = trules.get(t)
            if r is None:
                if pol["no_unknown_tags"]:
                    V.add("policy")
            elif not r[on]:
                V.add("policy")

    for path, s, tests in scheduled_tree():
        if not nonempty(path, s):
            continue
        check_meta(s, "suite")
        for t in tests:
            check_meta(t, "test")

    # ---- test dependencies ----
    all_tests = {}
    for path, s, inh in _walk(case["suites"]):
        for t in s["tests"]:
            all_tests[path + "." + t["name"]] = t
    sched = set(all_tests) if keep is None else {p for p in all_tests if p in keep}

    def targets(p):
        out = []
        for d in all_tests[p]["deps"]:
            if "path" in d:
                if d["path"] in all_tests:
                    out.append(d["path"])
            else:
                out.extend(q for q in all_tests if q in d["pred"] and q != p)
        return out

    for p in sched:
        for d in all_tests[p]["deps"]:
            if "path" in d and d["path"] not in all_tests:
                V.add("unknown-dep")
        for q in targets(p):
            if q not in sched:
                V.add("unscheduled-dep")
    if _has_cycle(sched, targets):
        V.add("cyclic-dep")

    # ---- fixtures ----
    fx = {b: {"scope": "pre_run", "per_thread": False, "params": []} for b in BUILTINS}
    for d in case["decls"]:
        if d["per_thread"] and d["scope"] not in ("session", "suite"):
            V.add("per-thread-scope")       # a wrongly DECLARED per-thread fixture (whether used or not)
        for n in d["names"]:
            if n in BUILTINS or n == "fixture_name":
                V.add("forbidden-name")
            else:
                fx[n] = d        # a later declaration of the same name replaces the earlier one
    params = {n: [p for p in d["params"] if p != "fixture_name"] for n, d in fx.items()}
    for n, ps in params.items():
        for p in ps:
            if p not in fx:
                V.add("unknown-fixture")
            else:
                if SCOPE_LEVEL[fx[p]["scope"]] < SCOPE_LEVEL[fx[n]["scope"]]:
                    V.add("scope-inversion")
                if fx[p]["per_thread"] and fx[n]["scope"] != "test":
                    V.add("per-thread")
    if _has_cycle(fx, lambda n: [p for p in params[n] if p in fx]):
        V.add("cyclic-fixture")
    for path, s, tests in scheduled_tree():
        if not nonempty(path, s):
            continue
        for n in suite_uses(s, drop):      # every injected attribute, whatever its name and place, then setup_suite's arguments
            if n not in fx:
                V.add("unknown-fixture")
            else:
                if fx[n]["per_thread"]:
                    V.add("per-thread")
                if SCOPE_LEVEL[fx[n]["scope"]] < SCOPE_LEVEL["suite"]:
                    V.add("scope-inversion")
        for t in tests:
            for a in t["args"]:
                if a not in t["parameters"] and a not in fx:
                    V.add("unknown-fixture")
    return V


KIND_CLASS = {
    ("fixture", "builtin-name"): "forbidden-name", ("fixture", "forbidden-name"): "forbidden-name",
    ("fixture", "circular"): "cyclic-fixture", ("fixture", "unknown-param"): "unknown-fixture",
    ("fixture", "per-thread-dep"): "per-thread", ("fixture", "scope-inversion"): "scope-inversion",
    ("fixture", "suite-unknown"): "unknown-fixture", ("fixture", "suite-per-thread"): "per-thread",
    ("fixture", "suite-scope"): "scope-inversion", ("fixture", "test-unknown"): "unknown-fixture",
    ("deps", "unknown"): "unknown-dep", ("deps", "circular"): "cyclic-dep", ("deps", "not-scheduled"): "unscheduled-dep",
    ("decl", "per-thread-scope"): "per-thread-scope",
}


def dependency_targets(case):
    """test path -> paths of the tests it depends on (path dependencies, and what callable dependencies select)"""
    all_tests = {}
    for path, s, inh in _walk(case["suites"]):
        for t in s["tests"]:
            all_tests[path + "." + t["name"]] = t
    out = {}
    for p, t in all_tests.items():
        tg = []
        for d in t["deps"]:
            if "path" in d:
                tg.append(d["path"])
            else:
                tg.extend(q for q in all_tests if q in d["pred"] and q != p)
        out[p] = tg
    return out


def scheduled_suites(case):
    """(path, suite) of the suites going to be run (`filter_suites` drops the ones that end up empty)"""
    keep = None if case["keep"] is None else set(case["keep"])

    def nonempty(path, s):
        if keep is None:
            return True
        if any((path + "." + t["name"]) in keep for t in s["tests"]):
            return True
        return any(nonempty(path + "." + sub["name"], sub) for sub in s["subs"])

    return [(path, s) for path, s, _ in _walk(case["suites"]) if nonempty(path, s)]


def attr_classes(case):
    return sorted({attr_class(s, a, fine=False) for _, s in scheduled_suites(case) for a in s["attrs"]})


def explained_by_attrs(case):
    """If the violations of the case disappear when some classes of injected attributes are left out: a minimal such
    set of classes (greedy) — the wrongly accepted project is attributed to THEM.  Otherwise []."""
    classes = attr_classes(case)
    if not classes or reference_violations(case, drop=set(classes)):
        return []
    K = set(classes)
    for c in classes:
        if not reference_violations(case, drop=K - {c}):
            K.discard(c)
    return sorted(K)


def discovery_failures(case, obs):
    """Every attribute holding `lcc.inject_fixture(...)` is a fixture use of its suite, whatever the identifier looks like
    and wherever it is assigned (property: "all uses from tests, setup_suite and injected attributes")."""
    fails = []
    seen = dict((p, set(names)) for p, names in obs.get("injected", []))
    for path, s in scheduled_suites(case):
        if path not in seen:
            continue
        for a in s["attrs"]:
            if attr_key(s, a) not in seen[path]:
                cls = attr_class(s, a, fine=False)
                fails.append(C.Failure("C14/validate/injected-attribute-not-a-fixture-use/" + cls,
                                       "suite %s: attribute %s = lcc.inject_fixture(%s) (%s, assigned in %s) is not among "
                                       "Suite.get_injected_fixture_names() = %s" % (
                                           path, a["ident"], repr(a["fixture"]) if a["fixture"] is not None else "",
                                           shape_of(a["ident"]), a["place"], sorted(seen[path]))))
    return fails


def validation_failures(case, obs):
    """The completeness half of the property on one observation of the real `PreparedProject.create`."""
    fails = []
    V = reference_violations(case)
    if obs["hits"]:
        fails.append(C.Failure("C14/validate/user-code-ran-during-preparation",
                               "fixtures / hooks / test bodies ran while the project was being prepared: %s" % obs["hits"][:5]))
    if obs["accepted"]:
        if V:
            via = explained_by_attrs(case)
            if via:
                # the invalid use sits in injected attributes only: one failure per responsible input class
                for cls in via:
                    fails.append(C.Failure("C14/validate/invalid-project-accepted/via-injected-attribute/" + cls,
                                           "the reference validator finds %s — through %s attributes holding lcc.inject_fixture(...) "
                                           "— but PreparedProject.create accepted the project" % (sorted(V), cls)))
            else:
                fails.append(C.Failure("C14/validate/invalid-project-accepted/" + "+".join(sorted(V)),
                                       "the reference validator finds %s but PreparedProject.create accepted the project" % sorted(V)))
        if obs.get("sched_error"):
            fails.append(C.Failure("C14/validate/scheduling-of-accepted-project-raised",
                                   "get_fixtures_scheduled_for_* raised on an accepted project: %s" % obs["sched_error"]))
        fails.extend(discovery_failures(case, obs))
        return fails
    if obs["exc"] != "ValidationError" and obs["stage"] != "decl":
        fails.append(C.Failure("C14/validate/crash-instead-of-ValidationError/" + obs["exc"],
                               "PreparedProject.create raised %s (%s); reference validator: %s" % (obs["exc"], obs["msg"], sorted(V) or "valid")))
        return fails
    if not V:
        fails.append(C.Failure("C14/validate/valid-project-rejected/%s.%s" % (obs["stage"], obs["kind"]),
                               "the reference validator finds the project valid but it was rejected: %s" % obs["msg"]))
        return fails
    cls = "policy" if obs["stage"] == "policy" else KIND_CLASS.get((obs["stage"], obs["kind"]))
    if cls is None:
        fails.append(C.Failure("C14/validate/unclassified-ValidationError", "unknown ValidationError message: %s" % obs["msg"]))
    elif cls not in V:
        fails.append(C.Failure("C14/validate/rejected-for-a-reason-that-does-not-hold/" + cls,
                               "rejected with %s.%s (%s) but the violated classes are %s" % (obs["stage"], obs["kind"], obs["msg"], sorted(V))))
    return fails


def compare_prepare(obs, ans):
    if "error" in ans and "result" not in ans:
        return "model error: " + str(ans["error"])
    if ans["result"] == "ok":
        if not obs["accepted"]:
            return "model accepts, code rejects with %s %s.%s: %s" % (obs["exc"], obs["stage"], obs["kind"], obs["msg"])
        for key in ("registry", "injected", "resolved", "pre_run", "session", "suites", "tests"):
            if obs.get(key) != ans.get(key):
                return "%s: code %s vs model %s" % (key, obs.get(key), ans.get(key))
        bad = [r for r in ans["sim"] if r[1] != "ok"]
        if bad:
            return "model simulation of ScheduledFixtures fails on an accepted project: %s" % bad[:3]
        return None
    if obs["accepted"]:
        return "code accepts, model rejects with %s.%s %s" % (ans["stage"], ans["kind"], ans["args"])
    if ans["kind"].startswith("CRASH"):
        return "model predicts a crash %s; code: %s" % (ans["kind"], obs["exc"])
    if obs["exc"] != "ValidationError" and obs["stage"] != "decl":
        return "code raised %s, model a ValidationError %s.%s" % (obs["exc"], ans["stage"], ans["kind"])
    if (obs["stage"], obs["kind"]) != (ans["stage"], ans["kind"]):
        return "different check fired: code %s.%s (%s) vs model %s.%s %s" % (
            obs["stage"], obs["kind"], obs["msg"], ans["stage"], ans["kind"], ans["args"])
    if (obs["kind"] != "circular" or obs["stage"] != "fixture") and obs["stage"] != "decl":
        if obs["args"] != ans["args"]:
            return "same check, different culprit: code %s vs model %s (%s.%s)" % (obs["args"], ans["args"], obs["stage"], obs["kind"])
    return None


# --------------------------------------------------------------------------------------------
# generator
# --------------------------------------------------------------------------------------------

FX_POOL = ["fa", "fb", "fc", "fd", "fe", "ff", "fg", "fh", "fi", "_fk"]      # `_fk`: a fixture with a private-looking name
PROP_KEYS = ["prio", "owner", "kind"]
PROP_VALUES = ["low", "high", "x"]
TAGS = ["slow", "fast", "net"]


def gen_case(rng, defect_rate, run_stream=False):
    pd = defect_rate
    # ---- fixtures: a DAG by construction (params refer to earlier declarations of a scope at least as wide) ----
    nfx = rng.randint(2, 7)
    decls = []
    names_of = []       # (name, scope, per_thread)
    pool = list(FX_POOL)
    rng.shuffle(pool)
    for i in range(nfx):
        scope = rng.choice(["test", "test", "suite", "suite", "session", "pre_run"])
        per_thread = scope in ("suite", "session") and rng.random() < 0.2
        nnames = 2 if (rng.random() < 0.2 and len(pool) >= 2) else 1
        names = [pool.pop() for _ in range(nnames)] if len(pool) >= nnames else ["fz%d" % i]
        cands = [n for (n, sc, pt) in names_of
                 if SCOPE_LEVEL[sc] >= SCOPE_LEVEL[scope] and (not pt or scope == "test")]
        params = []
        if cands:
            k = rng.choice([0, 1, 1, 2, 2, 3])
            params = rng.sample(cands, min(k, len(cands)))
        if rng.random() < 0.15:
            params.append(rng.choice(BUILTINS))
        if rng.random() < 0.15:
            params.insert(rng.randint(0, len(params)), "fixture_name")
        decls.append({"names": names, "scope": scope, "per_thread": per_thread, "params": params, "gen": rng.random() < 0.4})
        if rng.random() < 0.32:
            # HOW the fixture callable is written (the names it needs stay `params`)
            decls[-1]["call"] = rng.choice(["wraps", "wraps", "wraps", "lambda", "cobj", "bound", "patch"])
        for n in names:
            names_of.append((n, scope, per_thread))
    defects = []
    # ---- fixture defects ----
    if rng.random() < pd:
        kind = rng.choice(["cycle", "cycle", "inversion", "unknown", "forbidden", "builtin", "perthread", "dup", "selfloop",
                           "ptscope", "ptscope"])
        defects.append("fx-" + kind)
        if kind == "ptscope":
            # a per-thread fixture DECLARED with a scope the decorator refuses (pre_run / test), with whatever parameters and
            # users the fixture already has — or a fresh unused one
            if rng.random() < 0.75:
                d = rng.choice(decls)
            else:
                d = {"names": ["pz0"], "scope": "test", "per_thread": False, "params": [], "gen": rng.random() < 0.4}
                decls.insert(rng.randint(0, len(decls)), d)
            d["per_thread"] = True
            d["scope"] = rng.choice(["pre_run", "pre_run", "test"])
        if kind == "cycle":
            L = rng.randint(2, 6)
            cyc = ["cy%d" % i for i in range(L)]
            at = rng.randint(0, len(decls))
            new = [{"names": [cyc[i]], "scope": "test", "per_thread": False, "params": [cyc[(i + 1) % L]], "gen": False}
                   for i in range(L)]
            rng.shuffle(new)
            decls[at:at] = new
            for c in cyc:
                names_of.append((c, "test", False))
        elif kind == "selfloop":
            decls.append({"names": ["cy0"], "scope": "test", "per_thread": False, "params": ["cy0"], "gen": False})
        elif kind == "inversion":
            narrow = [n for (n, sc, pt) in names_of if sc in ("test", "suite")]
            wide = [d for d in decls if d["scope"] in ("session", "pre_run", "suite")]
            if narrow and wide:
                d = rng.choice(wide)
                n = rng.choice(narrow)
                if n not in d["names"] and n not in d["params"]:
                    d["params"].append(n)
        elif kind == "unknown":
            rng.choice(decls)["params"].append("nx0")
        elif kind == "forbidden":
            decls.insert(rng.randint(0, len(decls)), {"names": ["fixture_name"], "scope": "test", "per_thread": False, "params": [], "gen": False})
        elif kind == "builtin":
            decls.insert(rng.randint(0, len(decls)), {"names": [rng.choice(BUILTINS)], "scope": rng.choice(["test", "pre_run"]),
                                                      "per_thread": False, "params": [], "gen": False})
        elif kind == "perthread":
            pts = [n for (n, sc, pt) in names_of if pt]
            if not pts:
                decls.append({"names": ["pt0"], "scope": "suite", "per_thread": True, "params": [], "gen": False})
                names_of.append(("pt0", "suite", True))
                pts = ["pt0"]
            decls.append({"names": ["ptuser"], "scope": rng.choice(["suite", "session"]), "per_thread": rng.random() < 0.3,
                          "params": [rng.choice(pts)], "gen": False})
        elif kind == "dup":
            # a later declaration re-using an existing name: replaces the registry entry in place
            n, sc, pt = rng.choice(names_of)
            decls.append({"names": [n], "scope": rng.choice(["test", "suite", "session"]), "per_thread": False, "params": [], "gen": False})
    # registry as the reference sees it (for choosing uses)
    reg = {}
    for d in decls:
        for n in d["names"]:
            reg[n] = d
    usable_any = [n for n in reg if n not in BUILTINS and n != "fixture_name"] + list(BUILTINS)
    usable_suite = [n for n in usable_any if n in BUILTINS or (SCOPE_LEVEL[reg[n]["scope"]] >= 2 and not reg[n]["per_thread"])]

    # ---- metadata policy ----
    policy = {"props": [], "tags": [], "no_unknown_props": rng.random() < 0.3, "no_unknown_tags": rng.random() < 0.3}
    if rng.random() < 0.6:
        for k in rng.sample(PROP_KEYS, rng.randint(1, 3)):
            on_test, on_suite = rng.choice([(True, False), (True, False), (False, True), (True, True)])
            policy["props"].append({"name": k, "values": rng.choice([[], [], ["low", "high"], ["x"]]),
                                    "on_test": on_test, "on_suite": on_suite, "required": rng.random() < 0.3})
        for k in rng.sample(TAGS, rng.randint(0, 2)):
            on_test, on_suite = rng.choice([(True, False), (False, True), (True, True)])
            policy["tags"].append({"name": k, "on_test": on_test, "on_suite": on_suite})
    sloppy = rng.random() < pd      # metadata assigned without looking at the policy

    def meta(kind):
        props, tags = [], []
        on = "on_" + kind
        if sloppy:
            for k in PROP_KEYS:
                if rng.random() < 0.3:
                    props.append([k, rng.choice(PROP_VALUES)])
            tags = [t for t in TAGS if rng.random() < 0.25]
            return props, tags
        for r in policy["props"]:
            if r[on] and (r["required"] or rng.random() < 0.4):
                props.append([r["name"], rng.choice(r["values"]) if r["values"] else rng.choice(PROP_VALUES)])
        if not policy["no_unknown_props"] and rng.random() < 0.2:
            k = rng.choice(PROP_KEYS)
            if k not in {r["name"] for r in policy["props"]}:
                props.append([k, "free"])
        for r in policy["tags"]:
            if r[on] and rng.random() < 0.4:
                tags.append(r["name"])
        if not policy["no_unknown_tags"] and rng.random() < 0.2:
            t = rng.choice(TAGS)
            if t not in {r["name"] for r in policy["tags"]} and t not in tags:
                tags.append(t)
        rng.shuffle(props)
        return props, tags

    # ---- suites ----
    counter = [0]

    def mk_test(name):
        k = rng.choice([0, 1, 1, 2, 3])
        args = rng.sample(usable_any, min(k, len(usable_any)))
        parameters = []
        if rng.random() < 0.12:
            parameters = ["p"]
            args.insert(rng.randint(0, len(args)), "p")
            name = name + "_1"
        props, tags = meta("test")
        t = {"name": name, "args": args, "parameters": parameters, "disabled": rng.random() < 0.15, "deps": [],
             "props": props, "tags": tags}
        if rng.random() < 0.2:
            t["call"] = rng.choice(["wraps", "wraps", "wraps", "patch"])      # the test callback is a decorated callable
        return t

    def add_attr(s, fixture, shape=None, place=None, nameless=False):
        """one more `ident = lcc.inject_fixture(fixture)` in suite `s`: naming shape, place of assignment, named or not"""
        module = s.get("kind") == "module"
        shape = shape or rng.choice(["pub", "pub", "pub", "priv", "priv", "priv", "mangled", "mangled", "dunder"])
        place = "module" if module else (place or rng.choice(["body", "body", "body", "body", "base", "base", "init", "init"]))
        taken = {a["ident"] for a in s["attrs"]}
        if nameless:
            # `inject_fixture()`: the variable's own name IS the fixture name (shape = the shape of that name)
            ident = fixture
            if ident in taken:
                return None
            a = {"ident": ident, "place": place, "fixture": None}
        else:
            base = next(b for b in ("ja", "jb", "jc", "jd", "je", "jf", "jg", "jh") if decorate(b, shape) not in taken)
            a = {"ident": decorate(base, shape), "place": place, "fixture": fixture}
        s["attrs"].append(a)
        return a

    def mk_suite(depth):
        counter[0] += 1
        name = ("s%d" if depth == 0 else "u%d") % counter[0]
        props, tags = meta("suite")
        sargs = None
        if rng.random() < 0.5:
            sargs = rng.sample(usable_suite, min(rng.choice([0, 1, 2]), len(usable_suite)))
        module = depth == 0 and rng.random() < 0.2       # a suite MODULE (only top-level suites can be modules)
        s = {"name": name, "kind": "module" if module else "class", "disabled": (not module) and rng.random() < 0.1,
             "attrs": [], "setup_args": sargs,
             "teardown": rng.random() < 0.3, "test_hooks": rng.random() < 0.2, "props": props, "tags": tags,
             "tests": [], "subs": []}
        if sargs is not None and rng.random() < 0.3:
            s["setup_call"] = rng.choice(["wraps", "wraps", "patch"])
        for f in rng.sample(usable_suite, min(rng.choice([0, 0, 1, 1, 2, 3]), len(usable_suite))):
            add_attr(s, f, nameless=(f not in BUILTINS and rng.random() < 0.15))
        if s["attrs"] and rng.random() < 0.04:
            # the same fixture injected through a second attribute of the suite (D35, repaired: both receive the value)
            add_attr(s, attr_key(s, rng.choice(s["attrs"])))
        s["tests"] = [mk_test("t%d" % i) for i in range(rng.randint(1, 4))]
        if depth < 2 and rng.random() < (0.45 if depth == 0 else 0.25):
            s["subs"] = [mk_suite(depth + 1) for _ in range(rng.randint(1, 2))]
        if depth < 2 and rng.random() < 0.03:
            # a leaf suite without tests (e.g. all its tests hidden) — the shape of D1
            counter[0] += 1
            s["subs"].append({"name": "e%d" % counter[0], "kind": "class", "disabled": False, "attrs": [], "setup_args": None,
                              "teardown": False, "test_hooks": False, "props": [], "tags": [], "tests": [], "subs": []})
        return s

    suites = [mk_suite(0) for _ in range(rng.randint(1, 3))]

    # ---- use defects ----
    flat = list(_walk(suites))
    if rng.random() < pd:
        kind = rng.choice(["test-unknown", "test-fixture_name", "suite-unknown", "suite-test-scope", "suite-per-thread"])
        defects.append("use-" + kind)
        path, s, _ = rng.choice([x for x in flat if x[1]["tests"]])
        if kind == "test-unknown":
            rng.choice(s["tests"])["args"].append("nx1")
        elif kind == "test-fixture_name":
            rng.choice(s["tests"])["args"].append("fixture_name")
        elif kind in ("suite-unknown", "suite-test-scope", "suite-per-thread"):
            # an invalid suite-level use: through an injected attribute of any naming shape / place, or a setup_suite argument
            n = None
            if kind == "suite-unknown":
                n = "nx2"
            elif kind == "suite-test-scope":
                ts = [m for m in reg if reg[m]["scope"] == "test" and m != "fixture_name" and m not in BUILTINS]
                n = rng.choice(ts) if ts else None
            else:
                pts = [m for m in reg if reg[m]["per_thread"]]
                n = rng.choice(pts) if pts else None
            if n is not None:
                if rng.random() < 0.65 or s["setup_args"] is None:
                    a = add_attr(s, n, nameless=rng.random() < 0.15)
                    if a is not None:
                        defects.append("via-attr:" + attr_class(s, a))
                elif n not in s["setup_args"]:
                    s["setup_args"].append(n)

    # ---- test dependencies: edges from later to earlier tests (acyclic), cross-suite included ----
    tests = [(path + "." + t["name"], t) for path, s, _ in flat for t in s["tests"]]
    order = list(range(len(tests)))
    if rng.random() < 0.3:
        rng.shuffle(order)      # forward references: the tree order is not the dependency order
    rank = {tests[j][0]: i for i, j in enumerate(order)}
    for p, t in tests:
        earlier = [q for q, _ in tests if rank[q] < rank[p]]
        if earlier and rng.random() < 0.45:
            for q in rng.sample(earlier, min(rng.choice([1, 1, 2, 3]), len(earlier))):
                t["deps"].append({"path": q})
        if earlier and rng.random() < 0.12:
            sel = set(rng.sample(earlier, min(2, len(earlier))))
            if rng.random() < 0.5:
                sel.add(p)            # the callable also returns true on the depending test itself
            t["deps"].append({"pred": sorted(sel)})
    if rng.random() < pd:
        kind = rng.choice(["dangling", "cycle", "cycle", "self", "pred-cycle"])
        defects.append("dep-" + kind)
        if kind == "dangling":
            rng.choice(tests)[1]["deps"].append({"path": rng.choice(["nosuite.t0", tests[0][0] + "x", "s1"])})
        elif kind == "self":
            p, t = rng.choice(tests)
            t["deps"].append({"path": p})
        elif kind == "cycle":
            L = min(rng.randint(2, 6), len(tests))
            if L >= 2:
                cyc = rng.sample(tests, L)
                for i in range(L):
                    q = cyc[(i + 1) % L][0]
                    if {"path": q} not in cyc[i][1]["deps"]:
                        cyc[i][1]["deps"].append({"path": q})
        elif kind == "pred-cycle" and len(tests) >= 2:
            (p, t), (q, u) = rng.sample(tests, 2)
            t["deps"].append({"pred": [q]})
            u["deps"].append({"pred": sorted({p, q})})
    # ---- filter (lcc run <paths>) ----
    keep = None
    if rng.random() < 0.4:
        paths = [p for p, _ in tests]
        sub = set(rng.sample(paths, rng.randint(1, len(paths))))
        if rng.random() < (1 - pd):
            # close under dependencies so that every dependency is going to be run
            changed = True
            byp = dict(tests)
            while changed:
                changed = False
                for p in list(sub):
                    for d in byp[p]["deps"]:
                        qs = [d["path"]] if "path" in d else [q for q in d["pred"] if q != p]
                        for q in qs:
                            if q in byp and q not in sub:
                                sub.add(q)
                                changed = True
        else:
            defects.append("filter-open")
        keep = sorted(sub)
    case = {"policy": policy, "decls": decls, "suites": suites, "keep": keep, "fd": rng.random() < 0.2, "defects": defects}
    if run_stream:
        case["threads"] = rng.choice([1, 3])
    return case


def has_empty_leaf_suite(case):
    keep = None if case["keep"] is None else set(case["keep"])
    if keep is not None:
        return False          # `filter_suites` prunes empty suites
    return any(not s["tests"] and not s["subs"] for _, s, _ in _walk(case["suites"]))


def case_features(case, obs):
    f = ["accepted" if obs["accepted"] else "rejected:%s.%s" % (obs.get("stage"), obs.get("kind"))]
    f.append("mode:check" if case["keep"] is None else "mode:run-filter")
    f.append("fixtures:%d" % min(len(case["decls"]), 9))
    if any(len(d["names"]) > 1 for d in case["decls"]):
        f.append("multi-name")
    if any(d["per_thread"] for d in case["decls"]):
        f.append("per-thread")
    for d in case["decls"]:
        if d["per_thread"]:
            f.append("decl:per-thread@" + d["scope"])
        if call_kind(d) != "plain":
            f.append("call:fixture:" + call_kind(d))
    for _, s, _ in _walk(case["suites"]):
        if s["setup_args"] is not None and call_kind(s, "setup_call") != "plain":
            f.append("call:setup_suite:" + call_kind(s, "setup_call"))
        for t in s["tests"]:
            if call_kind(t) != "plain":
                f.append("call:test:" + call_kind(t) + ("@module" if s.get("kind") == "module" else ""))
    if any("pred" in d for _, s, _ in _walk(case["suites"]) for t in s["tests"] for d in t["deps"]):
        f.append("callable-dep")
    if any(s["attrs"] for _, s, _ in _walk(case["suites"])):
        f.append("injected")
    for _, s, _ in _walk(case["suites"]):
        if s.get("kind") == "module":
            f.append("suite-module")
        for a in s["attrs"]:
            f.append("attr:" + attr_class(s, a))
            if a["fixture"] is None:
                f.append("attr-nameless")
        if dup_keys(s):
            f.append("attr-same-fixture-twice")
    if any(s["setup_args"] for _, s, _ in _walk(case["suites"])):
        f.append("setup_suite-args")
    if any(t["parameters"] for _, s, _ in _walk(case["suites"]) for t in s["tests"]):
        f.append("parametrized")
    if case["policy"]["props"] or case["policy"]["tags"]:
        f.append("policy")
    if case["fd"]:
        f.append("force-disabled")
    if has_empty_leaf_suite(case):
        f.append("empty-leaf-suite")
    for d in case.get("defects", []):
        f.append("defect:" + d)
    return f


def nontrivial(case):
    edge = any(p != "fixture_name" for d in case["decls"] for p in d["params"])
    consumer = any(t["args"] or s["attrs"] or s["setup_args"] for _, s, _ in _walk(case["suites"]) for t in s["tests"])
    return edge and consumer


def shrink_case(case):
    import copy

    def variants():
        if case["keep"] is not None:
            c = copy.deepcopy(case); c["keep"] = None; yield c
        for i in range(len(case["decls"])):
            c = copy.deepcopy(case); del c["decls"][i]; yield c
        for i, d in enumerate(case["decls"]):
            if d.get("call"):
                c = copy.deepcopy(case); del c["decls"][i]["call"]; yield c
        for i in range(len(case["suites"])):
            if len(case["suites"]) > 1:
                c = copy.deepcopy(case); del c["suites"][i]; yield c

        def paths(suites, pre=()):
            for i, s in enumerate(suites):
                yield pre + (i,)
                yield from paths(s["subs"], pre + (i,))
        for pth in paths(case["suites"]):
            def get(c):
                s = c["suites"][pth[0]]
                for k in pth[1:]:
                    s = s["subs"][k]
                return s
            s0 = get(case)
            for j in range(len(s0["subs"])):
                c = copy.deepcopy(case); del get(c)["subs"][j]; yield c
            for j in range(len(s0["tests"])):
                if len(s0["tests"]) > 1 or s0["subs"]:
                    c = copy.deepcopy(case); del get(c)["tests"][j]; yield c
                if s0["tests"][j]["deps"]:
                    c = copy.deepcopy(case); get(c)["tests"][j]["deps"] = []; yield c
                if s0["tests"][j].get("call"):
                    c = copy.deepcopy(case); del get(c)["tests"][j]["call"]; yield c
                if s0["tests"][j]["args"]:
                    c = copy.deepcopy(case); t = get(c)["tests"][j]; t["args"] = list(t["parameters"]); yield c
                if s0["tests"][j]["props"] or s0["tests"][j]["tags"]:
                    c = copy.deepcopy(case); t = get(c)["tests"][j]; t["props"] = []; t["tags"] = []; yield c
            if len(s0["attrs"]) > 1:
                c = copy.deepcopy(case); get(c)["attrs"] = []; yield c
            for j in range(len(s0["attrs"])):
                c = copy.deepcopy(case); del get(c)["attrs"][j]; yield c
            if s0.get("kind") == "module" and not s0["attrs"]:
                c = copy.deepcopy(case); get(c)["kind"] = "class"; yield c
            if s0["setup_args"]:
                c = copy.deepcopy(case); get(c)["setup_args"] = []; yield c
            if s0.get("setup_call"):
                c = copy.deepcopy(case); del get(c)["setup_call"]; yield c
            if s0["props"] or s0["tags"]:
                c = copy.deepcopy(case); s = get(c); s["props"] = []; s["tags"] = []; yield c
        if case["policy"]["props"] or case["policy"]["tags"] or case["policy"]["no_unknown_props"] or case["policy"]["no_unknown_tags"]:
            c = copy.deepcopy(case)
            c["policy"] = {"props": [], "tags": [], "no_unknown_props": False, "no_unknown_tags": False}
            yield c
        for i, d in enumerate(case["decls"]):
            for j in range(len(d["params"])):
                c = copy.deepcopy(case); del c["decls"][i]["params"][j]; yield c
    for c in variants():
        if c["keep"] is not None:
            # keep only paths that still exist; never end up with an empty selection
            existing = {p + "." + t["name"] for p, s, _ in _walk(c["suites"]) for t in s["tests"]}
            c["keep"] = [p for p in c["keep"] if p in existing]
            if not c["keep"]:
                continue
        if not any(True for _ in _walk(c["suites"])):
            continue
        yield c


# --------------------------------------------------------------------------------------------
# corpus (hand-written shapes; the D18 witness first)
# --------------------------------------------------------------------------------------------

def _t(name, args=(), deps=(), disabled=False, props=(), tags=(), parameters=()):
    return {"name": name, "args": list(args), "parameters": list(parameters), "disabled": disabled, "deps": list(deps),
            "props": [list(p) for p in props], "tags": list(tags)}


def _a(ident, fixture, place="body"):
    return {"ident": ident, "place": place, "fixture": fixture}


def _s(name, tests, subs=(), injected=(), setup_args=None, disabled=False, props=(), tags=(), teardown=False, attrs=(), kind="class"):
    """`injected`: fixture names injected through public class-body attributes i0, i1, …; `attrs`: explicit declarations"""
    return {"name": name, "kind": kind, "disabled": disabled,
            "attrs": [_a("i%d" % k, n) for k, n in enumerate(injected)] + [dict(a) for a in attrs],
            "setup_args": setup_args, "teardown": teardown,
            "test_hooks": False, "props": [list(p) for p in props], "tags": list(tags), "tests": list(tests), "subs": list(subs)}


def _d(names, scope="test", params=(), per_thread=False, gen=False):
    return {"names": list(names), "scope": scope, "per_thread": per_thread, "params": list(params), "gen": gen}


NOPOL = {"props": [], "tags": [], "no_unknown_props": False, "no_unknown_tags": False}

# D18: a callable dependency that also selects the depending test itself.  `lcc check` accepts the project
# (same Test objects on both sides: the test is skipped by `other_test != test`), `lcc run` re-loads the
# suites, the identity comparison no longer recognises the test and it is rejected as a circular dependency.
D18_WITNESS = {"policy": NOPOL, "decls": [], "fd": False, "keep": ["s1.a", "s1.b"], "defects": [],
               "suites": [_s("s1", [_t("a"), _t("b", deps=[{"pred": ["s1.a", "s1.b"]}])])]}

# D1 (found by the design probes, owned by C01/C07): an accepted project with a leaf suite without tests
D1_WITNESS = {"policy": NOPOL, "decls": [], "fd": False, "keep": None, "defects": [],
              "suites": [_s("s1", [_t("t1")], subs=[_s("e1", [])])]}

# diamond of fixtures over four scopes, multi-name, fixture_name, builtin, per-thread used from test scope
DIAMOND_CASE = {
    "policy": NOPOL, "fd": False, "keep": None, "defects": [],
    "decls": [_d(["fa"], "session"), _d(["fb", "fb2"], "suite", ["fa", "cli_args"]), _d(["fc"], "test", ["fb", "fixture_name"]),
              _d(["pt"], "suite", ["fa"], per_thread=True), _d(["fd"], "test", ["pt", "fc", "fb"], gen=True),
              _d(["pre"], "pre_run", ["project_dir"], gen=True)],
    "suites": [_s("s1", [_t("t1_1", ["fd", "p"], parameters=["p"]), _t("t2", ["fc", "pt"], disabled=True)],
                  subs=[_s("u1", [_t("t3", ["fb"], deps=[{"path": "s1.t1_1"}])])], injected=["fa"], setup_args=["fb2", "pre"])]}

# injected attributes of every naming shape, at every place of assignment
_FX3 = [_d(["db"], "session"), _d(["tmp"], "test"), _d(["conn"], "suite", per_thread=True), _d(["_fk"], "suite", ["db"])]


def _inj_case(attrs, kind="class", subs=(), fd=False):
    return {"policy": NOPOL, "fd": fd, "keep": None, "defects": [], "decls": [dict(d) for d in _FX3],
            "suites": [_s("s1", [_t("t0", ["tmp"]), _t("t1")], attrs=attrs, kind=kind, subs=subs)]}


SHAPE_CORPUS = [
    # VALID fixtures through every discovered shape x place: accepted, and every running test reads the fixture's value
    _inj_case([_a("ja", "db"), _a("_jb", "db", "base"), _a("__jc", "_fk", "init"), _a("_fk", None), _a("__jd", "project_dir")]),
    _inj_case([_a("__ja", "db", "base"), _a("_jb", "_fk", "init"), _a("db", None, "init")],
              subs=[_s("u2", [_t("t0")], attrs=[_a("_ja", "db"), _a("__jb", "db")])], fd=True),
    _inj_case([_a("ja", "db", "module"), _a("_jb", "db", "module"), _a("__jc", "_fk", "module"), _a("__jd__", "db", "module"),
               _a("_fk", None, "module")], kind="module", subs=[_s("u2", [_t("t0")], attrs=[_a("_ja", "db", "init")])]),
    # an INVALID fixture (unknown / test-scoped / per-thread) through every discovered shape x place: must be rejected
    _inj_case([_a("_ja", "nx")]),
    _inj_case([_a("__ja", "tmp")]),
    _inj_case([_a("_ja", "conn", "base")]),
    _inj_case([_a("_ja", "nx", "init")]),
    _inj_case([_a("__ja", "nx", "init")]),
    _inj_case([_a("__ja", "conn", "base")]),
    _inj_case([_a("_nx", None)]),
    _inj_case([_a("__ja", None)]),                     # inject_fixture() in a name-mangled attribute: names the fixture `_s1__ja`
    _inj_case([_a("__ja__", "nx", "module")], kind="module"),
    _inj_case([_a("_ja", "tmp", "module")], kind="module"),
    # open finding (root D21): a dunder-like attribute of a suite CLASS is hidden from the loader — an invalid fixture
    # is accepted, a valid one is never injected (class body, base class, __init__)
    _inj_case([_a("__ja__", "nx")]),
    _inj_case([_a("__ja__", "tmp", "base")]),
    _inj_case([_a("__ja__", "conn", "init")]),
    _inj_case([_a("__ja__", "db")]),
    _inj_case([_a("__ja__", "db", "base")]),
    _inj_case([_a("__ja__", "db", "init")]),
    # D35 (repaired in /repo): the same fixture injected through two attributes of a suite — before the repair only the
    # last one in dir() order was set; EVERY attribute must hold the value (witnesses kept first in both streams)
    _inj_case([_a("ja", "db"), _a("jb", "db", "base")]),
    _inj_case([_a("db", None), _a("jz", "db", "init")]),
    _inj_case([_a("ja", "db"), _a("_jb", "db"), _a("__jc", "db", "init")]),
    _inj_case([_a("_ja", "db", "module"), _a("_jb", "db", "module")], kind="module"),
]

# round 3 — HOW callables are written (seeded C14-7) and which (scope, per_thread) declarations exist (seeded C14-8)
_FX4 = [_d(["db"], "session"), _d(["cfg"], "pre_run"), _d(["conn"], "suite", ["db"], per_thread=True), _d(["tmp"], "test", ["conn", "db"])]


def _call_case(decls, suites, fd=False):
    return {"policy": NOPOL, "fd": fd, "keep": None, "defects": [], "decls": decls, "suites": suites}


CALL_CORPUS = [
    # VALID: a test, a fixture and setup_suite each wrapped by a functools.wraps decorator whose wrapper has its own parameters
    # (renamed + one supplied for the wrapped function); a mock.patch-ed test, fixture and setup_suite needing nothing
    _call_case([dict(_d(["db"], "session"), call="wraps"), dict(_d(["tmp"], "test", ["db", "fixture_name"]), call="wraps"),
                dict(_d(["cwd"], "suite"), call="patch")],
               [dict(_s("s1", [dict(_t("t0", ["tmp", "db"]), call="wraps"), dict(_t("t1"), call="patch"),
                               dict(_t("t2_1", ["p", "cwd"], parameters=["p"]), call="wraps")], setup_args=["db"]), setup_call="wraps"),
                dict(_s("s2", [dict(_t("t0", ["tmp"]), call="wraps")], setup_args=[], kind="module"), setup_call="patch")]),
    # VALID: fixtures written as a lambda, a callable object, a bound method of a holder object (generator and plain)
    _call_case([dict(_d(["db"], "session", gen=True), call="cobj"), dict(_d(["cfg"], "pre_run", ["project_dir"]), call="lambda"),
                dict(_d(["tmp", "tmp2"], "test", ["db", "cfg"], gen=True), call="bound"), dict(_d(["conn"], "suite", ["db"], per_thread=True), call="wraps")],
               [_s("s1", [_t("t0", ["tmp", "conn"]), _t("t1", ["tmp2", "cfg"])], injected=["db"], setup_args=["cfg"])]),
    # INVALID: the wrapper of a decorated test / fixture / setup_suite needs an unknown fixture (the wrapped function's
    # parameters would all be fine)
    _call_case([_d(["db"], "session")], [_s("s1", [dict(_t("t0", ["nx"]), call="wraps")])]),
    _call_case([dict(_d(["db"], "session", ["nx"]), call="wraps")], [_s("s1", [_t("t0", ["db"])])]),
    _call_case([_d(["db"], "session")], [dict(_s("s1", [_t("t0")], setup_args=["nx"]), setup_call="wraps")]),
    # @lcc.fixture(scope, per_thread=True) for EVERY scope: pre_run and test are refused at declaration time — used by a
    # test, used by another fixture, used by nobody; session / suite are accepted
    _call_case([_d(["pa"], "pre_run", per_thread=True)], [_s("s1", [_t("t0", ["pa"]), _t("t1")])]),
    _call_case([_d(["pa"], "pre_run", per_thread=True)], [_s("s1", [_t("t0"), _t("t1")])]),
    _call_case([_d(["pa"], "pre_run", per_thread=True, gen=True), _d(["tmp"], "test", ["pa"])], [_s("s1", [_t("t0", ["tmp"]), _t("t1", ["tmp"])])]),
    _call_case([_d(["pa"], "test", per_thread=True)], [_s("s1", [_t("t0", ["pa"])])]),
    _call_case([_d(["cfg"], "pre_run"), _d(["pa"], "test", ["cfg"], per_thread=True)], [_s("s1", [_t("t0")])]),
    _call_case([dict(d) for d in _FX4], [_s("s1", [_t("t0", ["tmp", "conn"]), _t("t1", ["conn"])], setup_args=["cfg"])]),
]

CORPUS = CALL_CORPUS + SHAPE_CORPUS + [
    D18_WITNESS,
    dict(D18_WITNESS, keep=None),
    DIAMOND_CASE,
    # fixture cycles of length 1, 2, 6
    {"policy": NOPOL, "fd": False, "keep": None, "defects": [], "decls": [_d(["cy0"], "test", ["cy0"])],
     "suites": [_s("s1", [_t("t0")])]},
    {"policy": NOPOL, "fd": False, "keep": None, "defects": [], "decls": [_d(["x"], "test", ["y"]), _d(["y"], "test", ["x"])],
     "suites": [_s("s1", [_t("t0", ["x"])])]},
    {"policy": NOPOL, "fd": False, "keep": None, "defects": [],
     "decls": [_d(["c%d" % i], "test", ["c%d" % ((i + 1) % 6)]) for i in range(6)], "suites": [_s("s1", [_t("t0")])]},
    # scope inversion through a suite use, per-thread in setup_suite, builtin clash, forbidden name
    {"policy": NOPOL, "fd": False, "keep": None, "defects": [], "decls": [_d(["fa"], "test")],
     "suites": [_s("s1", [_t("t0")], injected=["fa"])]},
    {"policy": NOPOL, "fd": False, "keep": None, "defects": [], "decls": [_d(["pt"], "session", per_thread=True)],
     "suites": [_s("s1", [_t("t0", ["pt"])], setup_args=["pt"])]},
    {"policy": NOPOL, "fd": False, "keep": None, "defects": [], "decls": [_d(["project_dir"], "pre_run")],
     "suites": [_s("s1", [_t("t0")])]},
    {"policy": NOPOL, "fd": False, "keep": None, "defects": [], "decls": [_d(["fixture_name"], "test")],
     "suites": [_s("s1", [_t("t0")])]},
    # test dependency cycle of length 3 across suites; dependency filtered out; dangling path
    {"policy": NOPOL, "fd": False, "keep": None, "defects": [], "decls": [],
     "suites": [_s("s1", [_t("a", deps=[{"path": "s2.b"}])]), _s("s2", [_t("b", deps=[{"path": "s2.c"}]), _t("c", deps=[{"path": "s1.a"}])])]},
    {"policy": NOPOL, "fd": False, "keep": ["s1.b"], "defects": [], "decls": [],
     "suites": [_s("s1", [_t("a"), _t("b", deps=[{"path": "s1.a"}])])]},
    {"policy": NOPOL, "fd": False, "keep": None, "defects": [], "decls": [],
     "suites": [_s("s1", [_t("a", deps=[{"path": "s1.zz"}])])]},
    # metadata policy: required property, forbidden on suite, accepted values, unknown tag
    {"policy": {"props": [{"name": "prio", "values": ["low", "high"], "on_test": True, "on_suite": False, "required": True}],
                "tags": [{"name": "slow", "on_test": True, "on_suite": True}], "no_unknown_props": True, "no_unknown_tags": True},
     "fd": False, "keep": None, "defects": [], "decls": [],
     "suites": [_s("s1", [_t("a", props=[("prio", "low")], tags=["slow"]), _t("b", props=[("prio", "high")])], tags=["slow"])]},
    {"policy": {"props": [{"name": "prio", "values": ["low", "high"], "on_test": True, "on_suite": False, "required": True}],
                "tags": [], "no_unknown_props": False, "no_unknown_tags": True},
     "fd": False, "keep": None, "defects": [], "decls": [],
     "suites": [_s("s1", [_t("a", props=[("prio", "mid")])], props=[("prio", "low")])]},
]


# --------------------------------------------------------------------------------------------
# streams
# --------------------------------------------------------------------------------------------

class Validate(C.Stream):
    name = "C14.validate"
    quick_cases = 2500
    thorough_cases = 24000
    quick_seconds = 35
    thorough_seconds = 360
    chunk = 100
    corpus = CORPUS

    def setup(self, ctx):
        self.top = tempfile.mkdtemp(prefix="lccverif-c14-")

    def teardown(self, ctx):
        shutil.rmtree(self.top, ignore_errors=True)

    def gen(self, rng, i):
        return gen_case(rng, 0.22 if i % 3 else 0.45)

    def impl(self, case):
        _, obs = prepare_real(case, self.top)
        return obs

    def oracle(self, case, obs):
        return validation_failures(case, obs)

    def request(self, case, obs):
        return model_request(case)

    def compare(self, case, obs, ans):
        return compare_prepare(obs, ans)

    def nontrivial(self, case, obs):
        return nontrivial(case)

    def features(self, case, obs):
        return case_features(case, obs)

    def shrink(self, case):
        return shrink_case(case)


def run_real(case, top, timeout=25.0):
    """Prepare, and if accepted really run.  -> observation"""
    prepared, obs = prepare_real(case, top)
    if prepared is None:
        return obs
    report_dir = tempfile.mkdtemp(prefix="run-", dir=top)
    box = {}

    def target():
        try:
            box["report"] = prepared.run([], report_dir, None, force_disabled=case["fd"], nb_threads=case.get("threads", 1))
        except BaseException as e:  # noqa
            box["exc"] = "%s: %s" % (type(e).__name__, str(e)[:400])

    del _HITS[:]
    th = threading.Thread(target=target, daemon=True)
    th.start()
    th.join(timeout)
    try:
        if th.is_alive():
            obs["run"] = {"outcome": "timeout"}
            return obs
        hits = list(_HITS)
        run = {"outcome": "raised" if "exc" in box else "returned", "exc": box.get("exc")}
        if "report" in box:
            rep = box["report"]
            run["successful"] = bool(rep.is_successful())
            run["tests"] = sorted([t.path, t.status] for t in rep.all_tests())
            bad = []
            for res in [rep.test_session_setup, rep.test_session_teardown]:
                if res is not None and res.status != "passed":
                    bad.append("session:" + str(res.status))
            for s in rep.all_suites():
                for res in (s.suite_setup, s.suite_teardown):
                    if res is not None and res.status != "passed":
                        bad.append("suite %s:%s" % (s.path, res.status))
            run["bad_setups"] = bad
        counts = {}
        for h in hits:
            counts[h] = counts.get(h, 0) + 1
        run["hits"] = counts
        obs["run"] = run
        return obs
    finally:
        shutil.rmtree(report_dir, ignore_errors=True)


def received_failures(case, hits, n):
    """Every test / fixture / setup_suite callable that was CALLED received exactly the keyword arguments it is written
    with (its own positional parameters), each holding the value of the fixture of that name (or the parameter value)."""
    vals = _fixture_values(case)
    own = {}
    for i, d in enumerate(case["decls"]):
        own["fixture:%d" % i] = (d["params"], {}, set(d["names"]))
    for path, s, _ in _walk(case["suites"]):
        if s["setup_args"] is not None:
            own["setup_suite:" + path] = (s["setup_args"], {}, set())
        for t in s["tests"]:
            own["test:%s.%s" % (path, t["name"])] = (t["args"], {p: 1 for p in t["parameters"]}, set())
    fails, seen = [], set()
    for h in hits:
        if not h.startswith("args:"):
            continue
        _, what, ident, kv = h.split(":", 3)
        tag = what + ":" + ident
        got = dict(x.split("=", 1) for x in kv.split(",") if x)
        if tag not in own:
            continue
        want, params, fnames = own[tag]
        bad = None
        if sorted(got) != sorted(want):
            bad = "received the keywords %s, is written with the parameters %s" % (sorted(got), sorted(want))
        else:
            for k, v in got.items():
                exp = params.get(k, vals.get(k))
                if k == "fixture_name":
                    if fnames and v not in fnames:
                        bad = "fixture_name=%s is none of its names %s" % (v, sorted(fnames))
                elif exp is not None and v != str(exp):
                    bad = "%s=%s, the fixture / parameter of that name has the value %s" % (k, v, exp)
        if bad and what not in seen:
            seen.add(what)
            fails.append(C.Failure("C14/run/callable-received-wrong-arguments/" + what,
                                   "accepted project, nb_threads=%d: %s %s" % (n, tag, bad)))
    return fails


class Run(C.Stream):
    name = "C14.run"
    quick_cases = 800
    thorough_cases = 9000
    quick_seconds = 35
    thorough_seconds = 420
    chunk = 50
    corpus = ([dict(c, threads=(1, 3)[i % 2]) for i, c in enumerate(CALL_CORPUS + SHAPE_CORPUS)] +
              [dict(c, threads=n) for c in (D18_WITNESS, dict(D18_WITNESS, keep=None), DIAMOND_CASE) for n in (1, 3)] +
              [dict(D1_WITNESS, threads=n) for n in (1, 3)])

    def setup(self, ctx):
        self.top = tempfile.mkdtemp(prefix="lccverif-c14-")

    def teardown(self, ctx):
        shutil.rmtree(self.top, ignore_errors=True)

    def gen(self, rng, i):
        return gen_case(rng, 0.07, run_stream=True)

    def impl(self, case):
        return run_real(case, self.top)

    def oracle(self, case, obs):
        fails = validation_failures(case, obs)
        if not obs["accepted"]:
            return fails
        run = obs["run"]
        n = case.get("threads", 1)
        if run["outcome"] == "timeout":
            return fails + [C.Failure("C14/run/accepted-project-hangs", "the run of an accepted project did not finish (nb_threads=%d)" % n)]
        if run["outcome"] == "raised":
            exc = run["exc"].split(":")[0]
            if exc == "LookupError" and n > 1 and has_empty_leaf_suite(case) and "find_suite" in run["exc"]:
                # D1 (C01/C07): the ending task of a suite without tests and sub-suites has no dependency
                return fails + [C.Failure("C14/run/D1-empty-suite-with-threads/LookupError",
                                          "accepted project with a leaf suite without tests raises LookupError in on_suite_end "
                                          "with nb_threads=%d: %s" % (n, run["exc"][:200]))]
            return fails + [C.Failure("C14/run/accepted-project-run-raises/" + exc,
                                      "the run of an accepted project raised (nb_threads=%d): %s" % (n, run["exc"]))]
        # injected attributes that did not hold their fixture's value when a (correct) test body read them
        by_path = dict(scheduled_suites(case))
        explained, seen_cls = set(), set()
        for h in run["hits"]:
            if not h.startswith("inj-miss:"):
                continue
            _, spath, attr, tpath = h.split(":")
            explained.add(tpath)
            su = by_path.get(spath)
            a = next((x for x in (su["attrs"] if su else []) if effective_name(su, x) == attr), None)
            if a is None:
                cls, why = "unknown-attribute", ""
            elif exonerated_by_sibling(su, a, spath, tpath, run["hits"]):
                # another attribute of the SAME input class injecting the SAME fixture held its value in this very read:
                # not the shape / place, the double injection is to blame (D35)
                cls, why = "same-fixture-injected-twice", " (another attribute of the suite injects the same fixture and holds the value)"
            else:
                cls, why = attr_class(su, a, fine=False), " (%s, assigned in %s)" % (shape_of(a["ident"]), a["place"])
            if cls not in seen_cls:
                seen_cls.add(cls)
                fails.append(C.Failure("C14/run/injected-attribute-not-set/" + cls,
                                       "accepted project, nb_threads=%d: attribute %s of suite %s%s does not hold the value of "
                                       "the fixture it injects when test %s reads it; the test fails" % (n, attr, spath, why, tpath)))
        # … and the tests skipped because they (transitively) depend on such a test
        status = dict((t[0], t[1]) for t in run["tests"])
        targets = dependency_targets(case)
        blocked = set(explained)      # (a disabled test behind a failed one passes the skip on to its own dependants)
        changed = bool(blocked)
        while changed:
            changed = False
            for tp, st in status.items():
                if tp not in blocked and st in ("skipped", "disabled") and any(q in blocked for q in targets.get(tp, ())):
                    blocked.add(tp)
                    changed = True
        explained |= {tp for tp in blocked if status.get(tp) == "skipped"}
        skipped_by_miss = {tp for tp in explained if status.get(tp) == "skipped"}
        notok = [t for t in run["tests"] if t[1] not in ("passed", "disabled")]
        other = [t for t in notok if t[0] not in explained]      # (the explained ones are reported above, by input class)
        if other:
            fails.append(C.Failure("C14/run/accepted-project-test-not-passed/" + str(other[0][1]),
                                   "tests neither passed nor disabled in the run of an accepted project with non-failing bodies "
                                   "(nb_threads=%d): %s" % (n, other[:4])))
        if run["bad_setups"] or (not run["successful"] and not notok):
            fails.append(C.Failure("C14/run/accepted-project-run-not-successful",
                                   "report not successful / failing setup or teardown: %s" % run["bad_setups"][:4]))
        fails.extend(received_failures(case, run["hits"], n))
        keep = None if case["keep"] is None else set(case["keep"])
        expected = sorted(p + "." + t["name"] for p, s, _ in _walk(case["suites"]) for t in s["tests"]
                          if keep is None or (p + "." + t["name"]) in keep)
        if sorted(t[0] for t in run["tests"]) != expected:
            fails.append(C.Failure("C14/run/report-does-not-list-the-scheduled-tests",
                                   "report lists %s, scheduled %s" % ([t[0] for t in run["tests"]], expected)))
        # enabled tests (or all under --force-disabled) ran their body exactly once; disabled ones did not run
        for p, s, inh in _walk(case["suites"]):
            for t in s["tests"]:
                tp = p + "." + t["name"]
                if keep is not None and tp not in keep:
                    continue
                enabled = not (inh or s["disabled"] or t["disabled"])
                want = 1 if (enabled or case["fd"]) else 0
                if tp in skipped_by_miss:
                    want = 0          # skipped behind a test that failed on an unset injected attribute (reported above)
                got = run["hits"].get("test:" + tp, 0)
                if got != want:
                    fails.append(C.Failure("C14/run/test-body-count", "test %s body ran %d times, expected %d" % (tp, got, want)))
        return fails

    def request(self, case, obs):
        return model_request(case)

    def compare(self, case, obs, ans):
        d = compare_prepare(obs, ans)
        if d is not None or not obs["accepted"]:
            return d
        run = obs["run"]
        if run["outcome"] != "returned":
            return None           # the oracle reports it
        if any(t[1] == "skipped" for t in run["tests"]):
            return None           # a test did not pass (the oracle reports it) and its dependants were skipped: counts are off
        # set-up counts of the (non per-thread) fixtures = number of scope instances the model schedules them in
        owner = {}
        for i, dcl in enumerate(case["decls"]):
            for nme in dcl["names"]:
                owner[nme] = i
        running = {r[0] for r in ans["sim"]}
        inst = list(ans["pre_run"]) + list(ans["session"])
        for _, names in ans["suites"]:
            inst += names
        for tp, names in ans["tests"]:
            if tp in running:
                inst += names
        want = {}
        for nme in inst:
            if nme in owner and not case["decls"][owner[nme]]["per_thread"]:
                want[owner[nme]] = want.get(owner[nme], 0) + 1
        for i, dcl in enumerate(case["decls"]):
            if dcl["per_thread"]:
                continue
            got = run["hits"].get("fixture:%d" % i, 0)
            if got != want.get(i, 0):
                return "fixture function #%d %s was executed %d times, the model schedules it in %d scope instances" % (
                    i, dcl["names"], got, want.get(i, 0))
            # (teardown counts are C03's business: a suite without own tests under --force-disabled and nb_threads >= 2
            #  skips its teardown — reported to the C03 builder, not compared here)
        bodies = {h[5:] for h in run["hits"] if h.startswith("test:")}
        if bodies != running:
            return "test bodies executed %s vs model %s" % (sorted(bodies), sorted(running))
        # which injected attributes held their value when the running tests read them = what the model's injection step assigns
        assigned = dict((p, set(names)) for p, names in ans.get("assigned", []))
        for h in run["hits"]:
            if h.startswith("inj-ok:") or h.startswith("inj-miss:"):
                what, spath, attr, tpath = h.split(":")
                if (what == "inj-ok") != (attr in assigned.get(spath, ())):
                    return "attribute %s of suite %s read by %s: code %s, model assigns %s" % (
                        attr, spath, tpath, what, sorted(assigned.get(spath, ())))
        for spath, s in scheduled_suites(case):
            for t in s["tests"]:
                tp = spath + "." + t["name"]
                if tp in running:
                    for a in s["attrs"]:
                        e = effective_name(s, a)
                        if not any(("inj-ok:%s:%s:%s" % (spath, e, tp)) == h or ("inj-miss:%s:%s:%s" % (spath, e, tp)) == h for h in run["hits"]):
                            return "test %s ran but did not read attribute %s" % (tp, e)
        return None

    def nontrivial(self, case, obs):
        return nontrivial(case)

    def features(self, case, obs):
        f = case_features(case, obs)
        f.append("threads:%d" % case.get("threads", 1))
        if obs["accepted"]:
            f.append("run:" + obs["run"]["outcome"])
        return f

    def shrink(self, case):
        return shrink_case(case)


def streams(ctx):
    from props import _c14seq, _c14disk
    return [Validate(), Run(), _c14seq.Reconfig(), _c14disk.Disk()]

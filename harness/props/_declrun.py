"""
Stream family `declrun`: run-level projects (harness/run/gen.py) DECLARED the way a user writes them and loaded by the real
loader, then run under the recorder with the run-level oracles (harness/run/oracles.py) and replayed on the run-level
acceptor (drivers/Run.lean) — everything `props/_run.py` does, except that the suites are not built object by object
(harness/run/build.py) but go through

    description (props/_decl.py language)  →  Python source with `lcc` decorators  →  exec  →  load_suites_from_classes
    →  resolve_tests_dependencies  →  run_suites

A DECLARATION PLAN says how each piece of the project is written down:
  * the dependencies of a test are spread over 1..3 stacked `@lcc.depends_on` decorators, some written as predicates;
  * runs of consecutive tests of a suite are ONE `@lcc.parametrized` declaration (all variants share one callback, their
    fixtures, dependencies and disabled value; each variant keeps its own script) under the default / a format / a callable
    naming scheme and any parameter-source form;
  * `lcc.inject_fixture()` attributes are declared in the suite class body, in a base class, in a mixin shared by several
    suites, or assigned in `__init__`, under four attribute-name shapes (`f`, `inj_f`, `_f`, `__f`);
  * hooks are methods of the suite class or inherited from a base class.
The plan is explicit data next to the project; after a shrink of the project `fit_plan` drops what no longer applies.

Model side: the loaded tree must be `Expand.loadSuites` of the description and the run-level project `Expand.projOf` derives
from it must be the project the acceptor replays the trace on (drivers/Expand.lean is asked by `compare`).
"""
import copy
import random

import common as C

from lemoncheesecake.suite import load_suites_from_classes
from lemoncheesecake.suite.core import resolve_tests_dependencies

from props import _decl as D
from props._runcommon import PropRunStream
from run import build as B
from run import gen as G
from run import observe as O
from run import oracles as X

SHAPES = ("plain", "inj", "under", "mangled")
DECLRUN_TRUSTED = [
    "declrun streams: harness/props/_declrun.py declares generated run-level projects as decorated classes (props/_decl.py renderer), loads them with "
    "the real loader and runs them under the run-level recorder; the declaration plan (stacked depends_on / predicates, parametrized groups, "
    "inject_fixture placement, inherited hooks) is generated data; drivers/Expand.lean derives the run-level project from the description "
    "(Expand.projOf) and the stream checks it is the project drivers/Run.lean replays the trace on",
]
DECLRUN_RULE = ("declrun stream: generated project (harness/run/gen.py) x declaration plan (depends_on spread over 1..3 stacked decorators, path or "
                "predicate; runs of 2..4 tests as one parametrized declaration in every form / naming scheme; inject_fixture in class body / base "
                "class / shared mixin / __init__ under 4 attribute-name shapes; hooks own or inherited) x nb_threads x gate strategy; non-trivial "
                "as the run stream")


# ------------------------------------------------------------------------------------------------
# projects in declared normal form
# ------------------------------------------------------------------------------------------------

def normalise_project(project):
    """what the class loader can produce: the tests of a suite in rank order with ranks 1..n (declaration order), the
    sub-suites stably sorted by their (explicit) rank"""
    p = copy.deepcopy(project)

    def fix(s):
        s["tests"] = sorted(s["tests"], key=lambda t: t["rank"])
        for i, t in enumerate(s["tests"]):
            t["rank"] = i + 1
        s["suites"] = sorted(s["suites"], key=lambda x: x["rank"])
        for x in s["suites"]:
            fix(x)
    for s in p["suites"]:
        fix(s)
    return p


def densify_deps(rng, project, p=0.45, k=(1, 1, 2, 3)):
    """more dependency edges (up to 3 per test), still acyclic: new edges only go from a test to tests that come BEFORE it
    in a topological order of the dependencies it already has (forward / cross-suite references in declaration order stay)"""
    tests = {tuple(tp): t for tp, t, *_ in G.iter_tests(project)}
    order, seen = [], set()

    def visit(tp):
        if tp in seen:
            return
        seen.add(tp)
        for d in tests[tp]["deps"]:
            visit(tuple(d))
        order.append(tp)
    keys = list(tests)
    rng.shuffle(keys)
    for tp in keys:
        visit(tp)
    pos = {tp: i for i, tp in enumerate(order)}
    for tp in order:
        t = tests[tp]
        if rng.random() < p:
            # `depends_on` is written with dotted strings: targets (and their ancestors) have dot-free names
            cands = [q for q in order if pos[q] < pos[tp] and list(q) not in t["deps"] and all("." not in x for x in q)]
            for q in rng.sample(cands, min(len(cands), rng.choice(list(k)))):
                if len(t["deps"]) < 3:
                    t["deps"].append(list(q))
    return project


def _rename_test(project, sp, old, new):
    for tp, t, tsp, s, _ in G.iter_tests(project):
        if tsp == sp and t["name"] == old:
            t["name"] = new
        t["deps"] = [(d[:-1] + [new]) if d[:-1] == sp and d[-1] == old else d for d in t["deps"]]


# ------------------------------------------------------------------------------------------------
# plan
# ------------------------------------------------------------------------------------------------

DEFAULT_OPTS = dict(p_group=0.45, p_stack=0.6, p_pred=0.3, p_base=0.5, p_init=0.25, p_shared=0.35, p_hook_base=0.4, p_inject_more=0.0)


def gen_plan(rng, project, opts=None):
    """chooses a plan and REWRITES `project` where the declaration form constrains it (variants of one parametrized
    declaration share fixtures / dependencies / disabled value / rank; default naming decides the names)"""
    o = dict(DEFAULT_OPTS, **(opts or {}))
    plan = {"suites": {}, "bases": {}, "shape": rng.choice(SHAPES[:3])}
    byname = G.fixtures_by_name(project)
    injectable = sorted(n for n, fx in byname.items() if G.LEVEL[fx["scope"]] >= G.LEVEL["suite"] and not fx["per_thread"])
    ctr = {"b": 0}
    suites = list(G.iter_suites(project))
    # more injected fixtures than the generator gives (the profile of C03 wants them)
    for sp, s, _ in suites:
        if injectable and rng.random() < o["p_inject_more"]:
            extra = rng.sample(injectable, min(len(injectable), rng.choice([1, 1, 2])))
            s["injected"] = sorted(set(s["injected"]) | set(extra))
    # a mixin shared by two or more suites that inject the same fixture (one is made to, when none does)
    shared = {}
    if len(suites) >= 2 and injectable and rng.random() < o["p_shared"]:
        f = rng.choice(injectable)
        users = [sp for sp, s, _ in suites if f in s["injected"]]
        others = [(sp, s) for sp, s, _ in suites if f not in s["injected"]]
        while len(users) < 2 and others:
            sp, s = others.pop(rng.randrange(len(others)))
            s["injected"] = sorted(s["injected"] + [f])
            users.append(sp)
        if len(users) >= 2:
            name = "X%03d" % ctr["b"]
            ctr["b"] += 1
            plan["bases"][name] = {"bases": []}
            for sp in users:
                shared[".".join(sp)] = (name, f)
    for sp, s, _ in suites:
        key = ".".join(sp)
        ent = {"bases": [], "inject": {}, "hooks": {}, "groups": [], "deps": {}, "shape": None}
        if rng.random() < o["p_base"]:
            b = "B%03d" % ctr["b"]
            ctr["b"] += 1
            plan["bases"][b] = {"bases": []}
            if rng.random() < 0.35:
                a = "A%03d" % ctr["b"]
                ctr["b"] += 1
                plan["bases"][a] = {"bases": []}
                plan["bases"][b]["bases"] = [a]
            ent["bases"].append(b)
        if key in shared:
            ent["bases"].insert(rng.randint(0, len(ent["bases"])), shared[key][0])
        own = [b for b in ent["bases"] if not b.startswith("X")]
        chain = []
        for b in own:
            chain += [b] + plan["bases"][b]["bases"]
        # injected attributes
        mangled = bool(s["injected"]) and key not in shared and rng.random() < 0.2
        if mangled:
            ent["shape"] = "mangled"
            where = rng.choice(["body", "init"] + ["base:" + c for c in chain])
            for f in s["injected"]:
                ent["inject"][f] = {"where": where}
        else:
            for f in s["injected"]:
                if key in shared and shared[key][1] == f:
                    ent["inject"][f] = {"where": "base:" + shared[key][0]}
                    continue
                r = rng.random()
                if chain and r < 0.45:
                    w = "base:" + rng.choice(chain)
                elif r < 0.45 + o["p_init"]:
                    w = rng.choice(["init"] + ["init:" + c for c in chain])
                else:
                    w = "body"
                ent["inject"][f] = {"where": w}
        # hooks
        for h in G.HOOKS:
            if s[h] is not None:
                ent["hooks"][h] = ("base:" + rng.choice(chain)) if chain and rng.random() < o["p_hook_base"] else "body"
        plan["suites"][key] = ent
    # parametrized groups (rewrites the project), then how each declaration writes its dependencies
    for sp in [sp for sp, _, _ in suites]:
        ent = plan["suites"][".".join(sp)]
        i = 0
        while i < len(_suite_at(project, sp)["tests"]) - 1:
            if rng.random() < o["p_group"]:
                k = min(len(_suite_at(project, sp)["tests"]) - i, rng.choice([2, 2, 3, 4]))
                grp = _try_group(rng, project, sp, i, k)
                if grp is not None:
                    ent["groups"].append(grp)
                    i += k
                    continue
            i += 1
    for sp, s, _ in G.iter_suites(project):
        ent = plan["suites"][".".join(sp)]
        grouped = {n: g for g in ent["groups"] for n in g["tests"]}
        seen = set()
        for t in s["tests"]:
            g = grouped.get(t["name"])
            attr = g["attr"] if g else t["name"]
            if attr in seen:
                continue
            seen.add(attr)
            n = len(t["deps"])
            if not n:
                continue
            cuts = sorted(rng.sample(range(1, n), min(n - 1, rng.choice([0, 1, 1, 2])))) if n > 1 and rng.random() < o["p_stack"] else []
            if n == 1 and rng.random() < o["p_stack"] * 0.3:
                cuts = []
            preds = [j for j in range(n) if rng.random() < o["p_pred"]]
            ent["deps"][attr] = {"cuts": cuts, "preds": preds, "pred_kind": rng.choice(["path", "path", "name"])}
    return plan


def _suite_at(project, sp):
    for p, s, _ in G.iter_suites(project):
        if p == sp:
            return s
    raise KeyError(sp)


def _try_group(rng, project, sp, i, k):
    """tests[i:i+k] of the suite at `sp` become one parametrized declaration: same fixtures, dependencies, disabled value
    and rank; committed to `project` only when the rewritten project is still valid (the shared dependencies may close a
    cycle, a variant may end up depending on itself)"""
    trial = copy.deepcopy(project)
    tests = _suite_at(trial, sp)["tests"]
    first = tests[i]
    members = tests[i:i + k]
    names = [t["name"] for t in members]
    for t in members[1:]:
        t["fixtures"] = list(first["fixtures"])
        t["deps"] = [list(d) for d in first["deps"]]
        t["disabled"] = first["disabled"]
    for t in members:
        t["rank"] = first["rank"]
    naming = rng.choice(["default", "default", "format", "first"])
    grp = {"attr": first["name"], "naming": naming, "form": rng.choice(["dicts", "dicts", "csv-str", "csv-str-spaced", "csv-tuple", "csv-list"]),
           "extra_param": rng.random() < 0.3}
    if naming == "default":
        base = first["name"]
        for j, n in enumerate(names):
            _rename_test(trial, sp, n, "%s_%d" % (base, j + 1))
        names = ["%s_%d" % (base, j + 1) for j in range(k)]
    grp["tests"] = names
    if not G.is_valid(trial):
        return None
    project.clear()
    project.update(trial)
    return grp


def fit_plan(project, plan):
    """the part of the plan that still applies to `project` (after a shrink): vanished suites / fixtures / hooks / tests are
    dropped, a group whose members are no longer consecutive and uniform is dissolved"""
    plan = copy.deepcopy(plan)
    out = {"suites": {}, "bases": plan.get("bases", {}), "shape": plan.get("shape", "plain")}
    for sp, s, _ in G.iter_suites(project):
        key = ".".join(sp)
        ent = plan.get("suites", {}).get(key) or {"bases": [], "inject": {}, "hooks": {}, "groups": [], "deps": {}, "shape": None}
        ent["bases"] = [b for b in ent["bases"] if b in out["bases"]]
        ent["inject"] = {f: v for f, v in ent["inject"].items() if f in s["injected"]}
        for f in s["injected"]:
            ent["inject"].setdefault(f, {"where": "body"})
        for f, v in ent["inject"].items():
            w = v["where"]
            if ":" in w and w.split(":", 1)[1] not in _chain(out["bases"], ent["bases"]):
                v["where"] = "body"
        if ent.get("shape") == "mangled" and len({v["where"] for v in ent["inject"].values()}) > 1:
            ent["shape"] = None
        ent["hooks"] = {h: w for h, w in ent["hooks"].items() if s[h] is not None}
        for h in G.HOOKS:
            if s[h] is not None:
                w = ent["hooks"].setdefault(h, "body")
                if ":" in w and w.split(":", 1)[1] not in _chain(out["bases"], ent["bases"]):
                    ent["hooks"][h] = "body"
        names = [t["name"] for t in s["tests"]]
        groups = []
        for g in ent["groups"]:
            ms = [n for n in g["tests"] if n in names]
            if len(ms) != len(g["tests"]) or len(ms) < 1:
                continue
            idx = [names.index(n) for n in ms]
            ts = [s["tests"][j] for j in idx]
            uniform = all(t["fixtures"] == ts[0]["fixtures"] and t["deps"] == ts[0]["deps"] and t["disabled"] == ts[0]["disabled"] for t in ts)
            if idx != list(range(idx[0], idx[0] + len(idx))) or not uniform:
                continue
            if g["naming"] == "default" and ms != ["%s_%d" % (g["attr"], j + 1) for j in range(len(ms))]:
                continue
            groups.append(g)
        ent["groups"] = groups
        out["suites"][key] = ent
    return out


def _chain(bases, names):
    out = []
    for b in names:
        out.append(b)
        out += _chain(bases, bases.get(b, {}).get("bases", []))
    return out


# ------------------------------------------------------------------------------------------------
# project + plan -> description (props/_decl.py language)
# ------------------------------------------------------------------------------------------------

def inject_attr(shape, f):
    return {"plain": f, "inj": "inj_" + f, "under": "_" + f, "mangled": "__" + f}[shape]


def safe_attr(name, used):
    """a Python identifier for a test function whose TEST name may be anything (`@lcc.test(name="v1.2")`), unique in its class"""
    import keyword
    import re
    a = name if (name.isidentifier() and not keyword.iskeyword(name) and not name.startswith("__")) else "t_" + re.sub(r"\W", "_", name)
    base, k = a, 1
    while a in used:
        k += 1
        a = "%s_%d" % (base, k)
    used.add(a)
    return a


def describe(project, plan, order_seed=0):
    """-> (description {"classes", "bases"}, maps) ; maps: class attr -> suite path, (class attr, decl attr, first parameter) ->
    test name, class attr -> {fixture: stored attribute key}"""
    rnd = random.Random(order_seed)
    counts = {}
    for tp, t, *_ in G.iter_tests(project):
        counts[t["name"]] = counts.get(t["name"], 0) + 1
    bases = {n: {"name": n, "bases": list(b.get("bases", [])), "inject": [], "plain": [], "hooks": {}} for n, b in plan["bases"].items()}
    maps = {"suite_of": {}, "test_of": {}, "attrs": {}, "scripts": {}, "hooks": {}}
    ctr = {"c": 0}

    def suite(s, sp):
        key = ".".join(sp)
        ent = plan["suites"][key]
        attr = "S%03d" % ctr["c"]
        ctr["c"] += 1
        maps["suite_of"][attr] = list(sp)
        shape = ent.get("shape") or plan.get("shape", "plain")
        c = {"attr": attr, "name": s["name"], "desc": "suite " + s["name"], "disabled": bool(s["disabled"]), "tags": [], "props": [], "links": [],
             "hidden": False, "rank": s["rank"], "subs_first": False, "order": rnd.randrange(1 << 16), "tests": [], "subs": [],
             "bases": list(ent["bases"]), "inject": [], "plain": [], "hooks": {}}
        keys = {}
        for f in s["injected"]:
            w = ent["inject"].get(f, {"where": "body"})["where"]
            a = inject_attr(shape, f)
            item = {"attr": a, "fixture": None if a == f else f, "where": "init" if w.startswith("init") else "body"}
            holder = bases[w.split(":", 1)[1]] if ":" in w else c
            if not any(x["attr"] == a for x in holder["inject"]):
                holder["inject"].append(item)
            keys[f] = D.stored_key(D.cls_name(holder), a)
        maps["attrs"][attr] = keys
        for h in G.HOOKS:
            if s[h] is None:
                continue
            w = ent["hooks"].get(h, "body")
            spec = {"params": list(s[h]["params"])} if h == "setup_suite" else {"params": list(D.HOOK_ARGS[h])}
            (bases[w.split(":", 1)[1]] if ":" in w else c)["hooks"][h] = spec
            maps["hooks"][(attr, h)] = s[h]["script"] if h == "setup_suite" else s[h]
        grouped = {}
        for g in ent["groups"]:
            for n in g["tests"]:
                grouped[n] = g
        done = {}
        used = set(G.HOOKS)
        for t in s["tests"]:
            g = grouped.get(t["name"])
            dname = g["attr"] if g else t["name"]           # the NAME the declaration carries (`@lcc.test(name=…)` when not an identifier)
            if dname not in done:
                done[dname] = safe_attr(dname, used)
                fresh = True
            else:
                fresh = False
            dattr = done[dname]                              # the function's identifier
            maps["scripts"][tuple(sp + [t["name"]])] = t["script"]
            if g:
                maps["test_of"][(attr, dattr, g["tests"].index(t["name"]))] = t["name"]
            else:
                maps["test_of"][(attr, dattr, None)] = t["name"]
            if not fresh:
                continue
            d = {"attr": dattr, "name": None if dattr == dname else dname, "desc": "test " + dname, "disabled": t["disabled"] if t["disabled"] else False,
                 "empty_reason": False, "tags": [], "props": [], "links": [], "hidden": False, "param": None,
                 "order": rnd.randrange(1 << 16), "args": list(t["fixtures"]),
                 "dep_groups": _dep_groups(t["deps"], ent["deps"].get(dname), counts)}
            if g:
                k = len(g["tests"])
                if g["naming"] == "default":
                    names, sets, naming = ["v"], [[j] for j in range(k)], {"k": "default"}
                elif g["naming"] == "format":
                    names, sets = ["v"], [[n] for n in g["tests"]]
                    naming = {"k": "format", "name": [{"field": "v"}], "desc": [{"lit": "test "}, {"field": "v"}], "as": "tuple"}
                else:
                    names, sets, naming = ["v"], [[n] for n in g["tests"]], {"k": "custom", "which": "first"}
                if g.get("extra_param"):
                    names = names + ["w"]
                    sets = [vals + [10 * (j + 1)] for j, vals in enumerate(sets)]
                d["param"] = {"form": g["form"], "names": names, "sets": sets, "naming": naming}
            c["tests"].append(d)
        for x in s["suites"]:
            c["subs"].append(suite(x, sp + [x["name"]]))
        return c

    classes = [suite(s, [s["name"]]) for s in project["suites"]]
    used = set()
    for c in D._iter_classes(classes):
        used.update(_chain(plan["bases"], c["bases"]))
    # base classes before their subclasses
    ordered = []

    def emit(n):
        if n in ordered or n not in bases:
            return
        for b in bases[n]["bases"]:
            emit(b)
        ordered.append(n)
    for n in sorted(used):
        emit(n)
    return {"classes": classes, "bases": [bases[n] for n in ordered]}, maps


def _dep_groups(deps, how, counts=None):
    items = [".".join(d) for d in deps]
    if not items:
        return []
    how = how or {"cuts": [], "preds": [], "pred_kind": "path"}
    out = []
    for j, p in enumerate(items):
        if j in how["preds"]:
            # a name predicate only where it selects exactly this test (test names may repeat across suites)
            by_name = how.get("pred_kind") == "name" and (counts or {}).get(deps[j][-1], 1) == 1
            out.append({"pred": ("name=" + deps[j][-1]) if by_name else ("path=" + p)})
        else:
            out.append(p)
    cuts = [c for c in how["cuts"] if 0 < c < len(out)]
    groups, prev = [], 0
    for c in cuts + [len(out)]:
        if out[prev:c]:
            groups.append(out[prev:c])
        prev = c
    return groups


# ------------------------------------------------------------------------------------------------
# the declared builder (what run/build.py:build_project does, through source + the real loader)
# ------------------------------------------------------------------------------------------------

def build_declared(project, plan, interp, side, order_seed=0, start_gates=False):
    desc, maps = describe(project, plan, order_seed)
    if start_gates and interp.rec is not None:
        # every test task waits at a gate as soon as a worker picks it up, before `TestTask.run` does anything: the gate
        # strategy then decides in which order concurrently dispatched tests START (and fire their first event)
        interp.rec.start_gate = lambda task: (["start", [n.name for n in task.test.hierarchy]]
                                              if type(task).__name__ == "TestTask" else None)
    src = D.render(desc["classes"], desc["bases"])
    side["source"] = src
    side["desc"] = desc

    def read_injected(obj):
        keys = maps["attrs"].get(type(obj).__name__, {})
        seen = {f: getattr(obj, k, None) for f, k in keys.items()}
        return {f: (v if isinstance(v, str) else None) for f, v in seen.items()}

    def _body(obj, decl, params, kw):
        cattr = type(obj).__name__
        sp = maps["suite_of"][cattr]
        if params:
            first = list(params.values())[0]
            idx = first if isinstance(first, int) else None
            name = None
            for (ca, da, j), n in maps["test_of"].items():
                if ca == cattr and da == decl and j is not None and (j == idx or n == first):
                    name = n
                    break
        else:
            name = maps["test_of"][(cattr, decl, None)]
        tpath = sp + [name]
        seen = read_injected(obj)
        if seen:
            with interp.rec.cv:
                interp.injected_seen.append([tpath, seen])
        interp.run_unit(["body", tpath], maps["scripts"][tuple(tpath)], kw)

    def _hook(obj, hook, kw):
        cattr = type(obj).__name__
        sp = maps["suite_of"][cattr]
        script = maps["hooks"][(cattr, hook)]
        if hook in ("setup_suite", "teardown_suite"):
            extra = dict(kw) if hook == "setup_suite" else {}
            # what the hook reads from `self`: the injected attributes are consumers' values too
            for f, v in read_injected(obj).items():
                extra.setdefault(f, v)
            interp.run_unit(["hook", sp, hook, None], script, extra)
        else:
            interp.run_unit(["hook", sp, hook, [n.name for n in kw["test"].hierarchy]], script, {})

    ns = {"_body": _body, "_hook": _hook}
    D.exec_source(src, ns)
    tops = [ns[c["attr"]] for c in desc["classes"]]
    suites = load_suites_from_classes(tops)
    side["tree"] = D.canon_tree(suites)
    side["ranks"] = D.real_ranks(suites)
    resolve_tests_dependencies(suites, suites)
    registry = B.build_fixture_registry(project, interp)
    return suites, registry


def rank_numbering(ranks):
    """real rank -> natural number with the same order.  The loader gives integers from the decoration counter and, to the
    variants of a parametrized test, `rank + idx / (idx + 1)` (fix N5): only the ORDER of ranks is ever used by the code; the
    run-level acceptor works with natural numbers"""
    order = sorted(set(ranks.values()))
    return {r: i + 1 for i, r in enumerate(order)}


def with_real_ranks(project, ranks):
    """the project with the ranks the loader really gave (order-isomorphic natural numbers of them): what the acceptor must
    see, since events and report carry them"""
    num = rank_numbering(ranks)
    p = copy.deepcopy(project)
    for sp, s, _ in G.iter_suites(p):
        if ".".join(sp) in ranks:
            s["rank"] = num[ranks[".".join(sp)]]
        for t in s["tests"]:
            k = ".".join(sp + [t["name"]])
            if k + D.TEST_KEY_SUFFIX in ranks:         # a test named like a sibling sub-suite
                k = k + D.TEST_KEY_SUFFIX
            if k in ranks:
                t["rank"] = num[ranks[k]]
    return p


def conventional_descriptions(obs):
    """The run-level model names the body step of a test "test <name>" (the description harness/run/build.py gives every
    test).  A declared test has the description its decorators / naming scheme produce — checked against `Expand.loadSuites`
    by `compare_declaration`; for the run-level acceptor that text is replaced by the conventional one, in the fired events
    and in the report, wherever it is the step description of that very test.  Likewise the ranks (metadata of the start /
    skipped / disabled events and of the report nodes) are replaced by `rank_numbering` of them (same order, natural numbers)."""
    decl = obs.get("decl") or {}
    if not decl.get("tree"):
        return obs
    real = {tuple(p): t["desc"] for p, t, _ in D.flat_tests(decl["tree"])}
    num = rank_numbering(decl.get("ranks") or {})
    out = dict(obs)

    def fix_md(md):
        if md is not None and md.get("rank") in num:
            return dict(md, rank=num[md["rank"]])
        return md

    def fix_event(e):
        if "md" in e:
            e = dict(e, md=fix_md(e["md"]))
        loc = e.get("loc")
        if not loc or loc.get("k") != "test":
            return e
        p = tuple(loc.get("path") or ())
        d = real.get(p)
        if d is None:
            return e
        key = "desc" if e["e"] in ("stepStart", "stepEnd") else "step"
        if e.get(key) == d:
            e = dict(e, **{key: "test " + p[-1]})
        return e
    out["trace"] = [[r[0], r[1], fix_event(r[2])] + list(r[3:]) if r[0] == "fire" else r for r in obs["trace"]]

    def fix_suite(s, prefix):
        p = prefix + (s["md"]["name"],)
        tests = []
        for t in s["tests"]:
            d = real.get(p + (t["md"]["name"],))
            res = t["res"]
            if res is not None and d is not None:
                res = dict(res, steps=[dict(st, desc="test " + t["md"]["name"]) if st["desc"] == d else st for st in res["steps"]])
            tests.append(dict(t, md=fix_md(t["md"]), res=res))
        return dict(s, md=fix_md(s["md"]), tests=tests, suites=[fix_suite(x, p) for x in s["suites"]])
    if obs.get("report"):
        out["report"] = dict(obs["report"], suites=[fix_suite(x, ()) for x in obs["report"]["suites"]])
    return out


def project_shape(project):
    """what of a run-level project the declarations determine (scripts and fixture bodies are not declarations)"""
    def suite(s):
        hooks = {h: (list(s[h]["params"]) if h == "setup_suite" else list(D.HOOK_ARGS[h])) for h in G.HOOKS if s[h] is not None}
        return {"name": s["name"], "disabled": bool(s["disabled"]), "injected": list(s["injected"]), "hooks": hooks,
                "tests": [{"name": t["name"], "disabled": bool(t["disabled"]), "reason": isinstance(t["disabled"], str),
                           "deps": [list(d) for d in t["deps"]], "fixtures": list(t["fixtures"])} for t in s["tests"]],
                "suites": [suite(x) for x in s["suites"]]}
    return [suite(s) for s in project["suites"]]


class DeclRunStream(PropRunStream):
    """RunStream whose suites are declared (source + decorators + real loader)"""
    name = "declrun"
    decl_opts = {}
    p_start_gates = 0.15          # probability that test tasks are held at their very start (start order chosen by the gate strategy)
    expand_driver = "drivers/Expand.lean"
    chunk = 20

    def setup(self, ctx):
        self._expand = None

    def teardown(self, ctx):
        if getattr(self, "_expand", None) is not None:
            self._expand.close()
            self._expand = None

    def prepare_project(self, project, rng=None):
        return normalise_project(project)

    def gen(self, rng, i):
        case = super().gen(rng, i)
        project = self.prepare_project(case["project"], rng)
        plan = gen_plan(rng, project, self.decl_opts)
        G.check_valid(project)
        case["project"], case["plan"], case["oseed"] = project, plan, rng.randrange(1 << 16)
        case["start_gates"] = case["strategy"] != "off" and rng.random() < self.p_start_gates
        return case

    def impl(self, case):
        plan = fit_plan(case["project"], case["plan"])
        oseed = case.get("oseed", 0)
        side = {}
        sg = bool(case.get("start_gates"))
        obs = O.run_project(case["project"], strategy=case["strategy"], gate_seed=case["gseed"], interrupt_at=case["interrupt"],
                            backend_fault=case["fault"], builder=lambda p, interp: build_declared(p, plan, interp, side, oseed, sg))
        obs["decl"] = {k: side.get(k) for k in ("source", "desc", "tree", "ranks")}
        if ("C05" in self.oracles and not case["interrupt"] and not case["fault"]
                and (case["project"]["nb_threads"] != 1 or case["strategy"] != "off")):
            side1 = {}
            base = O.run_project(dict(case["project"], nb_threads=1), strategy="off",
                                 builder=lambda p, interp: build_declared(p, plan, interp, side1, oseed))
            obs["baseline"] = {k: base.get(k) for k in ("report", "report_view", "attachments", "outcome")}
        return obs

    def oracle(self, case, obs):
        fails = super().oracle(case, obs)
        out = []
        for f in fails:
            if f.signature.startswith("C05/order-depends-on-schedule") and self._only_variants_reordered(case, obs):
                f = C.Failure("C05/order-depends-on-schedule/parametrized-variants", f.message, f.details)
            out.append(f)
        return out

    def _only_variants_reordered(self, case, obs):
        """the two reports differ only by the order of tests that are variants of ONE parametrized declaration"""
        plan = fit_plan(case["project"], case["plan"])
        group_of = {}
        for key, ent in plan["suites"].items():
            for gi, g in enumerate(ent["groups"]):
                for n in g["tests"]:
                    group_of[(key, n)] = gi
        base = obs.get("baseline") or {}
        a = X.normal_form(base.get("report_view") or base.get("report"), base.get("attachments"))
        b = X.normal_form(obs.get("report_view") or obs["report"], obs.get("attachments"))

        def canon(n, path):
            n = dict(n)
            key = ".".join(path + [n["md"]["name"]]) if "md" in n else ""
            idx = {t["md"]["name"]: i for i, t in enumerate(n["tests"])}
            # within a group the variants are put in name order, the group stays where its first member is
            def k(t):
                g = group_of.get((key, t["md"]["name"]))
                if g is None:
                    return (idx[t["md"]["name"]], "")
                first = min(idx[x["md"]["name"]] for x in n["tests"] if group_of.get((key, x["md"]["name"])) == g)
                return (first, t["md"]["name"])
            n["tests"] = sorted(n["tests"], key=k)
            n["suites"] = [canon(x, path + [n["md"]["name"]]) for x in n["suites"]]
            return n
        ca = dict(a, suites=[canon(s, []) for s in a["suites"]])
        cb = dict(b, suites=[canon(s, []) for s in b["suites"]])
        return ca == cb

    def request(self, case, obs):
        r = super().request(case, conventional_descriptions(obs))
        if r is not None and obs.get("decl", {}).get("ranks"):
            r["project"] = with_real_ranks(case["project"], obs["decl"]["ranks"])
        return r

    def compare(self, case, obs, ans):
        d = self.compare_declaration(case, obs)
        if d is not None:
            return d
        return super().compare(case, conventional_descriptions(obs), ans)

    def compare_declaration(self, case, obs):
        decl = obs.get("decl") or {}
        if not decl.get("desc") or decl.get("tree") is None:
            return None
        if getattr(self, "_expand", None) is None:
            self._expand = C.LeanDriver(self.expand_driver)
        desc = decl["desc"]
        ans = self._expand.ask({"classes": D.model_classes(desc["classes"], desc["bases"]), "nb_threads": case["project"]["nb_threads"],
                                "force": case["project"]["force_disabled"], "keep": None})
        d = D.compare_load(case, {"load": {"tree": decl["tree"]}}, ans)
        if d is not None:
            return "declaration: " + d
        if "err" in ans.get("load", {}):
            return "declaration: the loader model rejects the classes: %r" % (ans["load"]["err"],)
        if ans.get("proj") != project_shape(case["project"]):
            return "declaration: the run-level project the model derives from the classes differs from the project: " + D._first_diff(
                project_shape(case["project"]), ans.get("proj"), "project")
        return None

    def shrink(self, case):
        yield from super().shrink(case)
        if case.get("start_gates"):
            yield dict(case, start_gates=False)
        plan = case["plan"]

        def edited(key, fn):
            p2 = copy.deepcopy(plan)
            fn(p2["suites"][key])
            return dict(case, plan=p2)
        for key, ent in plan["suites"].items():
            for gi in range(len(ent["groups"])):
                yield edited(key, lambda e, gi=gi: e["groups"].pop(gi))
            for attr, how in ent["deps"].items():
                if how["cuts"] or how["preds"]:
                    yield edited(key, lambda e, attr=attr: e["deps"].__setitem__(attr, {"cuts": [], "preds": [], "pred_kind": "path"}))
            for fx, v in ent["inject"].items():
                if v["where"] != "body":
                    yield edited(key, lambda e, fx=fx: e["inject"].__setitem__(fx, {"where": "body"}))
            for h, w in ent["hooks"].items():
                if w != "body":
                    yield edited(key, lambda e, h=h: e["hooks"].__setitem__(h, "body"))
            if ent["bases"]:
                yield edited(key, lambda e: e.__setitem__("bases", []))
            if ent.get("shape"):
                yield edited(key, lambda e: e.__setitem__("shape", None))

    def features(self, case, obs):
        f = super().features(case, obs)
        if case.get("start_gates"):
            f.append("decl:start-gates")
        plan = fit_plan(case["project"], case["plan"])
        for key, ent in plan["suites"].items():
            for g in ent["groups"]:
                f.append("decl:parametrized-group")
                f.append("decl:group-size=%d" % len(g["tests"]))
                f.append("decl:group-naming=" + g["naming"])
                f.append("decl:group-form=" + g["form"])
            for attr, how in ent["deps"].items():
                f.append("decl:depends_on-decorators=%d" % (len(how["cuts"]) + 1))
                if how["preds"]:
                    f.append("decl:depends_on-predicate")
            shape = ent.get("shape") or plan.get("shape")
            for fx, v in ent["inject"].items():
                w = v["where"]
                where = "shared-mixin" if w.startswith("base:X") else "base" if w.startswith("base:") else "init-of-base" if w.startswith("init:") else w
                f.append("decl:inject-in-" + where)
                f.append("decl:inject-shape=" + shape)
            for h, w in ent["hooks"].items():
                f.append("decl:hook-" + ("inherited" if w != "body" else "own"))
            if ent["bases"]:
                f.append("decl:bases=%d" % len(ent["bases"]))
        byname = G.fixtures_by_name(case["project"])
        for tp, t, sp, s, _ in G.iter_tests(case["project"]):
            ent = plan["suites"].get(".".join(sp), {"groups": []})
            if any(t["name"] in g["tests"] for g in ent["groups"]):
                for n in t["fixtures"]:
                    f.append("decl:variant-uses-" + byname[n]["scope"])
        return sorted(set(f))

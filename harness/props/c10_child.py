"""
Crash child of the stream C10.crash.

Three uses:
  * forked from the check (`c10.forked_run` → `child_main`): performs the run with write interposition — every
    file opened for writing below the scratch directory is wrapped; the text is split into `pieces` parts that
    reach the file one by one (write + flush); `os.replace` / `os.rename` are wrapped — and dies with
    `os._exit` (nothing buffered is flushed, like SIGKILL) at crash point number `die_at`.  With
    `die_at=None` it completes and reports the list of crash points through the pipe.
  * `python c10_child.py --observe case.json dir out.json` in a child process with another locale (stream C10.locale).
  * `python c10_child.py case.json dir` under `strace -e inject=write:signal=SIGKILL:when=K`: a plain run, no
    interposition, nothing written but the report files; the kernel kills it at its K-th write.
"""
import builtins
import json
import os
import sys

sys.path.insert(0, os.path.dirname(os.path.dirname(os.path.abspath(__file__))))


class _Plan:
    def __init__(self, top, die_at, pieces, final_names):
        self.top, self.die_at, self.pieces, self.final_names = top, die_at, max(1, pieces), final_names
        self.points = []
        self.save = -1
        self.atomic = False

    def point(self, kind, inside):
        idx = len(self.points)
        self.points.append({"save": self.save, "kind": kind, "inside": inside, "atomic": self.atomic})
        if self.die_at is not None and idx == self.die_at:
            os._exit(77)


class _Proxy:
    def __init__(self, fh, plan):
        self._fh, self._plan = fh, plan

    def write(self, data):
        n = len(data)
        k = min(self._plan.pieces, max(1, n))
        size = -(-n // k) if n else 0
        parts = [data[i:i + size] for i in range(0, n, size)] if n else [data]
        for p in parts:
            self._fh.write(p)
            self._fh.flush()
            self._plan.point("after-piece", True)
        return n

    def close(self):
        self._fh.close()
        self._plan.point("after-close", self._plan.atomic)

    def __enter__(self):
        return self

    def __exit__(self, *a):
        self.close()
        return False

    def __getattr__(self, name):
        return getattr(self._fh, name)


def install(plan):
    real_open, real_replace, real_rename = builtins.open, os.replace, os.rename

    def my_open(file, mode="r", *a, **kw):
        fh = real_open(file, mode, *a, **kw)
        if isinstance(file, str) and file.startswith(plan.top) and ("w" in mode or "a" in mode or "x" in mode):
            plan.save += 1
            plan.atomic = os.path.basename(file) not in plan.final_names
            plan.point("after-open", True)
            return _Proxy(fh, plan)
        return fh

    def my_replace(src, dst, *a, **kw):
        r = real_replace(src, dst, *a, **kw)
        if isinstance(dst, str) and dst.startswith(plan.top):
            plan.point("after-replace", False)
        return r

    def my_rename(src, dst, *a, **kw):
        r = real_rename(src, dst, *a, **kw)
        if isinstance(dst, str) and dst.startswith(plan.top):
            plan.point("after-replace", False)
        return r
    builtins.open, os.replace, os.rename = my_open, my_replace, my_rename


def child_main(case, top, die_at, pieces, wfd):
    from props import c10
    plan = _Plan(top, die_at, pieces, {"report.js", "report.xml", "report-junit.xml"})
    install(plan)
    c10.run_stream(case["events"], case["nb_threads"], [(case["backend"], case["variant"], case["strategy"])], top,
                   async_mgr=False, observe=False)
    if die_at is None:
        os.write(wfd, json.dumps({"points": plan.points}).encode())
    os.close(wfd)
    return 0


def observe_main(casefile, top, out):
    """`python c10_child.py --observe case.json dir out.json` (stream C10.locale): the handler loop with its observer in THIS
    process — whose locale the parent chose —, the observation written as (ASCII) JSON"""
    import locale
    import common  # noqa: F401
    from props import c10
    case = json.load(open(casefile))
    runs = []
    for i, specs in enumerate(case["runs"]):        # one handler loop per entry (a raising save stops a whole loop)
        obs = c10.run_stream(case["events"], case["nb_threads"], [tuple(x) for x in specs], os.path.join(top, "r%d" % i))
        runs.append(c10._intern(obs))
    with open(out, "w") as fh:
        json.dump({"runs": runs, "encoding": locale.getpreferredencoding(False)}, fh)


def main():
    if sys.argv[1] == "--observe":
        return observe_main(*sys.argv[2:5])
    import common  # noqa: F401  (puts LCC_REPO / /repo first on sys.path)
    from props import c10
    case = json.load(open(sys.argv[1]))
    c10.run_stream(case["events"], case["nb_threads"], [(case["backend"], case["variant"], case["strategy"])], sys.argv[2],
                   async_mgr=False, observe=False)


if __name__ == "__main__":
    main()

"""C07 — reporting backends receive a well-formed event stream."""
import common as C
from props._runcommon import RUN_TRUSTED, RUN_ASSUMPTIONS, PropRunStream
from run import selftest as W
from run import witnesses2 as W2

PROPERTY = "C07"
LEAN_MODULES = ["LccModel.Props.C07", "LccModel.Props.C07Run", "LccModel.Props.C07Listeners", "LccModel.ProtoSession"]
PROPS_FILES = ["LccModel/Props/C07.lean", "LccModel/Props/C07Run.lean", "LccModel/Props/C07Listeners.lean"]
NAMESPACES = {"LccModel/Props/C07.lean": "LccModel.C07", "LccModel/Props/C07Run.lean": "LccModel.C07Run", "LccModel/Props/C07Listeners.lean": "LccModel.C07Listeners"}
DRIVER = "drivers/Run.lean"
TRUSTED_BASE = RUN_TRUSTED + ["session stream: harness/props/_session.py (drivers/Session.lean)", "the stream grammar is stated twice, as the Lean acceptor Model/Grammar.lean and as the Python recogniser run/oracles.recognise; both are run on every fired stream and must agree"]
ASSUMPTIONS = RUN_ASSUMPTIONS + []
RULE = 'sess stream: random protocol-shaped Session API call sequences; run stream: generated project (harness/run/gen.py) × nb_threads 1..8 × gate strategy (off/fifo/lifo/random) forcing completion orders × keyboard interrupt (30 %) × (60 %) 2..3 further reporting sessions of ONE class whose on_<event> handlers are set per instance (all / starts / starts+ends / records / tests), attached after the recording backend; non-trivial = ≥ 2 tests, ≥ 1 body entered, ≥ 8 events; distinct = hash of the case (project + schedule parameters)'
EXPLANATION = "Per-thread step bracketing, elision of empty steps/phases and 'no step left open after a result ends' are Lean theorems over every protocol-following API call sequence (M3); suite begin/end ordering follows from the scheduler's ordering invariant on buildTasks (C01Graph.suite_tasks_exact, C03.suite_end_after_everything_inside); every real run's fired stream is checked by the Lean grammar acceptor and the Python recogniser."


def witness(title_prefix):
    """corpus case built from the hand-written witness table of harness/run/selftest.py"""
    for title, sig, project, cfg in W.WITNESSES:
        if title.startswith(title_prefix):
            return {"project": dict(project, nb_threads=cfg["n"]), "strategy": cfg["strategy"], "gseed": cfg["gseed"],
                    "interrupt": cfg["interrupt"], "fault": cfg["fault"]}
    raise KeyError(title_prefix)


from props._session import SessionStream, grammar_failures, protocol_following
from props._skiptable import handle_exception_table


def tables(ctx):
    # the error handler of the runner, executed on every exception class x constructor-argument shape: it must come back
    # (an exception escaping it leaves a test / phase started and never ended) — obligation Generated/C07TablesCheck.lean
    return [handle_exception_table()]


class Sess(SessionStream):
    name = "C07.sess"
    driver = "drivers/Session.lean"
    quick_cases = 450
    quick_seconds = 30

    def oracle(self, case, obs):
        # the statement speaks of the streams real runs produce: call sequences the runner can issue
        if obs["error"] is not None or not protocol_following(case["ops"]):
            return []
        return grammar_failures("C07", case["ops"], obs["fired"])

    def features(self, case, obs):
        f = SessionStream.features(self, case, obs)
        pf = protocol_following(case["ops"])
        if pf and obs["error"] is None and "attach-window+setStep" in f:
            f.append("oracle-checked:attach-window+setStep")     # a step set inside a `with prepare_attachment` block
        return f + ["protocol_following=%s" % pf]


class Run(PropRunStream):
    name = "C07.run"
    prop = "C07"
    profile = "basic-detached"  # "basic" + `with lcc.detached_step(d): pass` acts (30 % of the step changes)
    oracles = ("C07",)
    quick_cases = 330
    quick_seconds = 50
    p_interrupt = 0.3           # interrupted runs are ordinary cases since fix D11 (SuiteEnd / TestSessionEnd order holds under interrupt)
    p_listeners = 0.6           # several reporting sessions of ONE class with per-instance handler sets (C07: EVERY backend receives …)
    corpus = [W2.DETACHED_STEP_THEN_LOG] + W2.LISTENER_CONTROLS + [witness("D11 "), witness("D1 "), witness("D3 ")] + W2.CONTROLS3 + [W2.EMPTY_STEP_DESCRIPTION, W2.EMPTY_STEP_IN_THREAD] + W2.CONTROLS + W2.CONTROLS2


def streams(ctx):
    return [Sess(), Run()]

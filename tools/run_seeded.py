#!/usr/bin/env python3
"""
Run the registered checks against every seeded property-breaking change kept under seeded/<name>/
(patch.diff, demo.py, meta.json).  For each: apply patch.diff to a scratch worktree of /repo's HEAD
(default; `--in-place` applies it to /repo itself and undoes it with `git -C /repo checkout -- .`), run the
quick (or thorough) command of the property it breaks with LCC_REPO pointing at that tree, and record
whether the check exited 1 with a VIOLATION line.  The worktree is used while other builders are running
checks against /repo, so that they never see a mutated tree.  Results go to seeded/RESULTS.json (committed; the
table in DESIGN.md section 10 is generated from it).

usage: tools/run_seeded.py [--tier quick|thorough] [name ...]
"""
import argparse
import json
import os
import subprocess
import sys
import time

ROOT = os.path.dirname(os.path.dirname(os.path.abspath(__file__)))
REPO = "/repo"


def sh(cmd, **kw):
    return subprocess.run(cmd, shell=True, capture_output=True, text=True, **kw)


def main():
    ap = argparse.ArgumentParser()
    ap.add_argument("--tier", default="quick")
    ap.add_argument("--in-place", action="store_true")
    ap.add_argument("names", nargs="*")
    a = ap.parse_args()
    manifest = json.load(open(os.path.join(ROOT, "MANIFEST.json")))
    cmds = {c["property_id"]: c for c in manifest["checks"]}
    seeded = os.path.join(ROOT, "seeded")
    names = a.names or sorted(d for d in os.listdir(seeded) if os.path.isfile(os.path.join(seeded, d, "patch.diff")))
    res_path = os.path.join(seeded, "RESULTS.json")
    results = json.load(open(res_path)) if os.path.exists(res_path) else {}
    if sh(f"git -C {REPO} status --porcelain").stdout.strip():
        print("refusing: /repo has uncommitted changes", file=sys.stderr)
        sys.exit(2)
    tree = REPO
    if not a.in_place:
        tree = "/tmp/lccverif-seeded-wt-%d" % os.getpid()
        sh(f"git -C {REPO} worktree remove --force {tree}")
        r = sh(f"git -C {REPO} worktree add --detach {tree} HEAD")
        if r.returncode != 0:
            print(r.stderr, file=sys.stderr)
            sys.exit(2)
    env = dict(os.environ)
    if not a.in_place:
        env["LCC_REPO"] = tree
    out = "/tmp/lccverif-seeded-out-%d" % os.getpid()
    os.makedirs(out + "/evidence", exist_ok=True)
    env["LCC_VERIF_OUT"] = out
    try:
        run_all(a, names, seeded, cmds, results, tree, env)
    finally:
        if not a.in_place:
            sh(f"git -C {REPO} worktree remove --force {tree}")
        sh(f"rm -rf {out}")
    # merge into the file as it is now (another invocation may have written meanwhile)
    cur = json.load(open(res_path)) if os.path.exists(res_path) else {}
    cur.update({k: v for k, v in results.items() if k in names})
    json.dump(cur, open(res_path, "w"), indent=1, sort_keys=True)


def run_all(a, names, seeded, cmds, results, tree, env):
    for name in names:
        d = os.path.join(seeded, name)
        meta = json.load(open(os.path.join(d, "meta.json")))
        pid = meta["property"]
        if pid not in cmds:
            print(f"{name}: property {pid} has no registered check; skipped")
            continue
        ap_ = sh(f"git -C {tree} apply {os.path.join(d, 'patch.diff')}")
        if ap_.returncode != 0:
            print(f"{name}: patch does not apply: {ap_.stderr[:300]}")
            results[name] = {"property": pid, "status": "patch-does-not-apply"}
            continue
        try:
            t0 = time.time()
            cmd = cmds[pid]["quick_cmd" if a.tier == "quick" else "thorough_cmd"]
            r = sh(cmd, cwd=ROOT, timeout=3600, env=env)
            lines = [l for l in r.stdout.splitlines() if l.startswith("VIOLATION")]
            caught = r.returncode == 1 and bool(lines)
            how = []
            for l in lines[:5]:
                try:
                    rp = [w for w in l.split() if w.startswith("replay=")][0][len("replay="):]
                    rp = os.path.normpath(os.path.join(ROOT, rp))
                    rep = json.load(open(rp))
                    how.append("%s: %s [%s]" % (rep.get("kind"), (rep.get("failure") or {}).get("signature") or rep.get("what", ""), rep.get("stream", "")))
                except Exception as e:      # the replay file is only read for the record
                    how.append("?")
            results[name] = {
                "property": pid, "tier": a.tier, "exit": r.returncode, "caught": caught,
                "violation_lines": lines[:3], "caught_by": how, "wall_s": round(time.time() - t0, 1),
                "summary": meta.get("summary", ""), "needs": meta.get("needs", ""),
                "no_failing_input_found": any("no-failing-input-found" in l for l in lines),
                "only_no_failing_input_found": bool(lines) and all("no-failing-input-found" in l for l in lines),
            }
            print(f"{name}: property={pid} exit={r.returncode} caught={caught} {lines[:1]}")
            if r.returncode == 2:
                print(r.stderr[-1500:])
        finally:
            sh(f"git -C {tree} checkout -- .")
            sh(f"git -C {tree} clean -fdq -- lemoncheesecake")


if __name__ == "__main__":
    main()

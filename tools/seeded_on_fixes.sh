#!/bin/bash
# usage: TREE=<scratch worktree of /repo HEAD> FIXES="fixes/a.diff fixes/b.diff" tools/seeded_on_fixes.sh C07-1 C02-5 ...
# applies the not-yet-committed repairs, then each seeded change (patch-on-fix.diff if present, else patch.diff) on top, and runs the quick check
cd "$(dirname "$0")/.." && mkdir -p ${OUT:-/tmp/lccverif-seeded-on-fix}
T=${TREE:?scratch worktree of /repo HEAD}
for id in "$@"; do
  c=${id%%-*}
  git -C $T checkout -- . ; git -C $T clean -fdq -- lemoncheesecake
  for f in $FIXES; do git -C $T apply $PWD/$f || exit 2; done
  p=seeded/$id/patch.diff; [ -f seeded/$id/patch-on-fix.diff ] && p=seeded/$id/patch-on-fix.diff
  if ! git -C $T apply $PWD/$p; then echo "$id: patch does not apply ($p)"; continue; fi
  out=${OUT:-/tmp/lccverif-seeded-on-fix}/out-$id
  LCC_REPO=$T LCC_VERIF_OUT=$out timeout 1500 /venv/bin/python harness/vcheck.py $c --tier quick > ${OUT:-/tmp/lccverif-seeded-on-fix}/$id.log 2>&1
  rc=$?
  sigs=$(/venv/bin/python - "$out" <<'P'
import json,glob,sys
out=[]
for f in sorted(glob.glob(sys.argv[1]+'/replays/*.json')):
    r=json.load(open(f))
    out.append("%s:%s[%s]" % (r['kind'], (r.get('failure') or {}).get('signature') or 'no-failing-input-found', r.get('stream')))
print("; ".join(out[:4]))
P
)
  echo "$id ($(basename $p)): exit=$rc violations=$(grep -c '^VIOLATION' ${OUT:-/tmp/lccverif-seeded-on-fix}/$id.log) :: $sigs"
done
git -C $T checkout -- .

#!/usr/bin/env python3
"""
Import seeded changes produced by red-team sub-agents (/tmp/mut/<ID>-out/<k>/) into seeded/<ID>-<k>/ after
confirming, in a scratch worktree of /repo HEAD: the patch applies, the 902 existing tests pass with it,
demo.py exits 1 with the patch and 0 without.  What was run is recorded in meta.json["verified"].
usage: tools/import_mutants.py C16 [C12 ...]
"""
import json
import os
import shutil
import subprocess
import sys

ROOT = os.path.dirname(os.path.dirname(os.path.abspath(__file__)))
WT = "/tmp/lccverif-import-wt"


def sh(cmd, **kw):
    return subprocess.run(cmd, shell=True, capture_output=True, text=True, **kw)


def main():
    sh(f"git -C /repo worktree remove --force {WT}")
    r = sh(f"git -C /repo worktree add --detach {WT} HEAD")
    assert r.returncode == 0, r.stderr
    head = sh("git -C /repo rev-parse --short HEAD").stdout.strip()
    try:
        for pid in sys.argv[1:]:
            base = f"/tmp/mut/{pid}-out"
            for k in sorted(os.listdir(base)):
                src = os.path.join(base, k)
                if not os.path.isfile(os.path.join(src, "patch.diff")):
                    continue
                name = f"{pid}-{k}"
                if os.path.isfile(os.path.join(ROOT, "seeded", name, "patch.diff")):
                    continue        # imported by an earlier call
                env = dict(os.environ, PYTHONPATH=WT)
                d0 = sh(f"cd {WT} && /venv/bin/python {src}/demo.py", env=env, timeout=600)
                a = sh(f"git -C {WT} apply {src}/patch.diff")
                if a.returncode != 0:
                    print(name, "patch does not apply", a.stderr[:200])
                    continue
                t = sh(f"cd {WT} && /venv/bin/python -m pytest -q -p no:cacheprovider -n 8 2>&1 | tail -1", timeout=900)
                d1 = sh(f"cd {WT} && /venv/bin/python {src}/demo.py", env=env, timeout=600)
                sh(f"git -C {WT} checkout -- . && git -C {WT} clean -fdq")
                ok = d0.returncode == 0 and d1.returncode == 1 and " passed" in t.stdout and "failed" not in t.stdout
                print(name, "demo clean exit", d0.returncode, "| demo patched exit", d1.returncode, "|", t.stdout.strip()[-60:], "| keep" if ok else "| REJECT")
                if not ok:
                    continue
                dst = os.path.join(ROOT, "seeded", name)
                os.makedirs(dst, exist_ok=True)
                for f in ("patch.diff", "demo.py"):
                    shutil.copy(os.path.join(src, f), os.path.join(dst, f))
                meta = json.load(open(os.path.join(src, "meta.json")))
                meta["property"] = pid
                meta["verified"] = {
                    "repo_head": head, "patch_applies": True, "tests": t.stdout.strip()[-80:],
                    "demo_exit_unpatched": d0.returncode, "demo_exit_patched": d1.returncode,
                    "demo_output_patched": (d1.stdout + d1.stderr)[-600:],
                    "how": "scratch worktree of /repo HEAD; pytest -n 8; PYTHONPATH=<worktree> python demo.py",
                }
                json.dump(meta, open(os.path.join(dst, "meta.json"), "w"), indent=1)
    finally:
        sh(f"git -C /repo worktree remove --force {WT}")


if __name__ == "__main__":
    main()
